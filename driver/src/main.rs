// dnp3-facts-driver: a rustc_private driver that dumps the type-checked, callee-resolved
// program (MIR *before* the coroutine transform, ADT / const / impl tables) of the crates
// `dnp3` and `dnp3_ffi` as JSON facts. It is injected with RUSTC_WORKSPACE_WRAPPER under
// `cargo +nightly check`. It never decides anything: all rules live in /verif/rules.
//
// See /verif/DESIGN.md §2.1 and Appendix A for why the MIR is captured inside an overridden
// `mir_borrowck` query (async bodies with intact dominance across `.await`).
#![feature(rustc_private)]
#![allow(clippy::all)]

extern crate rustc_abi;
extern crate rustc_borrowck;
extern crate rustc_data_structures;
extern crate rustc_driver;
extern crate rustc_hir;
extern crate rustc_interface;
extern crate rustc_middle;
extern crate rustc_span;

use std::collections::{BTreeMap, HashMap};
use std::fmt::Write as _;
use std::sync::Mutex;

use rustc_hir::def::DefKind;
use rustc_hir::def_id::{DefId, LocalDefId};
use rustc_middle::mir::{
    AggregateKind, AssertKind, BasicBlock, Body, BorrowKind, Const, ConstValue, Operand, Place,
    PlaceElem, ProjectionElem, Rvalue, StatementKind, TerminatorKind,
};
use rustc_middle::ty::print::{with_crate_prefix, with_no_trimmed_paths};
use rustc_middle::ty::{self, Ty, TyCtxt};
use rustc_span::{ExpnKind, Span};

const CRATES: &[&str] = &["dnp3", "dnp3_ffi"];

// ------------------------------------------------------------------------------------------
// tiny JSON value
// ------------------------------------------------------------------------------------------
enum J {
    Null,
    Bool(bool),
    Int(i128),
    Str(String),
    Arr(Vec<J>),
    Obj(Vec<(&'static str, J)>),
}

fn esc(s: &str, out: &mut String) {
    out.push('"');
    for c in s.chars() {
        match c {
            '"' => out.push_str("\\\""),
            '\\' => out.push_str("\\\\"),
            '\n' => out.push_str("\\n"),
            '\r' => out.push_str("\\r"),
            '\t' => out.push_str("\\t"),
            c if (c as u32) < 0x20 => {
                let _ = write!(out, "\\u{:04x}", c as u32);
            }
            c => out.push(c),
        }
    }
    out.push('"');
}

impl J {
    fn write(&self, out: &mut String) {
        match self {
            J::Null => out.push_str("null"),
            J::Bool(b) => out.push_str(if *b { "true" } else { "false" }),
            J::Int(i) => {
                let _ = write!(out, "{}", i);
            }
            J::Str(s) => esc(s, out),
            J::Arr(v) => {
                out.push('[');
                for (i, x) in v.iter().enumerate() {
                    if i > 0 {
                        out.push(',');
                    }
                    x.write(out);
                }
                out.push(']');
            }
            J::Obj(v) => {
                out.push('{');
                for (i, (k, x)) in v.iter().enumerate() {
                    if i > 0 {
                        out.push(',');
                    }
                    esc(k, out);
                    out.push(':');
                    x.write(out);
                }
                out.push('}');
            }
        }
    }
}

fn s(x: impl Into<String>) -> J {
    J::Str(x.into())
}
fn n(x: usize) -> J {
    J::Int(x as i128)
}

// ------------------------------------------------------------------------------------------
// global state (one rustc process = one crate)
// ------------------------------------------------------------------------------------------
#[derive(Default)]
struct State {
    strings: Vec<String>,
    string_ix: HashMap<String, usize>,
    bodies: Vec<String>,
    seen_bodies: std::collections::HashSet<String>,
    enums: BTreeMap<String, String>, // referenced enum path -> json
}

static STATE: Mutex<Option<State>> = Mutex::new(None);

fn with_state<R>(f: impl FnOnce(&mut State) -> R) -> R {
    let mut g = STATE.lock().unwrap();
    if g.is_none() {
        *g = Some(State::default());
    }
    f(g.as_mut().unwrap())
}

fn intern(st: &mut State, x: String) -> J {
    if let Some(i) = st.string_ix.get(&x) {
        return J::Int(*i as i128);
    }
    let i = st.strings.len();
    st.strings.push(x.clone());
    st.string_ix.insert(x, i);
    J::Int(i as i128)
}

// ------------------------------------------------------------------------------------------
// helpers
// ------------------------------------------------------------------------------------------
fn path_of(tcx: TyCtxt<'_>, did: DefId) -> String {
    with_no_trimmed_paths!(with_crate_prefix!(tcx.def_path_str(did)))
}

fn ty_str<'tcx>(ty: Ty<'tcx>) -> String {
    with_no_trimmed_paths!(ty.to_string())
}

fn span_json(tcx: TyCtxt<'_>, st: &mut State, span: Span) -> J {
    let mut chain: Vec<J> = vec![];
    let mut sp = span;
    let mut guard = 0;
    while sp.from_expansion() && guard < 64 {
        guard += 1;
        let ed = sp.ctxt().outer_expn_data();
        let krate = ed
            .macro_def_id
            .map(|d| tcx.crate_name(d.krate).to_string())
            .unwrap_or_default();
        match ed.kind {
            ExpnKind::Macro(_, name) => chain.push(s(format!("{}::{}", krate, name))),
            ExpnKind::Desugaring(k) => chain.push(s(format!("desugar:{:?}", k))),
            ExpnKind::AstPass(k) => chain.push(s(format!("astpass:{:?}", k))),
            ExpnKind::Root => {}
        }
        sp = ed.call_site;
    }
    let sm = tcx.sess.source_map();
    let lo = sm.lookup_char_pos(sp.lo());
    let file = match &lo.file.name {
        rustc_span::FileName::Real(r) => match r.local_path() {
            Some(p) => p.display().to_string(),
            None => format!("{:?}", r),
        },
        other => format!("{:?}", other),
    };
    let f = intern(st, file);
    if chain.is_empty() {
        J::Arr(vec![f, n(lo.line)])
    } else {
        J::Arr(vec![f, n(lo.line), J::Arr(chain)])
    }
}

fn field_name<'tcx>(
    tcx: TyCtxt<'tcx>,
    pty: rustc_middle::mir::PlaceTy<'tcx>,
    f: rustc_abi::FieldIdx,
) -> String {
    match pty.ty.kind() {
        ty::Adt(def, _) => {
            let v = pty.variant_index.unwrap_or(rustc_abi::FIRST_VARIANT);
            if def.is_enum() || def.is_struct() || def.is_union() {
                if let Some(variant) = def.variants().get(v) {
                    if let Some(fd) = variant.fields.get(f) {
                        return fd.name.to_string();
                    }
                }
            }
            format!("{}", f.index())
        }
        ty::Closure(did, _) | ty::Coroutine(did, _) | ty::CoroutineClosure(did, _) => {
            if let Some(ld) = did.as_local() {
                let names = tcx.closure_saved_names_of_captured_variables(ld);
                if let Some(nm) = names.get(f) {
                    return format!("^{}", nm);
                }
            }
            format!("^{}", f.index())
        }
        _ => format!("{}", f.index()),
    }
}

fn place_json<'tcx>(tcx: TyCtxt<'tcx>, st: &mut State, body: &Body<'tcx>, place: Place<'tcx>) -> J {
    let mut pty = rustc_middle::mir::PlaceTy::from_ty(body.local_decls[place.local].ty);
    let mut proj: Vec<J> = vec![];
    for elem in place.projection.iter() {
        let e: PlaceElem<'tcx> = elem;
        match e {
            ProjectionElem::Deref => proj.push(s("*")),
            ProjectionElem::Field(f, _) => proj.push(s(format!(".{}", field_name(tcx, pty, f)))),
            ProjectionElem::Index(l) => proj.push(s(format!("[_{}]", l.index()))),
            ProjectionElem::ConstantIndex { offset, from_end, .. } => {
                proj.push(s(format!("[#{}{}]", if from_end { "-" } else { "" }, offset)))
            }
            ProjectionElem::Subslice { .. } => proj.push(s("[..]")),
            ProjectionElem::Downcast(name, v) => {
                let nm = match name {
                    Some(nm) => nm.to_string(),
                    None => match pty.ty.kind() {
                        ty::Adt(def, _) if def.is_enum() => def.variant(v).name.to_string(),
                        _ => format!("{}", v.index()),
                    },
                };
                proj.push(s(format!("@{}", nm)))
            }
            _ => proj.push(s("?")),
        }
        pty = pty.projection_ty(tcx, e);
    }
    if proj.is_empty() {
        J::Int(place.local.index() as i128)
    } else {
        let t = intern(st, ty_str(pty.ty));
        J::Arr(vec![J::Int(place.local.index() as i128), J::Arr(proj), t])
    }
}

fn typing_env<'tcx>(tcx: TyCtxt<'tcx>, def: LocalDefId) -> ty::TypingEnv<'tcx> {
    ty::TypingEnv::post_analysis(tcx, def)
}

thread_local! { static CUR_ROOT: std::cell::Cell<Option<DefId>> = const { std::cell::Cell::new(None) }; }
fn env_root<'tcx>(_tcx: TyCtxt<'tcx>, _env: ty::TypingEnv<'tcx>) -> Option<DefId> {
    CUR_ROOT.with(|c| c.get())
}

fn scalar_of<'tcx>(
    tcx: TyCtxt<'tcx>,
    env: ty::TypingEnv<'tcx>,
    c: &Const<'tcx>,
) -> Option<(u128, Option<i128>)> {
    let ty = c.ty();
    if let Const::Unevaluated(uv, _) = c {
        // evaluating a promoted / inline const of the body being borrow-checked is a query cycle
        if uv.promoted.is_some() {
            return None;
        }
        if let Some(cur) = env_root(tcx, env) {
            if tcx.typeck_root_def_id(uv.def) == cur {
                return None;
            }
        }
    }
    let si = c.try_eval_scalar_int(tcx, env)?;
    let size = si.size();
    let bits = si.to_bits(size);
    let signed = match ty.kind() {
        ty::Int(_) => {
            let nb = size.bits() as u32;
            if nb == 0 {
                Some(0)
            } else if nb >= 128 {
                Some(bits as i128)
            } else {
                let shift = 128 - nb;
                Some(((bits << shift) as i128) >> shift)
            }
        }
        _ => None,
    };
    Some((bits, signed))
}

fn operand_json<'tcx>(
    tcx: TyCtxt<'tcx>,
    st: &mut State,
    body: &Body<'tcx>,
    env: ty::TypingEnv<'tcx>,
    op: &Operand<'tcx>,
) -> J {
    match op {
        Operand::Copy(p) => J::Obj(vec![("c", place_json(tcx, st, body, *p))]),
        Operand::Move(p) => J::Obj(vec![("m", place_json(tcx, st, body, *p))]),
        Operand::Constant(c) => {
            let ty = c.const_.ty();
            let mut o: Vec<(&'static str, J)> = vec![];
            o.push(("kty", intern(st, ty_str(ty))));
            match ty.kind() {
                ty::FnDef(did, args) => {
                    o.push(("fn", intern(st, path_of(tcx, *did))));
                    let tys: Vec<J> = args.types().map(|t| intern(st, ty_str(t))).collect();
                    if !tys.is_empty() {
                        o.push(("targs", J::Arr(tys)));
                    }
                }
                _ => {
                    if let Some((bits, signed)) = scalar_of(tcx, env, &c.const_) {
                        match signed {
                            Some(sv) => o.push(("v", J::Int(sv))),
                            None => {
                                if bits <= i128::MAX as u128 {
                                    o.push(("v", J::Int(bits as i128)))
                                } else {
                                    o.push(("vs", s(format!("{}", bits))))
                                }
                            }
                        }
                    }
                    if let Const::Unevaluated(uv, _) = c.const_ {
                        o.push(("def", intern(st, path_of(tcx, uv.def))));
                        if let Some(pi) = uv.promoted {
                            o.push(("promoted", n(pi.index())));
                        }
                    }
                    let txt = with_no_trimmed_paths!(format!("{}", c.const_));
                    let txt = if txt.len() > 160 { txt[..160].to_string() } else { txt };
                    o.push(("s", intern(st, txt)));
                }
            }
            J::Obj(o)
        }
        #[allow(unreachable_patterns)]
        _ => J::Obj(vec![("other", s(format!("{:?}", op)))]),
    }
}

fn note_enum<'tcx>(tcx: TyCtxt<'tcx>, st: &mut State, ty: Ty<'tcx>) -> Option<J> {
    if let ty::Adt(def, _) = ty.kind() {
        if def.is_enum() {
            let p = path_of(tcx, def.did());
            if !st.enums.contains_key(&p) {
                let mut vs: Vec<J> = vec![];
                for (vi, v) in def.variants().iter_enumerated() {
                    let d = def.discriminant_for_variant(tcx, vi).val;
                    vs.push(J::Arr(vec![J::Int(d as i128), s(v.name.to_string())]));
                }
                let mut out = String::new();
                J::Arr(vs).write(&mut out);
                st.enums.insert(p.clone(), out);
            }
            return Some(intern(st, p));
        }
    }
    None
}

fn rvalue_json<'tcx>(
    tcx: TyCtxt<'tcx>,
    st: &mut State,
    body: &Body<'tcx>,
    env: ty::TypingEnv<'tcx>,
    rv: &Rvalue<'tcx>,
) -> J {
    match rv {
        Rvalue::Use(op, ..) => J::Obj(vec![("k", s("use")), ("a", operand_json(tcx, st, body, env, op))]),
        Rvalue::CopyForDeref(p) => J::Obj(vec![
            ("k", s("use")),
            ("a", J::Obj(vec![("c", place_json(tcx, st, body, *p))])),
        ]),
        Rvalue::Repeat(op, _) => {
            J::Obj(vec![("k", s("repeat")), ("a", operand_json(tcx, st, body, env, op))])
        }
        Rvalue::Ref(_, bk, p) => J::Obj(vec![
            ("k", s("ref")),
            ("mut", J::Bool(matches!(bk, BorrowKind::Mut { .. }))),
            ("p", place_json(tcx, st, body, *p)),
        ]),
        Rvalue::RawPtr(_, p) => J::Obj(vec![("k", s("rawptr")), ("p", place_json(tcx, st, body, *p))]),
        Rvalue::Cast(kind, op, ty) => {
            let from = op.ty(&body.local_decls, tcx);
            J::Obj(vec![
                ("k", s("cast")),
                ("ck", s(format!("{:?}", kind))),
                ("a", operand_json(tcx, st, body, env, op)),
                ("from", intern(st, ty_str(from))),
                ("to", intern(st, ty_str(*ty))),
            ])
        }
        Rvalue::BinaryOp(op, ab) => {
            let (a, b) = &**ab;
            let aty = a.ty(&body.local_decls, tcx);
            J::Obj(vec![
                ("k", s("bin")),
                ("op", s(format!("{:?}", op))),
                ("a", operand_json(tcx, st, body, env, a)),
                ("b", operand_json(tcx, st, body, env, b)),
                ("ty", intern(st, ty_str(aty))),
            ])
        }
        Rvalue::UnaryOp(op, a) => J::Obj(vec![
            ("k", s("un")),
            ("op", s(format!("{:?}", op))),
            ("a", operand_json(tcx, st, body, env, a)),
        ]),
        Rvalue::Discriminant(p) => {
            let pty = p.ty(&body.local_decls, tcx).ty;
            let e = note_enum(tcx, st, pty).unwrap_or(J::Null);
            J::Obj(vec![("k", s("discr")), ("p", place_json(tcx, st, body, *p)), ("enum", e)])
        }
        Rvalue::Aggregate(kind, ops) => {
            let opsj: Vec<J> = ops.iter().map(|o| operand_json(tcx, st, body, env, o)).collect();
            match &**kind {
                AggregateKind::Array(_) => J::Obj(vec![("k", s("agg")), ("ak", s("array")), ("ops", J::Arr(opsj))]),
                AggregateKind::Tuple => J::Obj(vec![("k", s("agg")), ("ak", s("tuple")), ("ops", J::Arr(opsj))]),
                AggregateKind::Adt(did, vidx, _, _, active) => {
                    let def = tcx.adt_def(*did);
                    let variant = def.variant(*vidx);
                    let fields: Vec<J> = match active {
                        Some(f) => vec![s(variant.fields[*f].name.to_string())],
                        None => variant.fields.iter().map(|f| s(f.name.to_string())).collect(),
                    };
                    let p = path_of(tcx, *did);
                    if def.is_enum() {
                        let t = tcx.type_of(*did).instantiate_identity().skip_norm_wip();
                        let _ = note_enum(tcx, st, t);
                    }
                    J::Obj(vec![
                        ("k", s("agg")),
                        ("ak", s(if def.is_enum() { "enum" } else { "struct" })),
                        ("adt", intern(st, p)),
                        ("var", s(variant.name.to_string())),
                        ("fields", J::Arr(fields)),
                        ("ops", J::Arr(opsj)),
                    ])
                }
                AggregateKind::Closure(did, _) => J::Obj(vec![
                    ("k", s("agg")),
                    ("ak", s("closure")),
                    ("def", intern(st, path_of(tcx, *did))),
                    ("ops", J::Arr(opsj)),
                ]),
                AggregateKind::Coroutine(did, _) => J::Obj(vec![
                    ("k", s("agg")),
                    ("ak", s("coroutine")),
                    ("def", intern(st, path_of(tcx, *did))),
                    ("ops", J::Arr(opsj)),
                ]),
                AggregateKind::CoroutineClosure(did, _) => J::Obj(vec![
                    ("k", s("agg")),
                    ("ak", s("coroutine_closure")),
                    ("def", intern(st, path_of(tcx, *did))),
                    ("ops", J::Arr(opsj)),
                ]),
                AggregateKind::RawPtr(..) => J::Obj(vec![("k", s("agg")), ("ak", s("rawptr")), ("ops", J::Arr(opsj))]),
            }
        }
        other => {
            let txt = format!("{:?}", other);
            let txt = if txt.len() > 120 { txt[..120].to_string() } else { txt };
            J::Obj(vec![("k", s("other")), ("s", s(txt))])
        }
    }
}

fn bbn(b: BasicBlock) -> J {
    J::Int(b.index() as i128)
}

fn blocks_json<'tcx>(tcx: TyCtxt<'tcx>, st: &mut State, body: &Body<'tcx>, env: ty::TypingEnv<'tcx>) -> J {
        let mut blocks: Vec<J> = vec![];
        for (_bb, data) in body.basic_blocks.iter_enumerated() {
            let mut stmts: Vec<J> = vec![];
            for stmt in data.statements.iter() {
                match &stmt.kind {
                    StatementKind::Assign(b) => {
                        let (place, rv) = &**b;
                        stmts.push(J::Obj(vec![
                            ("d", place_json(tcx, st, body, *place)),
                            ("r", rvalue_json(tcx, st, body, env, rv)),
                            ("sp", span_json(tcx, st, stmt.source_info.span)),
                        ]));
                    }
                    StatementKind::SetDiscriminant { place, variant_index } => {
                        stmts.push(J::Obj(vec![
                            ("setdiscr", place_json(tcx, st, body, **place)),
                            ("var", n(variant_index.index())),
                        ]));
                    }
                    _ => {}
                }
            }
            let term = data.terminator();
            let mut t: Vec<(&'static str, J)> = vec![];
            t.push(("sp", span_json(tcx, st, term.source_info.span)));
            match &term.kind {
                TerminatorKind::Goto { target } => {
                    t.push(("k", s("goto")));
                    t.push(("t", bbn(*target)));
                }
                TerminatorKind::SwitchInt { discr, targets } => {
                    t.push(("k", s("switch")));
                    t.push(("a", operand_json(tcx, st, body, env, discr)));
                    let dty = discr.ty(&body.local_decls, tcx);
                    t.push(("ty", intern(st, ty_str(dty))));
                    let mut ts: Vec<J> = vec![];
                    for (v, b) in targets.iter() {
                        ts.push(J::Arr(vec![J::Int(v as i128), bbn(b)]));
                    }
                    t.push(("ts", J::Arr(ts)));
                    t.push(("o", bbn(targets.otherwise())));
                }
                TerminatorKind::UnwindResume => t.push(("k", s("resume"))),
                TerminatorKind::UnwindTerminate(_) => t.push(("k", s("terminate"))),
                TerminatorKind::Return => t.push(("k", s("return"))),
                TerminatorKind::Unreachable => t.push(("k", s("unreachable"))),
                TerminatorKind::CoroutineDrop => t.push(("k", s("coroutine_drop"))),
                TerminatorKind::Drop { place, target, .. } => {
                    t.push(("k", s("drop")));
                    t.push(("p", place_json(tcx, st, body, *place)));
                    t.push(("t", bbn(*target)));
                }
                TerminatorKind::Call { func, args, destination, target, fn_span, .. } => {
                    t.push(("k", s("call")));
                    let fty = func.ty(&body.local_decls, tcx);
                    match fty.kind() {
                        ty::FnDef(fdid, gargs) => {
                            t.push(("f", intern(st, path_of(tcx, *fdid))));
                            let tys: Vec<J> = gargs.types().map(|x| intern(st, ty_str(x))).collect();
                            if !tys.is_empty() {
                                t.push(("targs", J::Arr(tys)));
                            }
                            match ty::Instance::try_resolve(tcx, env, *fdid, gargs) {
                                Ok(Some(inst)) => {
                                    let rk = match inst.def {
                                        ty::InstanceKind::Item(_) => "item",
                                        ty::InstanceKind::Virtual(..) => "virtual",
                                        ty::InstanceKind::Intrinsic(_) => "intrinsic",
                                        ty::InstanceKind::FnPtrShim(..) => "fnptrshim",
                                        ty::InstanceKind::ClosureOnceShim { .. } => "closure_once",
                                        ty::InstanceKind::ReifyShim(..) => "reify",
                                        ty::InstanceKind::DropGlue(..) => "dropglue",
                                        ty::InstanceKind::CloneShim(..) => "cloneshim",
                                        _ => "othershim",
                                    };
                                    t.push(("r", intern(st, path_of(tcx, inst.def_id()))));
                                    t.push(("rk", s(rk)));
                                }
                                _ => {}
                            }
                        }
                        _ => {
                            t.push(("fp", operand_json(tcx, st, body, env, func)));
                        }
                    }
                    let aj: Vec<J> = args.iter().map(|a| operand_json(tcx, st, body, env, &a.node)).collect();
                    t.push(("args", J::Arr(aj)));
                    t.push(("d", place_json(tcx, st, body, *destination)));
                    if let Some(tg) = target {
                        t.push(("t", bbn(*tg)));
                    }
                    let _ = fn_span;
                }
                TerminatorKind::TailCall { .. } => t.push(("k", s("tailcall"))),
                TerminatorKind::Assert { cond, expected, msg, target, .. } => {
                    t.push(("k", s("assert")));
                    t.push(("cond", operand_json(tcx, st, body, env, cond)));
                    t.push(("exp", J::Bool(*expected)));
                    let (mk, ops): (String, Vec<&Operand<'tcx>>) = match &**msg {
                        AssertKind::BoundsCheck { len, index } => ("BoundsCheck".into(), vec![len, index]),
                        AssertKind::Overflow(op, a, b) => (format!("Overflow({:?})", op), vec![a, b]),
                        AssertKind::OverflowNeg(a) => ("OverflowNeg".into(), vec![a]),
                        AssertKind::DivisionByZero(a) => ("DivisionByZero".into(), vec![a]),
                        AssertKind::RemainderByZero(a) => ("RemainderByZero".into(), vec![a]),
                        other => (format!("{:?}", other).split('(').next().unwrap_or("?").to_string(), vec![]),
                    };
                    t.push(("mk", s(mk)));
                    let oj: Vec<J> = ops.iter().map(|a| operand_json(tcx, st, body, env, a)).collect();
                    t.push(("ops", J::Arr(oj)));
                    t.push(("t", bbn(*target)));
                }
                TerminatorKind::Yield { resume, drop, .. } => {
                    t.push(("k", s("yield")));
                    t.push(("t", bbn(*resume)));
                    if let Some(d) = drop {
                        t.push(("dropbb", bbn(*d)));
                    }
                }
                TerminatorKind::FalseEdge { real_target, .. } => {
                    t.push(("k", s("goto")));
                    t.push(("t", bbn(*real_target)));
                    t.push(("false", J::Bool(true)));
                }
                TerminatorKind::FalseUnwind { real_target, .. } => {
                    t.push(("k", s("goto")));
                    t.push(("t", bbn(*real_target)));
                    t.push(("false", J::Bool(true)));
                }
                TerminatorKind::InlineAsm { .. } => t.push(("k", s("asm"))),
            }
            let mut b: Vec<(&'static str, J)> = vec![];
            if data.is_cleanup {
                b.push(("cleanup", J::Bool(true)));
            }
            b.push(("s", J::Arr(stmts)));
            b.push(("t", J::Obj(t)));
            blocks.push(J::Obj(b));
        }
        J::Arr(blocks)
}

fn scan<'tcx>(tcx: TyCtxt<'tcx>, def: LocalDefId) {
    let crate_name = tcx.crate_name(rustc_hir::def_id::LOCAL_CRATE).to_string();
    if !CRATES.contains(&crate_name.as_str()) {
        return;
    }
    let did = def.to_def_id();
    let path = path_of(tcx, did);
    let already = with_state(|st| !st.seen_bodies.insert(path.clone()));
    if already {
        return;
    }
    // NOTE: the global lock is never held while calling into tcx (queries re-enter
    // mir_borrowck, e.g. const evaluation), so each body interns into its own table.
    let mut local = State::default();
    let (body_steal, _promoted) = tcx.mir_promoted(def);
    if body_steal.is_stolen() {
        with_state(|st| {
            let mut out = String::new();
            J::Obj(vec![("path", s(path.clone())), ("stolen", J::Bool(true))]).write(&mut out);
            st.bodies.push(out);
        });
        return;
    }
    let body_ref = body_steal.borrow();
    let body: &Body<'tcx> = &body_ref;
    let env = typing_env(tcx, def);
    let prev_root = CUR_ROOT.with(|c| c.replace(Some(tcx.typeck_root_def_id(did))));
    struct Restore(Option<DefId>);
    impl Drop for Restore {
        fn drop(&mut self) {
            CUR_ROOT.with(|c| c.set(self.0));
        }
    }
    let _restore = Restore(prev_root);

    {
        let st = &mut local;
        let mut o: Vec<(&'static str, J)> = vec![];
        o.push(("path", s(path.clone())));
        let kind = tcx.def_kind(did);
        o.push(("kind", s(format!("{:?}", kind))));
        o.push(("span", span_json(tcx, st, body.span)));
        let sm = tcx.sess.source_map();
        let hi = sm.lookup_char_pos(body.span.hi());
        o.push(("end_line", n(hi.line)));
        o.push(("argc", n(body.arg_count)));
        if let Some(ck) = tcx.coroutine_kind(did) {
            o.push(("coroutine", s(format!("{:?}", ck))));
        }
        if matches!(kind, DefKind::Closure) {
            let parent = tcx.local_parent(def);
            o.push(("parent", s(path_of(tcx, parent.to_def_id()))));
        }
        // locals
        let mut locals: Vec<J> = vec![];
        for (_l, decl) in body.local_decls.iter_enumerated() {
            locals.push(intern(st, ty_str(decl.ty)));
        }
        o.push(("locals", J::Arr(locals)));
        // debug info
        let mut dbg: Vec<J> = vec![];
        for vdi in body.var_debug_info.iter() {
            if let rustc_middle::mir::VarDebugInfoContents::Place(p) = vdi.value {
                dbg.push(J::Arr(vec![s(vdi.name.to_string()), place_json(tcx, st, body, p)]));
            }
        }
        o.push(("dbg", J::Arr(dbg)));
        o.push(("blocks", blocks_json(tcx, st, body, env)));
        // promoted constants (e.g. `&FunctionCode::Confirm` in comparisons)
        {
            let promoted_ref = _promoted.borrow();
            let mut pj: Vec<J> = vec![];
            for pb in promoted_ref.iter() {
                pj.push(blocks_json(tcx, st, pb, env));
            }
            if !pj.is_empty() {
                o.push(("promoted", J::Arr(pj)));
            }
        }
        let strs: Vec<J> = st.strings.iter().map(|x| s(x.clone())).collect();
        o.push(("strings", J::Arr(strs)));
        let mut out = String::new();
        J::Obj(o).write(&mut out);
        let enums = std::mem::take(&mut st.enums);
        with_state(|g| {
            g.bodies.push(out);
            for (k, v) in enums {
                g.enums.entry(k).or_insert(v);
            }
        });
    }
}

// ------------------------------------------------------------------------------------------
// crate-level tables, written once in after_analysis
// ------------------------------------------------------------------------------------------
fn const_json<'tcx>(tcx: TyCtxt<'tcx>, did: DefId) -> Option<J> {
    let generics = tcx.generics_of(did);
    if generics.count() != 0 || generics.parent_count != 0 && tcx.generics_of(tcx.parent(did)).count() != 0 {
        return None;
    }
    let ty = tcx.type_of(did).instantiate_identity().skip_norm_wip();
    let val = tcx.const_eval_poly(did).ok()?;
    let mut o: Vec<(&'static str, J)> = vec![];
    o.push(("path", s(path_of(tcx, did))));
    o.push(("ty", s(ty_str(ty))));
    match val {
        ConstValue::Scalar(sc) => {
            if let Ok(si) = sc.try_to_scalar_int() {
                let bits = si.to_bits(si.size());
                o.push(("size", n(si.size().bytes() as usize)));
                if bits <= i128::MAX as u128 {
                    o.push(("v", J::Int(bits as i128)));
                } else {
                    o.push(("vs", s(format!("{}", bits))));
                }
            } else {
                o.push(("ptr", J::Bool(true)));
            }
        }
        ConstValue::ZeroSized => o.push(("zst", J::Bool(true))),
        ConstValue::Indirect { alloc_id, offset } => {
            let layout = tcx
                .layout_of(ty::TypingEnv::fully_monomorphized().as_query_input(ty))
                .ok()?;
            let size = layout.size.bytes() as usize;
            if size > 65536 {
                return None;
            }
            let alloc = tcx.global_alloc(alloc_id).unwrap_memory();
            let inner = alloc.inner();
            let start = offset.bytes() as usize;
            let bytes = inner.inspect_with_uninit_and_ptr_outside_interpreter(start..start + size);
            let mut hex = String::with_capacity(size * 2);
            for b in bytes {
                let _ = write!(hex, "{:02x}", b);
            }
            o.push(("size", n(size)));
            o.push(("hex", s(hex)));
        }
        ConstValue::Slice { .. } => o.push(("slice", J::Bool(true))),
    }
    Some(J::Obj(o))
}

fn tables<'tcx>(tcx: TyCtxt<'tcx>) -> (Vec<J>, Vec<J>, Vec<J>, Vec<J>) {
    let mut adts = vec![];
    let mut consts = vec![];
    let mut impls = vec![];
    let mut fns = vec![];
    let items = tcx.hir_crate_items(());
    for ld in items.definitions() {
        let did = ld.to_def_id();
        match tcx.def_kind(did) {
            DefKind::Struct | DefKind::Enum | DefKind::Union => {
                let def = tcx.adt_def(did);
                let mut vs = vec![];
                for (vi, v) in def.variants().iter_enumerated() {
                    let d = if def.is_enum() {
                        def.discriminant_for_variant(tcx, vi).val as i128
                    } else {
                        0
                    };
                    let fs: Vec<J> = v
                        .fields
                        .iter()
                        .map(|f| {
                            let fty = tcx.type_of(f.did).instantiate_identity().skip_norm_wip();
                            J::Arr(vec![s(f.name.to_string()), s(ty_str(fty))])
                        })
                        .collect();
                    vs.push(J::Obj(vec![("name", s(v.name.to_string())), ("discr", J::Int(d)), ("fields", J::Arr(fs))]));
                }
                let sm = tcx.sess.source_map();
                let sp = tcx.def_span(did);
                let lo = sm.lookup_char_pos(sp.lo());
                adts.push(J::Obj(vec![
                    ("path", s(path_of(tcx, did))),
                    ("kind", s(if def.is_enum() { "enum" } else if def.is_struct() { "struct" } else { "union" })),
                    ("line", n(lo.line)),
                    ("file", s(format!("{}", lo.file.name.prefer_local_unconditionally()))),
                    ("variants", J::Arr(vs)),
                ]));
            }
            DefKind::Const { .. } | DefKind::AssocConst { .. } => {
                if let Some(j) = const_json(tcx, did) {
                    consts.push(j);
                }
            }
            DefKind::Impl { .. } => {
                let self_ty = tcx.type_of(did).instantiate_identity().skip_norm_wip();
                let tr = tcx.impl_opt_trait_ref(did).map(|t| {
                    let t = t.instantiate_identity().skip_norm_wip();
                    (path_of(tcx, t.def_id), with_no_trimmed_paths!(t.to_string()))
                });
                let mut its = vec![];
                for it in tcx.associated_items(did).in_definition_order() {
                    its.push(J::Arr(vec![s(it.opt_name().map(|x| x.to_string()).unwrap_or_default()), s(path_of(tcx, it.def_id)), s(format!("{:?}", it.tag()))]));
                }
                let mut o: Vec<(&'static str, J)> = vec![
                    ("path", s(path_of(tcx, did))),
                    ("self", s(ty_str(self_ty))),
                    ("items", J::Arr(its)),
                ];
                if let Some((tp, ts)) = tr {
                    o.push(("trait", s(tp)));
                    o.push(("trait_ref", s(ts)));
                }
                impls.push(J::Obj(o));
            }
            DefKind::Fn | DefKind::AssocFn => {
                let sig = tcx.fn_sig(did).instantiate_identity().skip_norm_wip().skip_binder();
                let inputs: Vec<J> = sig.inputs().iter().map(|t| s(ty_str(*t))).collect();
                let vis = tcx.visibility(did);
                let mut o: Vec<(&'static str, J)> = vec![
                    ("path", s(path_of(tcx, did))),
                    ("inputs", J::Arr(inputs)),
                    ("output", s(ty_str(sig.output()))),
                    ("vis", s(format!("{:?}", vis))),
                ];
                if let Some(ld2) = did.as_local() {
                    if tcx.hir_maybe_body_owned_by(ld2).is_some() {
                        let names: Vec<J> = tcx
                            .fn_arg_idents(did)
                            .iter()
                            .map(|i| s(i.map(|x| x.name.to_string()).unwrap_or_default()))
                            .collect();
                        o.push(("params", J::Arr(names)));
                    }
                }
                if let Some(parent) = tcx.opt_parent(did) {
                    if matches!(tcx.def_kind(parent), DefKind::Impl { .. } | DefKind::Trait) {
                        o.push(("container", s(path_of(tcx, parent))));
                    }
                }
                fns.push(J::Obj(o));
            }
            _ => {}
        }
    }
    (adts, consts, impls, fns)
}

struct Cb;

impl rustc_driver::Callbacks for Cb {
    fn config(&mut self, config: &mut rustc_interface::interface::Config) {
        config.override_queries = Some(|_sess, providers| {
            providers.queries.mir_borrowck = |tcx, def| {
                scan(tcx, def);
                for nb in tcx.nested_bodies_within(def) {
                    scan(tcx, nb);
                }
                let mut p = rustc_middle::queries::Providers::default();
                rustc_borrowck::provide(&mut p);
                (p.mir_borrowck)(tcx, def)
            };
        });
    }

    fn after_analysis<'tcx>(
        &mut self,
        _compiler: &rustc_interface::interface::Compiler,
        tcx: TyCtxt<'tcx>,
    ) -> rustc_driver::Compilation {
        let crate_name = tcx.crate_name(rustc_hir::def_id::LOCAL_CRATE).to_string();
        if !CRATES.contains(&crate_name.as_str()) {
            return rustc_driver::Compilation::Continue;
        }
        let dir = match std::env::var("DNP3_FACTS_DIR") {
            Ok(d) => d,
            Err(_) => return rustc_driver::Compilation::Continue,
        };
        let (adts, consts, impls, fns) = tables(tcx);
        let mut out = String::new();
        with_state(|st| {
            out.push_str("{\"crate\":");
            esc(&crate_name, &mut out);
            out.push_str(",\"rustc\":");
            esc(&tcx.sess.cfg_version.to_string(), &mut out);
            for (name, v) in [("adts", adts), ("consts", consts), ("impls", impls), ("fns", fns)] {
                out.push_str(",\"");
                out.push_str(name);
                out.push_str("\":");
                J::Arr(v).write(&mut out);
            }
            out.push_str(",\"enums\":{");
            for (i, (k, v)) in st.enums.iter().enumerate() {
                if i > 0 {
                    out.push(',');
                }
                esc(k, &mut out);
                out.push(':');
                out.push_str(v);
            }
            out.push_str("},\"bodies\":[\n");
            for (i, b) in st.bodies.iter().enumerate() {
                if i > 0 {
                    out.push_str(",\n");
                }
                out.push_str(b);
            }
            out.push_str("\n]}");
        });
        let tmp = format!("{}/{}.json.tmp.{}", dir, crate_name, std::process::id());
        let fin = format!("{}/{}.json", dir, crate_name);
        std::fs::create_dir_all(&dir).expect("facts dir");
        std::fs::write(&tmp, out).expect("write facts");
        std::fs::rename(&tmp, &fin).expect("rename facts");
        rustc_driver::Compilation::Continue
    }
}

fn main() {
    let mut args: Vec<String> = std::env::args().collect();
    // under RUSTC_WORKSPACE_WRAPPER argv[1] is the path of the real rustc
    if args.len() > 1 && (args[1].ends_with("rustc") || args[1].contains("/rustc")) {
        args.remove(1);
    }
    rustc_driver::run_compiler(&args, &mut Cb);
}
