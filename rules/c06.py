"""C06 — only intact link frames are delivered, and every frame sent is recovered."""
import json
import os

from engine import *
from mir import *

EXPLANATION = (
    "CRC_TABLE equals the table the checker generates from the DNP3 polynomial (reflected 0xA6BC), CRC_OF_0564 and the link constants "
    "equal the standard and are mutually consistent (292 = 10 + 250 + 2*ceil(250/16)). Parser: each state transition is dominated by its "
    "acceptance test (0x05, 0x64, length >= 5, header CRC over the same six bytes; every payload.push dominated by the CRC test of the "
    "same block; Ok(Some) only after the whole body), partial input consumes nothing; discard mode skips one byte and resets on error, "
    "close mode propagates; datagram mode resets buffer and parser on a partial frame. Function/address/control tables are inverses of "
    "their siblings and equal the standard. The formatter writes the header fields in the order the parser reads them, with the same CRC helpers."
)
ASSUMPTIONS = [
    "'parsed back identically however the stream is split' and the 1/2/3-bit error clause quantify over byte values and chunkings; R1 establishes that the code computes CRC-16/DNP, whose Hamming distance is a fact about the polynomial",
    "calc_trailer_length arithmetic is not symbolically checked",
]
TRUSTED = ["rustc nightly MIR + const evaluation", "facts driver", "tables/ieee1815.json", "rules/mir.py"]
REF = json.load(open(os.path.join(VERIF, "tables", "ieee1815.json")))
L = REF["link"]


def crc_table(poly_reflected):
    tab = []
    for i in range(256):
        c = i
        for _ in range(8):
            c = (c >> 1) ^ poly_reflected if c & 1 else c >> 1
        tab.append(c)
    return tab


def crc_of(tab, data, acc=0):
    for b in data:
        acc = tab[(acc ^ b) & 0xFF] ^ (acc >> 8)
    return acc


def r1(ctx):
    prog = ctx.prog
    c = prog.const("link::crc::CRC_TABLE")
    raw = bytes.fromhex(c.get("hex", ""))
    ctx.check(len(raw) == 512, "CRC_TABLE:size", "CRC_TABLE has 256 u16 entries (%d bytes)" % len(raw))
    got = [raw[2 * i] | (raw[2 * i + 1] << 8) for i in range(len(raw) // 2)]
    want = crc_table(L["CRC_POLY_REFLECTED"])
    bad = [i for i in range(min(len(got), 256)) if got[i] != want[i]]
    ctx.check(not bad and len(got) == 256, "CRC_TABLE:values", "all 256 entries equal the table generated from polynomial 0x3D65 (reflected 0xA6BC)", bad_detail="entries %s differ from CRC-16/DNP" % bad[:8])
    c2 = prog.const("link::crc::CRC_OF_0564")
    ctx.check(c2.get("v") == crc_of(want, [0x05, 0x64]) == L["CRC_OF_0564"], "CRC_OF_0564", "CRC_OF_0564 = %s (computed %s)" % (c2.get("v"), crc_of(want, [5, 0x64])))
    for name in ("START1", "START2", "MAX_FRAME_PAYLOAD_LENGTH", "LINK_HEADER_LENGTH", "MAX_LINK_FRAME_LENGTH", "MIN_HEADER_LENGTH_VALUE", "MAX_BLOCK_SIZE"):
        v = prog.const("link::constant::" + name).get("v")
        ctx.check(v == L[name], "const:%s" % name, "%s = %s (standard %s)" % (name, v, L[name]))
    ctx.check(prog.const("link::constant::CRC_LENGTH").get("v") == 2, "const:CRC_LENGTH", "CRC_LENGTH = 2")
    ctx.check(prog.const("link::constant::MAX_APP_BYTES_PER_FRAME").get("v") == 249, "const:MAX_APP_BYTES_PER_FRAME", "MAX_APP_BYTES_PER_FRAME = 249")
    ctx.check(prog.const("link::constant::MAX_BLOCK_SIZE_WITH_CRC").get("v") == 18, "const:MAX_BLOCK_SIZE_WITH_CRC", "MAX_BLOCK_SIZE_WITH_CRC = 18")
    ctx.check(L["MAX_LINK_FRAME_LENGTH"] == 10 + 250 + 2 * ((250 + 15) // 16), "const:292", "292 = 10 + 250 + 2*ceil(250/16)")
    # the crc functions: !crc_increment(seed, slice)
    for fn_, seed in (("calc_crc", 0), ("calc_crc_with_0564", L["CRC_OF_0564"])):
        bd = prog.body("link::crc::" + fn_)
        e = [x for _, _, _, x in ret_sites(bd, ctx.sym(bd))]
        ok = bool(e) and e[0][0] == "un" and e[0][1] == "Not" and e[0][2][0] == "call" and e[0][2][1].endswith("crc_increment") and const_value(prog, e[0][2][2][0]) == seed and e[0][2][2][1] == ("param", "slice")
        ctx.check(ok, "crc-fn:%s" % fn_, "%s = %s" % (fn_, expr_str(e[0]) if e else None), bd.where(line=bd.line))
    ib = prog.body("link::crc::crc_increment")
    isym = ctx.sym(ib)
    ws = [isym.rvalue_expr(st.rv) for b, si, st in ib.assigns() if st.dest.is_local() and ib.local_name(st.dest.local) == "acc"]
    for ch in family(prog, ib)[1:]:  # the byte loop written as slice.iter().fold(acc, |acc, byte| ..)
        ws += [e for _, _, _, e in ret_sites(ch, ctx.sym(ch))] + [ctx.sym(ch).rvalue_expr(st.rv) for b, si, st in ch.assigns() if st.rv["k"] == "bin"]
    ok = any(mentions(e, lambda s: s[0] == "bin" and s[1] == "BitXor") and mentions(e, lambda s: s[0] == "bin" and s[1] == "Shr") and mentions_const(e, 8) and mentions(e, lambda s: s[0] == "index") for e in ws)
    ctx.check(ok, "crc_increment:step", "acc = CRC_TABLE[(acc as u8) ^ byte] ^ (acc >> 8)", ib.where(line=ib.line))


def _state_writes(body, sym, variant):
    out = []
    for b, si, st in field_writes(body, "state"):
        e = sym.rvalue_expr(st.rv)
        if e[0] == "agg" and e[2] == variant:
            out.append((b, e))
    return out


def r2(ctx):
    prog = ctx.prog
    for fn_, nxt, byte in (("parse_sync1", "FindSync2", 0x05), ("parse_sync2", "ReadHeader", 0x64)):
        bd = prog.body("link::parser::Parser::" + fn_)
        sym = ctx.sym(bd)
        ws = _state_writes(bd, sym, nxt)
        if len(ws) != 1:
            raise AnchorError("%s: state write" % fn_)
        ctx.require_guards(bd, ws[0][0].idx, [("byte == 0x%02X" % byte, g_rel("Eq", lambda x: mentions_call(x, r"ReadCursor::read_u8$"), lambda x: const_value(prog, x) == byte))], "%s->%s" % (fn_, nxt), "state := %s" % nxt)
    bd = prog.body("link::parser::Parser::parse_header")
    sym = ctx.sym(bd)
    ws = _state_writes(bd, sym, "ReadBody")
    if len(ws) != 1:
        raise AnchorError("parse_header: ReadBody write")
    b, e = ws[0]
    six = lambda x: mentions_call(x, r"ReadCursor::read_bytes$") and mentions_const(x, 6)
    ctx.require_guards(bd, b.idx, [
        ("len >= 5", g_rel("Ge", lambda x: mentions_call(x, r"ReadCursor::read_u8$"), lambda x: const_value(prog, x) == 5)),
        ("crc_value == calc_crc_with_0564(crc_bytes)", g_rel("Eq", lambda x: mentions_call(x, r"ReadCursor::read_u16_le$"), lambda x: mentions_call(x, r"crc::calc_crc_with_0564$") and six(x))),
    ], "parse_header->ReadBody", "state := ReadBody")
    hdr = agg_field(e, "0")
    ctx.check(six(hdr) and mentions_call(hdr, r"link::header::Header::new$"), "header-from-crc-bytes", "the header is decoded from the six CRC-covered bytes", bd.where(b.idx))
    tl = agg_field(e, "1")
    ctx.check(mentions_call(tl, r"Parser::calc_trailer_length$") and mentions(tl, lambda s: s[0] == "bin" and s[1] in ("Sub", "SubWithOverflow")) and mentions_const(tl, 5), "trailer-length", "trailer length = calc_trailer_length(len - 5)", bd.where(b.idx))
    # Header::new argument order: control, destination, source  <- bytes 1, 2..3, 4..5
    for c in call_sites(bd, r"link::header::Header::new$"):
        ce = sym.call_expr(c.term)
        ok = mentions_call(ce[2][0], r"ControlField::from$") and mentions_call(ce[2][1], r"AnyAddress::from$") and mentions_call(ce[2][2], r"AnyAddress::from$")
        ctx.check(ok, "Header::new:shape", "Header::new(control, destination, source)", bd.where(c.idx))
    # order of reads in parse_header: read_u8 (len), read_u8 (ctrl), read_u16 (dest), read_u16 (src)
    seq = []
    order = sorted((b2.idx, b2) for b2 in bd.calls() if re.search(r"ReadCursor::read_(u8|u16_le)$", b2.term.callee or ""))
    # walk the straight-line spine from entry
    spine = []
    cur = 0
    seen = set()
    while cur is not None and cur not in seen:
        seen.add(cur)
        blk = bd.blocks[cur]
        if blk.term.kind == "call":
            m = re.search(r"ReadCursor::(read_u8|read_u16_le|read_bytes|new)$", blk.term.callee or "")
            if m:
                spine.append(m.group(1))
        ss = bd.succs(cur)
        if blk.term.kind == "switch":
            # follow the Continue / non-error edge: the one that does not reach an error return first
            nxt = None
            for g in ctx.gi(bd).by_switch.get(cur, []):
                tgt, gg = g
                if gg.kind == "is" and gg.name == "Continue":
                    nxt = tgt
                if gg.kind == "rel" and gg.op in ("Ge",):
                    nxt = tgt
                if gg.kind == "rel" and gg.op == "Eq" and mentions_call(gg.b, r"calc_crc") or (gg.kind == "rel" and gg.op == "Eq" and mentions_call(gg.a, r"calc_crc")):
                    nxt = tgt
            cur = nxt
        else:
            cur = ss[0] if ss else None
    want = ["read_bytes", "read_u16_le", "new", "read_u8", "read_u8", "read_u16_le", "read_u16_le"]
    ctx.check(spine[: len(want)] == want, "parse_header:read-order", "reads: 6 bytes, crc, then len, control, destination, source (%s)" % spine[:8], bd.where(line=bd.line))


def r3(ctx):
    prog = ctx.prog
    bd = prog.body("link::parser::Parser::parse_body")
    sym = ctx.sym(bd)
    pushes = call_sites(bd, r"FramePayload::push$")
    if len(pushes) != 1:
        raise AnchorError("parse_body: push")
    p = pushes[0]
    pe = sym.call_expr(p.term)
    data = pe[2][1]
    ctx.require_guards(bd, p.idx, [("crc_value == calc_crc(data)", g_rel("Eq", lambda x: mentions_call(x, r"ReadCursor::read_u16_le$"), lambda x: mentions_call(x, r"crc::calc_crc$")))], "push:after-crc", "payload.push(data)")
    g = [g for g in ctx.guards_at(bd, p.idx) if g.kind == "rel" and g.op == "Eq" and (mentions_call(g.a, r"crc::calc_crc$") or mentions_call(g.b, r"crc::calc_crc$"))]
    if g:
        side = g[0].a if mentions_call(g[0].a, r"crc::calc_crc$") else g[0].b
        crc_arg = [s for s in expr_walk(side) if s[0] == "call" and s[1].endswith("crc::calc_crc")][0][2][0]
        ctx.check(crc_arg == data, "push:same-data", "the block pushed is the block whose CRC was checked (%s)" % expr_str(data)[-60:], bd.where(p.idx), bad_detail="CRC computed over %s but %s is pushed" % (expr_str(crc_arg)[-60:], expr_str(data)[-60:]))
    clr = call_sites(bd, r"FramePayload::clear$")
    ctx.check(len(clr) == 1 and bd.block_dominates(clr[0].idx, p.idx), "clear-before-loop", "payload.clear() dominates the block loop", bd.where(p.idx))
    # Ok(Some) only after the iterator is exhausted
    for b, si, st, e in ret_sites(bd, sym):
        if e[0] == "agg" and e[2] == "Ok" and variant_name(agg_field(e, "0")) == "Some":
            ctx.require_guards(bd, b.idx, [("all blocks consumed", g_is(lambda x: mentions_call(x, r"Iterator.*::next$|::next$"), "None")), ("enough bytes", g_rel("Ge", lambda x: mentions_call(x, r"ReadCursor::remaining$"), "trailer_length"))], "body:Ok(Some)", "Ok(Some(()))")
    fs = _state_writes(bd, sym, "FindSync1")
    ctx.check(len(fs) == 1, "body:state-reset", "state returns to FindSync1 after a complete body", bd.where(fs[0][0].idx) if fs else "")
    # chunk size and split
    ch = [c for c in bd.calls() if re.search(r"::chunks$", c.term.callee or "")]
    ok = len(ch) == 1 and const_value(prog, sym.call_expr(ch[0].term)[2][1]) == 18
    ctx.check(ok, "body:chunks(18)", "body is cut into 18-byte blocks", bd.where(ch[0].idx) if ch else "")
    for b in call_sites(bd, r"np_split_at$"):
        e = sym.call_expr(b.term)
        ctx.check(mentions(e[2][1], lambda s: s[0] == "bin" and s[1] in ("Sub", "SubWithOverflow")) and mentions_const(e[2][1], 2), "body:split-at-len-2", "block split at len-2", bd.where(b.idx))
    # parse_impl returns the header only when parse_body said Some
    ib = prog.body("link::parser::Parser::parse_impl")
    for b, si, st, e in ret_sites(ib, ctx.sym(ib)):
        if e[0] == "agg" and e[2] == "Ok" and variant_name(agg_field(e, "0")) == "Some":
            ctx.require_guards(ib, b.idx, [("state is ReadBody", g_is("state", "ReadBody")), ("parse_body(..)? is Some", g_is(lambda x: mentions_call(x, r"Parser::parse_body$"), "Some"))], "impl:Ok(Some(header))", "delivering a header")
            ctx.check(mentions(e, lambda s: s[0] == "variant" and s[2] == "ReadBody"), "impl:header-src", "the delivered header is the one stored with the state", ib.where(b.idx))


def r4(ctx):
    prog = ctx.prog
    for fn_, need in (("parse_header", lambda x: const_value(prog, x) == 8), ("parse_body", lambda x: mentions_name(x, "trailer_length"))):
        bd = prog.body("link::parser::Parser::" + fn_)
        reads = call_sites(bd, r"ReadCursor::read_\w+$")
        if not reads:
            raise AnchorError("%s: reads" % fn_)
        first = min(reads, key=lambda b: b.idx)
        for r in reads:
            ctx.require_guards(bd, r.idx, [("remaining >= needed", g_rel("Ge", lambda x: mentions_call(x, r"ReadCursor::remaining$"), need))], "%s:no-consume#%d" % (fn_, reads.index(r)), "cursor read in %s" % fn_)
        # the insufficient edge returns Ok(None)/Ok(()) without touching state
        ins = [g for g in ctx.gi(bd).all_guards() if g.kind == "rel" and g.op == "Lt" and mentions_call(g.a, r"ReadCursor::remaining$")]
        for g in ins:
            reg = region_of(bd, g)
            sw = [b for b, si, st in field_writes(bd, "state") if b.idx in reg]
            ctx.check(not sw, "%s:partial-keeps-state" % fn_, "a partial %s leaves the parser state alone" % fn_, bd.where(g.edge[1]))
    for fn_ in ("parse_sync1", "parse_sync2"):
        bd = prog.body("link::parser::Parser::" + fn_)
        for r in call_sites(bd, r"ReadCursor::read_u8$"):
            ctx.require_guards(bd, r.idx, [("!is_empty", g_bool(lambda x: mentions_call(x, r"ReadCursor::is_empty$"), False))], "%s:no-consume" % fn_, "read_u8")
    # parse_impl stops when no progress was made
    ib = prog.body("link::parser::Parser::parse_impl")
    for b, si, st, e in ret_sites(ib, ctx.sym(ib)):
        if e[0] == "agg" and e[2] == "Ok" and variant_name(agg_field(e, "0")) == "None":
            ctx.require_guards(ib, b.idx, [("start == end (no progress)", g_rel("Eq", lambda x: mentions_call(x, r"ReadCursor::remaining$"), lambda x: mentions_call(x, r"ReadCursor::remaining$")))], "impl:Ok(None)", "Ok(None)")


def r5(ctx):
    prog = ctx.prog
    fb = prog.body("link::function::Function::from")
    tb = prog.body("link::function::Function::to_u8")
    frm = {}
    for keys, e, blk in extract_table(ctx, fb):
        for k in keys:
            if k[0] == "int":
                frm[k[1]] = variant_of(e)
    to = {}
    for keys, e, blk in extract_table(ctx, tb, subject=lambda x: x == ("param", "self")):
        v = const_value(prog, e)
        for k in keys:
            if k[0] == "variant" and v is not None:
                to[k[1]] = v
    ref = {}
    for name, v in L["pri_functions"].items():
        ref[name] = v | L["PRM"]
    for name, v in L["sec_functions"].items():
        ref[name] = v
    for name, v in ref.items():
        ctx.check(to.get(name) == v, "Function::to_u8:%s" % name, "%s -> 0x%02X (standard 0x%02X)" % (name, to.get(name, -1), v), tb.where(line=tb.line))
        ctx.check(frm.get(v) == name, "Function::from:0x%02X" % v, "0x%02X -> %s" % (v, frm.get(v)), fb.where(line=fb.line))
    extra = set(to) - set(ref)
    ctx.check(not extra, "Function::to_u8:extra", "no variants beyond the standard's (%s)" % sorted(extra), tb.where(line=tb.line))
    # control field masks and their fields
    for name, key in (("MASK_DIR", "DIR"), ("MASK_PRM", "PRM"), ("MASK_FCB", "FCB"), ("MASK_FCV", "FCV"), ("MASK_FUNC", "FUNC_MASK")):
        v = prog.const("link::header::constants::" + name).get("v")
        ctx.check(v == L[key], "mask:%s" % name, "%s = %s" % (name, v))
    ctx.check(prog.const("link::header::constants::MASK_FUNC_OR_PRM").get("v") == (L["PRM"] | L["FUNC_MASK"]), "mask:FUNC_OR_PRM", "MASK_FUNC_OR_PRM = PRM|FUNC")
    cb = prog.body("link::header::ControlField::from")
    for b, si, st, e in ret_sites(cb, ctx.sym(cb)):
        if e[0] != "agg":
            continue
        for f, mask in (("master", "MASK_DIR"), ("fcb", "MASK_FCB"), ("fcv", "MASK_FCV")):
            fe = agg_field(e, f)
            ctx.check(fe is not None and mentions_constdef(fe, mask + "$") and mentions(fe, lambda s: s[0] == "bin" and s[1] == "BitAnd"), "ControlField::from:%s" % f, "%s <- byte & %s" % (f, mask), cb.where(b.idx))
        fe = agg_field(e, "func")
        ctx.check(fe is not None and mentions_call(fe, r"Function::from$") and mentions_constdef(fe, r"MASK_FUNC_OR_PRM$"), "ControlField::from:func", "func <- Function::from(byte & MASK_FUNC_OR_PRM)", cb.where(b.idx))
    ub = prog.body("link::header::ControlField::to_u8")
    us = ctx.sym(ub)
    seen = {}
    for b, si, st in ub.assigns():
        e = us.rvalue_expr(st.rv)
        if e[0] == "const" and isinstance(e[2], str) and "MASK_" in e[2]:
            gs = ctx.guards_at(ub, b.idx)
            for g in gs:
                if g.kind == "bool" and g.truth is True and g.a[0] == "field":
                    seen[g.a[2]] = e[2].split("::")[-1]
    for f, mask in (("master", "MASK_DIR"), ("fcb", "MASK_FCB"), ("fcv", "MASK_FCV")):
        ctx.check(seen.get(f) == mask, "ControlField::to_u8:%s" % f, "%s -> %s" % (f, seen.get(f)), ub.where(line=ub.line))
    ctx.check(bool(call_sites(ub, r"Function::to_u8$")), "ControlField::to_u8:func", "func.to_u8() is OR-ed in", ub.where(line=ub.line))
    # addresses
    A = L["addresses"]
    for name in ("SELF_ADDRESS", "BROADCAST_CONFIRM_NOT_REQUIRED", "BROADCAST_CONFIRM_MANDATORY", "BROADCAST_CONFIRM_OPTIONAL", "RESERVED_START"):
        v = prog.const("link::header::constants::" + name).get("v")
        ctx.check(v == A[name], "addr:%s" % name, "%s = 0x%04X" % (name, v or 0))
    ab = prog.body("link::header::AnyAddress::from")
    rows = extract_table(ctx, ab)
    got = {}
    for keys, e, blk in rows:
        for k in keys:
            if k[0] == "int":
                inner = agg_field(e, "0")
                got[k[1]] = (variant_of(e), variant_of(inner) if inner else None)
    ctx.check(got.get(A["SELF_ADDRESS"]) == ("SelfAddress", None), "AnyAddress::from:self", "0xFFFC -> %s" % (got.get(A["SELF_ADDRESS"]),), ab.where(line=ab.line))
    for nm, mode in (("BROADCAST_CONFIRM_OPTIONAL", "Optional"), ("BROADCAST_CONFIRM_MANDATORY", "Mandatory"), ("BROADCAST_CONFIRM_NOT_REQUIRED", "NotRequired")):
        ctx.check(got.get(A[nm]) == ("Broadcast", mode), "AnyAddress::from:%s" % mode, "0x%04X -> %s" % (A[nm], got.get(A[nm])), ab.where(line=ab.line))
    for keys, e, blk in rows:
        if variant_of(e) == "Reserved":
            ctx.require_guards(ab, blk, [("address >= RESERVED_START", g_rel("Ge", "address", lambda x: const_value(prog, x) == A["RESERVED_START"] or mentions_constdef(x, r"RESERVED_START$")))], "AnyAddress::from:Reserved", "Reserved(x)")
        if variant_of(e) == "Endpoint":
            ctx.require_guards(ab, blk, [("address < RESERVED_START", g_rel("Lt", "address", lambda x: const_value(prog, x) == A["RESERVED_START"] or mentions_constdef(x, r"RESERVED_START$")))], "AnyAddress::from:Endpoint", "Endpoint(x)")
            ctx.check(mentions(e, lambda s: s == ("param", "address")), "AnyAddress::from:Endpoint:value", "Endpoint carries the address itself", ab.where(blk))
    mb = prog.body("link::header::BroadcastConfirmMode::address")
    mt = {}
    for keys, e, blk in extract_table(ctx, mb, subject=lambda x: x == ("param", "self")):
        for k in keys:
            mt[k[1]] = const_value(prog, e)
    for nm, mode in (("BROADCAST_CONFIRM_OPTIONAL", "Optional"), ("BROADCAST_CONFIRM_MANDATORY", "Mandatory"), ("BROADCAST_CONFIRM_NOT_REQUIRED", "NotRequired")):
        ctx.check(mt.get(mode) == A[nm], "BroadcastConfirmMode::address:%s" % mode, "%s -> 0x%04X" % (mode, mt.get(mode) or 0), mb.where(line=mb.line))
    vb = prog.body("link::header::AnyAddress::value")
    vt = {}
    for keys, e, blk in extract_table(ctx, vb, subject=lambda x: x == ("param", "self")):
        for k in keys:
            vt[k[1]] = e
    ctx.check(const_value(prog, vt.get("SelfAddress", ("x",))) == A["SELF_ADDRESS"], "AnyAddress::value:self", "SelfAddress -> 0xFFFC", vb.where(line=vb.line))
    ctx.check(mentions_call(vt.get("Broadcast", ("x",)), r"BroadcastConfirmMode::address$"), "AnyAddress::value:broadcast", "Broadcast -> mode.address()", vb.where(line=vb.line))
    ctx.check(mentions(vt.get("Reserved", ("x",)), lambda s: s[0] == "variant" and s[2] == "Reserved"), "AnyAddress::value:reserved", "Reserved(x) -> x", vb.where(line=vb.line))
    ctx.check(mentions_call(vt.get("Endpoint", ("x",)), r"EndpointAddress::raw_value$"), "AnyAddress::value:endpoint", "Endpoint(x) -> x.raw_value()", vb.where(line=vb.line))


def r6(ctx):
    prog = ctx.prog
    bd = prog.body("link::format::format_frame")
    sym = ctx.sym(bd)
    # straight-line order of cursor writes
    writes = []
    for b in sorted(bd.calls(), key=lambda b: b.idx):
        m = re.search(r"WriteCursor::(write_u8|write_u16_le|write_bytes)$", b.term.callee or "")
        if m:
            writes.append((b, m.group(1), sym.call_expr(b.term)))
    kinds = [k for _, k, _ in writes]
    ctx.check(kinds[:7] == ["write_u8", "write_u8", "write_u8", "write_u8", "write_u16_le", "write_u16_le", "write_u16_le"], "format:widths", "05 64 len ctrl dst(2) src(2) crc(2): %s" % kinds[:7], bd.where(line=bd.line))
    if len(writes) >= 7:
        vals = [w[2][2][1] for w in writes[:7]]
        ctx.check(const_value(prog, vals[0]) == 0x05 and const_value(prog, vals[1]) == 0x64, "format:start-bytes", "start bytes 05 64", bd.where(writes[0][0].idx))
        ctx.check(mentions_name(vals[2], "length") or vals[2][0] == "var", "format:length", "third byte is the length", bd.where(writes[2][0].idx))
        ctx.check(mentions_call(vals[3], r"ControlField::to_u8$") and mentions_field(vals[3], "control"), "format:control", "control byte", bd.where(writes[3][0].idx))
        ctx.check(mentions_field(vals[4], "destination") and not mentions_field(vals[4], "source"), "format:destination-first", "destination precedes source: %s" % expr_str(vals[4]), bd.where(writes[4][0].idx), bad_detail="the first address written is %s" % expr_str(vals[4]))
        ctx.check(mentions_field(vals[5], "source") and not mentions_field(vals[5], "destination"), "format:source-second", "source follows: %s" % expr_str(vals[5]), bd.where(writes[5][0].idx))
        ctx.check(mentions_call(vals[6], r"crc::calc_crc_with_0564$") and mentions_call(vals[6], r"WriteCursor::written_since$"), "format:header-crc", "header CRC = calc_crc_with_0564(written_since(header_start))", bd.where(writes[6][0].idx))
    # length byte
    ll = bd.local_by_name("length")
    defs = [x for l in ll for blk, si in bd.defs.get(l, []) for x in resolve_defs(bd, sym, sym.def_expr(blk, si), depth=3)]
    ok = any(const_value(prog, e) == 5 or mentions_constdef(e, r"MIN_HEADER_LENGTH_VALUE$") for e in defs) and any(mentions_field(e, "app_data") and mentions_constdef(e, r"MIN_HEADER_LENGTH_VALUE$") for e in defs)
    ctx.check(ok, "format:length-values", "length = 5 (header only) or app_data.len() + 5 + 1", bd.where(line=bd.line))
    for g in ctx.gi(bd).all_guards():
        if g.kind == "rel" and g.op == "Gt" and mentions_field(g.a, "app_data"):
            ctx.check(mentions_constdef(g.b, r"MAX_APP_BYTES_PER_FRAME$") or const_value(prog, g.b) == 249, "format:max-payload", "payload larger than 249 bytes is refused", bd.where(g.edge[0]))
    # payload blocks
    pb = [b for b in prog.children(bd)] + [b for b in prog.bodies.values() if b.path.endswith("format_frame::format_payload")]
    fp = [b for b in prog.bodies.values() if b.path.endswith("format_frame::format_payload")]
    if len(fp) != 1:
        raise AnchorError("format_payload")
    fp = fp[0]
    fs = ctx.sym(fp)
    crcs = [b for b in call_sites(fp, r"WriteCursor::write_u16_le$") if mentions_call(fs.call_expr(b.term), r"crc::calc_crc$")]
    for ch in family(prog, fp)[1:]:  # the remaining-blocks loop written as chunks(..).try_for_each(|block| ..)
        crcs += [b for b in call_sites(ch, r"WriteCursor::write_u16_le$") if mentions_call(ctx.sym(ch).call_expr(b.term), r"crc::calc_crc$")]
    ctx.check(len(crcs) == 2, "format:block-crcs", "first block and every following block end with calc_crc", fp.where(line=fp.line))
    sp = call_sites(fp, r"np_split_at_no_error$")
    ok = len(sp) == 1 and (mentions(fs.call_expr(sp[0].term)[2][1], lambda s: s[0] == "const" and s[1] == 15) or (mentions_constdef(fs.call_expr(sp[0].term)[2][1], r"MAX_BLOCK_SIZE$") and mentions_const(fs.call_expr(sp[0].term)[2][1], 1)))
    ctx.check(ok, "format:first-block-15", "the first block holds the transport byte + 15 bytes", fp.where(sp[0].idx) if sp else "")
    ch = [c for c in fp.calls() if re.search(r"chunks$", c.term.callee or "")]
    ok = len(ch) == 1 and (const_value(prog, fs.call_expr(ch[0].term)[2][1]) == 16 or mentions_constdef(fs.call_expr(ch[0].term)[2][1], r"MAX_BLOCK_SIZE$"))
    ctx.check(ok, "format:chunks(16)", "remaining data in 16-byte blocks", fp.where(ch[0].idx) if ch else "")
    # fixed-size header formatter: same layout
    hb = prog.body("link::format::format_header_fixed_size")
    hs = ctx.sym(hb)
    idx = {}
    for b, si, st in hb.assigns():
        if st.dest.proj and st.dest.proj[-1].startswith("[#"):
            i = int(st.dest.proj[-1][2:-1])
            idx[i] = hs.rvalue_expr(st.rv)
        elif st.dest.proj and st.dest.proj[-1].startswith("[_"):
            pass
    # constant indices appear as `[_n]` with n a const local; resolve through Index lowering
    if not idx:
        for b, si, st in hb.assigns():
            if st.dest.proj and st.dest.proj[-1].startswith("[_"):
                l = int(st.dest.proj[-1][2:-1])
                ie = hs.local_expr(l)
                if ie[0] == "const" and isinstance(ie[1], int):
                    idx[ie[1]] = hs.rvalue_expr(st.rv)
    ok = len(idx) == 10 and const_value(prog, idx.get(0, ("x",))) == 5 and const_value(prog, idx.get(1, ("x",))) == 0x64 and const_value(prog, idx.get(2, ("x",))) == 5
    ctx.check(ok, "fixed-header:start+len", "buffer[0..3] = 05 64 05 (%d indices)" % len(idx), hb.where(line=hb.line))
    if len(idx) == 10:
        ctx.check(mentions_call(idx[3], r"ControlField::to_u8$"), "fixed-header:control", "buffer[3] = control", hb.where(line=hb.line))
        ctx.check(mentions_field(idx[4], "destination") and mentions_field(idx[5], "destination"), "fixed-header:destination", "buffer[4..6] = destination", hb.where(line=hb.line))
        ctx.check(mentions_field(idx[6], "source") and mentions_field(idx[7], "source"), "fixed-header:source", "buffer[6..8] = source", hb.where(line=hb.line))
        ctx.check(mentions_call(idx[8], r"crc::calc_crc$") and mentions_call(idx[9], r"crc::calc_crc$"), "fixed-header:crc", "buffer[8..10] = calc_crc(buffer[0..8])", hb.where(line=hb.line))


def r7(ctx):
    prog = ctx.prog
    bd = prog.body("link::parser::Parser::parse")
    sym = ctx.sym(bd)
    direct = [b for b in call_sites(bd, r"Parser::parse_impl$")]
    if not direct:
        raise AnchorError("parse: parse_impl")
    for b in direct:
        ctx.require_guards(bd, b.idx, [("mode == Close", g_rel("Eq", "mode", lambda x: mentions(x, lambda s: s[0] == "agg" and s[2] == "Close")))], "close-mode:direct", "un-transacted parse_impl")
    tx = call_sites(bd, r"ReadCursor::transaction$")
    ctx.check(len(tx) == 1, "discard-mode:transaction", "discard mode parses inside a cursor transaction", bd.where(tx[0].idx) if tx else "")
    for t in tx:
        ctx.require_guards(bd, t.idx, [("mode != Close", g_not_variant("mode", "Close"))], "discard-mode:guard", "transaction")
    errarm = arm_edges(ctx, bd, g_is(lambda x: mentions_call(x, r"ReadCursor::transaction$"), "Err"))
    if len(errarm) != 1:
        raise AnchorError("parse: Err arm")
    region = region_of(bd, errarm[0])
    skip = [b for b in call_sites(bd, r"ReadCursor::read_u8$") if b.idx in region]
    rst = [b for b in call_sites(bd, r"Parser::reset$") if b.idx in region]
    ctx.check(len(skip) == 1 and len(rst) == 1, "discard-mode:skip-and-reset", "the error arm skips one byte and resets the parser", bd.where(errarm[0].edge[1]))
    # the byte skipped is the first byte of the frame that failed - which is at the rollback position only when this call STARTED the
    # frame (state FindSync1 sampled before the transaction). A frame resumed from an earlier read had its leading bytes consumed then:
    # the byte at the rollback position was never examined as a frame start and may be the 0x05 of a valid frame (F14)
    for sk in skip:
        gs_ = [g for g in ctx.guards_at(bd, sk.idx) if g.kind == "is" and g.name == "FindSync1" and g.a[0] == "field" and g.a[2] == "state"]
        ok_ = bool(gs_) and all(bd.block_dominates(g.edge[0], t.idx) for g in gs_ for t in tx)
        ctx.check(ok_, "discard-mode:skip-only-unresumed", "the one-byte skip happens only when the failed frame began in this call (state was FindSync1 before the transaction)", bd.where(sk.idx), bad_detail="discard mode skips one byte after EVERY failed parse, also when the failed frame was resumed from a previous read: the first byte of this read (possibly the start of a valid frame) is thrown away unexamined")
    for r_ in rst:
        ctx.check(all(not bd.can_reach(errarm[0].edge[1], t.idx, removed_blocks={r_.idx}) for t in tx), "discard-mode:reset-on-every-retry", "every retry after an error starts from FindSync1", bd.where(r_.idx))
    rets = [b for b, si, st, e in ret_sites(bd, sym) if b.idx in region]
    ctx.check(not rets, "discard-mode:no-error-return", "no error escapes Parser::parse in discard mode", bd.where(errarm[0].edge[1]), bad_detail="the Err arm of discard mode returns")
    # and loops back: the arm reaches the loop head
    ctx.check(any(bd.can_reach(errarm[0].edge[1], t.idx) for t in tx), "discard-mode:loops", "after skipping, parsing is retried", bd.where(errarm[0].edge[1]))
    rb = prog.body("link::parser::Parser::reset")
    ws = _state_writes(rb, ctx.sym(rb), "FindSync1")
    ctx.check(len(ws) == 1, "Parser::reset", "Parser::reset returns to FindSync1", rb.where(line=rb.line))


def r8(ctx):
    prog = ctx.prog
    bd = prog.abody("link::reader::Reader::read_frame")
    dg = arm_edges(ctx, bd, g_rel("Eq", "read_mode", lambda x: mentions(x, lambda s: s[0] == "agg" and s[2] == "Datagram")))
    if len(dg) != 1:
        raise AnchorError("read_frame: datagram test")
    ctx.require_guards(bd, dg[0].edge[0], [("parse_buffer(..)? is None", g_is(lambda x: mentions_call(x, r"Reader::parse_buffer$"), "None"))], "datagram:partial-arm", "the datagram test")
    region = region_of(bd, dg[0])
    br = [b for b in call_sites(bd, r"ReadBuffer::reset$") if b.idx in region]
    pr = [b for b in call_sites(bd, r"Parser::reset$") if b.idx in region]
    ctx.check(bool(br), "datagram:buffer-reset", "a partial datagram resets the read buffer", bd.where(dg[0].edge[1]), bad_detail="datagram mode keeps the partial frame's bytes: a frame can be stitched from two datagrams")
    ctx.check(bool(pr), "datagram:parser-reset", "a partial datagram resets the parser", bd.where(dg[0].edge[1]), bad_detail="datagram mode keeps the parser state: a frame can be stitched from two datagrams")
    rm = [b for b in call_sites(bd, r"Reader::read_more_data$")]
    after = [b for b in rm if any(g.kind == "is" and g.name == "None" and mentions_call(g.a, r"parse_buffer$") for g in ctx.guards_at(bd, b.idx))]
    for b in after:
        ok = all(not bd.can_reach(dg[0].edge[1], b.idx, removed_blocks={x.idx}) for x in (br[:1] + pr[:1])) if br and pr else False
        ctx.check(ok, "datagram:reset-before-read", "both resets precede the next read on the datagram path", bd.where(b.idx))
    # parse_buffer: consumed bytes are exactly the cursor position
    pb = prog.body("link::reader::Reader::parse_buffer")
    for b in call_sites(pb, r"ReadBuffer::advance_read$"):
        e = ctx.sym(pb).call_expr(b.term)
        ctx.check(mentions_call(e[2][1], r"ReadCursor::position$"), "parse_buffer:consumed", "advance_read(cursor.position())", pb.where(b.idx))
    for b in call_sites(pb, r"Parser::parse$"):
        e = ctx.sym(pb).call_expr(b.term)
        ctx.check(mentions_call(e[2][1], r"ReadBuffer::readable$"), "parse_buffer:readable", "the parser sees the unread bytes only", pb.where(b.idx))


def _order(body, a, b):
    """(block, stmt) site a strictly precedes site b on every path (same block: earlier statement; else block dominance)."""
    (ba, sa), (bb, sb) = a, b
    if ba == bb:
        return sa < sb
    return body.block_dominates(ba, bb)


def r9(ctx):
    """The receive buffer's two indices: every ReadBuffer method does what its name says with begin / end, and compaction
    (shift_unread_bytes) moves the unread bytes to the front and THEN rebases end by the OLD begin. A frame that straddles
    the end of the buffer survives only if these three steps happen in this order."""
    prog = ctx.prog
    P = "link::reader::ReadBuffer::"
    sh = prog.body(P + "shift_unread_bytes")
    sym = ctx.sym(sh)
    cw = call_sites(sh, r"copy_within$")
    if len(cw) != 1:
        raise AnchorError("shift_unread_bytes: copy_within")
    e = sym.call_expr(cw[0].term)
    ctx.check(mentions_field(e[2][1], "begin") and mentions_field(e[2][1], "end") and const_value(prog, e[2][2]) == 0, "shift:copy", "copy_within(begin..end, 0): %s" % expr_str(e)[:80], sh.where(cw[0].idx))
    wr = {}
    for b, si, st in sh.assigns():
        if st.dest.proj and st.dest.proj[-1] in (".begin", ".end"):
            wr.setdefault(st.dest.proj[-1], []).append((b.idx, si, sym.rvalue_expr(st.rv)))
    ok_shape = len(wr.get(".begin", [])) == 1 and len(wr.get(".end", [])) == 1
    ctx.check(ok_shape, "shift:writes", "begin and end are each written once", sh.where(line=sh.line))
    if ok_shape:
        bb_, bs_, be_ = wr[".begin"][0]
        eb_, es_, ee_ = wr[".end"][0]
        ctx.check(const_value(prog, be_) == 0, "shift:begin=0", "begin := 0", sh.where(bb_))
        sub = [x for x in expr_walk(ee_) if x[0] == "bin" and x[1] in ("Sub", "SubWithOverflow")]
        ctx.check(bool(sub) and any(mentions_field(x[2], "end") and mentions_field(x[3], "begin") for x in sub), "shift:end=end-begin", "end := end - begin (%s)" % expr_str(ee_)[:60], sh.where(eb_))
        # the subtraction reads begin BEFORE it is zeroed, and both updates follow the copy
        reads = [(b.idx, si) for b, si, st in sh.assigns() if st.rv.get("k") in ("bin", "checked") and mentions_field(sym.rvalue_expr(st.rv), "begin")]
        reads = reads or [(eb_, es_)]
        ctx.check(all(_order(sh, r_, (bb_, bs_)) for r_ in reads), "shift:rebases-before-zeroing", "end is rebased by the old begin before begin is zeroed", sh.where(bb_), bad_detail="shift_unread_bytes zeroes `begin` before `end -= begin` reads it: end keeps its old value, the buffer still looks full and the next read is handed an empty slice (frames straddling the end of the receive buffer are lost)")
        ctx.check(sh.block_dominates(cw[0].idx, bb_) and sh.block_dominates(cw[0].idx, eb_) and cw[0].idx not in (bb_, eb_) or sh.block_dominates(cw[0].idx, bb_), "shift:copy-first", "the bytes are moved before the indices change", sh.where(cw[0].idx))
    # the one-liners
    def only_write(fn_, field, pred, what):
        bd = prog.body(P + fn_)
        s_ = ctx.sym(bd)
        ws = [(b, s_.rvalue_expr(st.rv)) for b, si, st in bd.assigns() if st.dest.proj and st.dest.proj[-1] in (".begin", ".end")]
        flds = [st.dest.proj[-1] for b, si, st in bd.assigns() if st.dest.proj and st.dest.proj[-1] in (".begin", ".end")]
        ctx.check(flds == ["." + field] and pred(ws[0][1]), "%s" % fn_, what + " (%s)" % [expr_str(x)[:40] for _, x in ws], bd.where(line=bd.line))
    add = lambda f: (lambda e: any(x[0] == "bin" and x[1] in ("Add", "AddWithOverflow") and mentions_field(x, f) and mentions_name(x, "count") for x in expr_walk(e)))
    only_write("advance_write", "end", add("end"), "advance_write: end += count")
    only_write("advance_read", "begin", add("begin"), "advance_read: begin += count")
    for fn_, want in (("readable", ("begin", "end")), ("writable", ("end",))):
        bd = prog.body(P + fn_)
        s_ = ctx.sym(bd)
        txt = " ".join(expr_str(s_.call_expr(b.term)) for b in bd.calls()) + " ".join(expr_str(e) for _, _, _, e in ret_sites(bd, s_))
        ctx.check(all(("self." + w) in txt for w in want) and (fn_ != "writable" or "self.begin" not in txt), "%s" % fn_, "%s() is buffer[%s]" % (fn_, "..".join(want)), bd.where(line=bd.line), bad_detail="%s() = %s" % (fn_, txt[:120]))
    ib = prog.body(P + "is_full")
    gi_txt = " ".join(expr_str(e) for _, _, _, e in ret_sites(ib, ctx.sym(ib)))
    ctx.check("Eq(self.end" in gi_txt and "len" in gi_txt, "is_full", "is_full: end == buffer.len() (%s)" % gi_txt[:60], ib.where(line=ib.line))
    nb = prog.body(P + "num_bytes_unread")
    t = " ".join(expr_str(e) for _, _, _, e in ret_sites(nb, ctx.sym(nb)))
    ctx.check(re.search(r"Sub\w*\(self\.end, self\.begin\)", t) is not None, "num_bytes_unread", "num_bytes_unread: end - begin (%s)" % t[:60], nb.where(line=nb.line))
    # the buffer is sized in whole maximum-length link frames (292 bytes each, not 250-byte payloads), one per transport segment of
    # the largest fragment, plus one byte: otherwise a maximum-size frame never fits and is never delivered
    sz = prog.body("link::reader::read_buffer_size")
    zs = ctx.sym(sz)
    muls = [zs.rvalue_expr(st.rv) for b, si, st in sz.assigns() if st.rv["k"] in ("bin", "checked") and st.rv.get("op", "").startswith("Mul")]
    ctx.check(len(muls) == 1 and mentions_call(muls[0], r"num_link_frames$") and (mentions_constdef(muls[0], r"MAX_LINK_FRAME_LENGTH$") or mentions_const(muls[0], 292)), "read_buffer_size:frames*292", "read buffer = num_link_frames(fragment) * MAX_LINK_FRAME_LENGTH (%s)" % [expr_str(m)[:60] for m in muls], sz.where(line=sz.line), bad_detail="the receive buffer is sized as %s: not a whole number of maximum-length (292-byte) link frames" % [expr_str(m)[:80] for m in muls])
    nf = prog.body("link::reader::num_link_frames")
    ns = ctx.sym(nf)
    divs = [ns.rvalue_expr(st.rv) for b, si, st in nf.assigns() if st.rv["k"] in ("bin", "checked") and st.rv.get("op") in ("Div", "Rem")]
    ctx.check(len(divs) >= 2 and all(mentions_constdef(d, r"MAX_APP_BYTES_PER_FRAME$") or mentions_const(d, 249) for d in divs), "num_link_frames:per-249", "one link frame per 249 application bytes (%s)" % [expr_str(d)[:40] for d in divs], nf.where(line=nf.line))
    c1 = prog.const("link::constant::MAX_LINK_FRAME_LENGTH")
    c2 = prog.const("link::constant::MAX_APP_BYTES_PER_FRAME")
    ctx.check(c1.get("v") == 292 and c2.get("v") == 249, "link-frame-constants", "MAX_LINK_FRAME_LENGTH = %s, MAX_APP_BYTES_PER_FRAME = %s" % (c1.get("v"), c2.get("v")))
    # read_more_data: compaction only when full; what was read is appended
    rm = prog.abody("link::reader::Reader::read_more_data")
    rs = ctx.sym(rm)
    for c in call_sites(rm, r"ReadBuffer::shift_unread_bytes$"):
        ctx.require_guards(rm, c.idx, [("buffer.is_full()", g_bool(lambda x: mentions_call(x, r"ReadBuffer::is_full$"), True))], "read_more_data:shift-when-full", "compaction")
    # ... and always when full: on the is_full() edge every path to the physical read passes the compaction (a full buffer whose bytes
    # were all consumed mid-frame - it ends right after 05, 05 64 or a header - must be rewound too, or the read gets an empty slice)
    full = [g for g in ctx.gi(rm).all_guards() if g_bool(lambda x: mentions_call(x, r"ReadBuffer::is_full$"), True)(g) and g.edge]
    shifts = {c.idx for c in call_sites(rm, r"ReadBuffer::shift_unread_bytes$")}
    rd0 = call_sites(rm, r"PhysLayer::read$")
    ctx.check(bool(full) and bool(shifts) and bool(rd0) and all(must_pass(rm, g.edge[1], r_.idx, shifts) for g in full for r_ in rd0), "read_more_data:always-shift-when-full", "a full buffer is always compacted before the next read", rm.where(line=rm.line), bad_detail="a full receive buffer can reach the physical read without compaction: writable() is empty, the read returns 0 bytes (UnexpectedEof) and the frame in progress is lost")
    aw = call_sites(rm, r"ReadBuffer::advance_write$")
    ctx.check(len(aw) == 1 and mentions_call(rs.call_expr(aw[0].term)[2][1], r"PhysLayer::read$"), "read_more_data:advance-by-count", "advance_write(count returned by the read)", rm.where(aw[0].idx) if aw else rm.where(line=rm.line))
    rd = call_sites(rm, r"PhysLayer::read$")
    ctx.check(len(rd) == 1 and mentions_call(rs.call_expr(rd[0].term)[2][1], r"ReadBuffer::writable$"), "read_more_data:into-writable", "the physical layer reads into writable()", rm.where(rd[0].idx) if rd else rm.where(line=rm.line))


RULES = [
    ("C06.R1", "T11", "CRC table / seed / link constants equal the standard and each other", r1),
    ("C06.R2", "T2/T8", "sync and header acceptance tests guard the state transitions", r2),
    ("C06.R3", "T2/T8", "every block is pushed only after its own CRC test; Ok(Some) after the whole body", r3),
    ("C06.R4", "T2", "partial input consumes nothing", r4),
    ("C06.R5", "T4", "function / control / address tables: inverse of their sibling and equal to the standard", r5),
    ("C06.R6", "T6", "the formatter's field order and CRC helpers are the parser's", r6),
    ("C06.R7", "T2/T3", "discard mode skips one byte and resets; close mode propagates", r7),
    ("C06.R8", "T3", "datagram mode never stitches a frame across datagrams", r8),
    ("C06.R9", "T8/T3", "receive buffer index discipline: compaction order, advance, readable/writable windows", r9),
]
