"""C05 — a retransmitted request is answered from memory and never executed twice."""
from engine import *
from mir import *

EXPLANATION = (
    "In every dispatcher over FragmentType the RepeatNonRead arm reaches no request handler or application callback (positive control: "
    "the same query matches the NewNonRead arm); Repeat* is constructed only under seq equality AND digest equality with the stored "
    "request, the digest being xxh64 of the raw fragment; the echoed response is the stored one; after a body formatter rewrites the "
    "solicited tx buffer every path to the next wait passes an update of last_valid_request; repeat_* only rewrite the header."
)
ASSUMPTIONS = [
    "byte-for-byte equality of the echo is not decided (follows from R4+R5 only under the tx-buffer ownership census); digest collisions are not considered",
    "cancellation at await points is not modelled",
]
TRUSTED = ["rustc nightly MIR + Instance::try_resolve", "facts driver", "rules/mir.py dominance + symbolic expressions"]

HANDLERS = (
    r"OutstationSession::(handle_non_read|handle_controls|handle_write\w*|handle_freeze\w*|handle_restart|handle_delay_measure|handle_record_current_time|"
    r"handle_select|handle_operate|handle_direct_operate\w*|handle_enable_or_disable_unsolicited|handle_single_write_header|process_broadcast\w*|format_\w+)$"
    r"|OutstationApplication|ControlHandler|ControlSupport|ControlTransaction|DatabaseHandle::(select|write_\w+|transaction)$"
)
DISPATCHERS = ["OutstationSession::process_request_from_idle", "OutstationSession::wait_for_unsolicited_confirm", "OutstationSession::expect_sol_confirm"]


def classify_is(name):
    return g_is(lambda x: mentions_call(x, r"OutstationSession::classify$"), name)


def session_bodies(prog):
    return [b for b in prog.bodies.values() if b.path.startswith("dnp3::outstation::session::") and "::tests::" not in b.path]


def r1(ctx):
    prog = ctx.prog
    for d in DISPATCHERS:
        body = prog.abody(d)
        arms = arm_edges(ctx, body, classify_is("RepeatNonRead"))
        if len(arms) != 1:
            raise AnchorError("%s: expected one RepeatNonRead arm, found %d" % (d, len(arms)))
        region = region_of(body, arms[0])
        hits = calls_in_blocks(prog, body, region, HANDLERS)
        ctx.check(not hits, "no-handler-in-RepeatNonRead@%s" % d.split("::")[-1], "RepeatNonRead arm (%d blocks) reaches no handler" % len(region), body.where(arms[0].edge[1]), bad_detail="RepeatNonRead arm calls %s" % ", ".join(sorted({short(c) for _, _, c in hits})))
        # positive control
        new = arm_edges(ctx, body, classify_is("NewNonRead"))
        if d != "OutstationSession::expect_sol_confirm":
            ok = bool(new) and bool(calls_in_blocks(prog, body, region_of(body, new[0]), HANDLERS))
            ctx.check(ok, "control:handler-in-NewNonRead@%s" % d.split("::")[-1], "positive control: the handler query matches the NewNonRead arm", body.where(new[0].edge[1]) if new else "")


def r2(ctx):
    prog = ctx.prog
    body = prog.body("OutstationSession::classify")
    sym = ctx.sym(body)
    n = 0
    lvr = lambda x: mentions_field(x, "last_valid_request")
    for var in ("RepeatRead", "RepeatNonRead"):
        for b, si, st in agg_sites(body, r"session::FragmentType$", var):
            n += 1
            ctx.require_guards(
                body,
                b.idx,
                [
                    ("last_valid_request is Some", g_is(lvr, "Some")),
                    ("Eq(last.seq, request.header.control.seq)", g_rel("Eq", lambda x: lvr(x) and mentions_field(x, "seq"), lambda x: mentions_name(x, "request") and mentions_field(x, "seq") and not lvr(x))),
                    ("Eq(last.request_hash, xxh64(request.raw_fragment))", g_rel("Eq", lambda x: lvr(x) and mentions_field(x, "request_hash"), lambda x: mentions_call(x, r"xxh64::xxh64$") and mentions_field(x, "raw_fragment"))),
                    ("function is not Confirm", g_rel("Ne", "function", lambda x: mentions(x, lambda s: s[0] == "agg" and s[2] == "Confirm"))),
                    ("not a broadcast", g_is("broadcast", "None")),
                ],
                "classify:%s" % var,
                "construction of FragmentType::%s" % var,
            )
            # R3: echoed response derives from the stored one; hash from the raw fragment
            e = sym.rvalue_expr(st.rv)
            resp = agg_field(e, "1")
            ctx.check(resp is not None and lvr(resp) and mentions_field(resp, "response"), "classify:%s:response-src" % var, "echoed response = %s" % expr_str(resp), body.where(b.idx))
    if n != 2:
        raise AnchorError("expected constructions of RepeatRead and RepeatNonRead in classify, found %d" % n)
    # Read vs non-read split
    for b, si, st in agg_sites(body, r"session::FragmentType$", "RepeatRead"):
        ctx.require_guards(body, b.idx, [("function == Read", g_rel("Eq", "function", lambda x: mentions(x, lambda s: s[0] == "agg" and s[2] == "Read")))], "classify:RepeatRead", "RepeatRead")
    for b, si, st in agg_sites(body, r"session::FragmentType$", "RepeatNonRead"):
        ctx.require_guards(body, b.idx, [("function != Read", g_rel("Ne", "function", lambda x: mentions(x, lambda s: s[0] == "agg" and s[2] == "Read")))], "classify:RepeatNonRead", "RepeatNonRead")


def r3(ctx):
    prog = ctx.prog
    # what the dispatchers do with the payload of Repeat*: echo exactly it
    for d, var, idx in (("OutstationSession::wait_for_unsolicited_confirm", "RepeatNonRead", "1"), ("OutstationSession::process_request_from_idle", "RepeatNonRead", "1"), ("OutstationSession::expect_sol_confirm", "RepeatRead", "1")):
        body = prog.abody(d)
        sym = ctx.sym(body)
        arms = arm_edges(ctx, body, classify_is(var))
        if len(arms) != 1:
            raise AnchorError("%s: no %s arm" % (d, var))
        region = region_of(body, arms[0])
        payload = lambda x: mentions(x, lambda s: s[0] == "variant" and s[2] == var)
        found = 0
        for bi in sorted(region):
            blk = body.blocks[bi]
            t = blk.term
            if t.kind == "call" and re.search(r"OutstationSession::repeat_solicited$|LastValidRequest::new$", t.callee or ""):
                e = sym.call_expr(t)
                arg = e[2][4] if t.callee.endswith("repeat_solicited") else e[2][2]
                found += 1
                ctx.check(payload(arg), "echo-src@%s" % d.split("::")[-1], "echoed/stored response = %s" % expr_str(arg), body.where(bi))
            for st in blk.stmts:
                if st.kind == "assign" and st.rv["k"] == "agg" and st.rv.get("var") == "EchoLastResponse":
                    e = sym.rvalue_expr(st.rv)
                    found += 1
                    ctx.check(payload(agg_field(e, "1")), "echo-src@%s" % d.split("::")[-1], "EchoLastResponse(.., %s)" % expr_str(agg_field(e, "1")), body.where(bi))
        if not found:
            ctx.bad("echo-src-missing@%s" % d.split("::")[-1], "no echo of the stored response found in the %s arm" % var, body.where(arms[0].edge[1]))
    # wait_for_sol_confirm echoes what expect_sol_confirm returned
    body = prog.abody("OutstationSession::wait_for_sol_confirm")
    sym = ctx.sym(body)
    for b in call_sites(body, r"OutstationSession::repeat_solicited$"):
        e = sym.call_expr(b.term)
        ctx.check(mentions(e[2][4], lambda s: s[0] == "variant" and s[2] == "EchoLastResponse"), "echo-src@wait_for_sol_confirm", "repeat_solicited(response = %s)" % expr_str(e[2][4]), body.where(b.idx))


FORMATTERS = r"OutstationSession::(format_read_response|format_first_read_response|handle_non_read|process_request_from_idle)$"
WAITS = r"OutstationSession::(sol_confirm_wait|wait_for_sol_confirm|read_until)$"
TOP = ["OutstationSession::handle_one_request_from_idle", "OutstationSession::handle_deferred_read", "OutstationSession::wait_for_unsolicited_confirm", "OutstationSession::sol_confirm_wait"]


def r4(ctx):
    """Echo freshness: formatter -> (next wait | return) must pass a last_valid_request update."""
    prog = ctx.prog
    for d in TOP:
        body = prog.abody(d)
        name = d.split("::")[-1]
        updates = {b.idx for b, si, st in dest_writes(ctx, body, "last_valid_request")}
        fmts = call_sites(body, FORMATTERS)
        if not fmts:
            raise AnchorError("%s: no formatter call" % d)
        waits = [b.idx for b in call_sites(body, WAITS)]
        targets = waits + return_blocks(body)
        errs = error_exit_blocks(body)  # a link error ends the session (state.reset() drops the stored request)
        for f in fmts:
            # paths on which the formatter produced nothing to remember are exempt
            gi = ctx.gi(body)
            exempt = set()
            fe = ctx.sym(body).call_expr(f.term)
            for g in gi.all_guards():
                # process_request_from_idle() == None means "nothing to remember" (broadcast / confirm). A handler that
                # merely produced no *response* (no-ack function codes) must still be remembered, so it is not exempt.
                if f.term.callee.endswith("process_request_from_idle") and g.kind == "is" and g.name == "None" and g.a is not None and mentions(g.a, lambda s: s == fe or (s[0] == "await" and s[1] == fe)):
                    exempt |= body.region_of_edge(g.edge)
                # nothing is stored, so nothing stale can be echoed (classify requires `last is Some`)
                if g.kind == "is" and g.name == "None" and g.a is not None and g.a[0] == "field" and g.a[2] == "last_valid_request":
                    exempt |= body.region_of_edge(g.edge)
            start = f.term.d["t"]
            bad = [t for t in targets if t != f.idx and body.can_reach(start, t, removed_blocks=updates | exempt | errs)]
            key = "fresh-echo@%s:%s" % (name, short(f.term.callee).split("::")[-1])
            ctx.check(not bad, key, "after %s every path to the next wait/return updates last_valid_request" % short(f.term.callee), body.where(f.idx), bad_detail="after %s (tx buffer body rewritten) a path reaches %s without updating state.last_valid_request: a retransmitted request would be echoed with the stored header over the new body" % (short(f.term.callee), ", ".join(body.where(t) for t in bad[:3])))


def r5(ctx):
    prog = ctx.prog
    for fn_, buf in (("OutstationSession::repeat_solicited", "sol_tx_buffer"), ("OutstationSession::repeat_unsolicited", "unsol_tx_buffer")):
        body = prog.abody(fn_)
        sym = ctx.sym(body)
        name = fn_.split("::")[-1]
        hits = calls_in_blocks(prog, body, body.live_blocks(), r"write_response_headers|write_unsolicited|format_|WriteCursor.*::write_|DatabaseHandle")
        ctx.check(not hits, "%s:no-body-write" % name, "%s writes no body bytes" % name, body.where(line=body.line), bad_detail="%s calls %s" % (name, [short(c) for _, _, c in hits]))
        ws = call_sites(body, r"TransportWriter::write$")
        if len(ws) != 1:
            raise AnchorError("%s: expected one TransportWriter::write" % fn_)
        e = sym.call_expr(ws[0].term)
        frag = e[2][4]
        ctx.check(mentions_field(frag, buf) and mentions_call(frag, r"Buffer::get$"), "%s:slice-src" % name, "transmitted slice = %s" % expr_str(frag)[:200], body.where(ws[0].idx))
        ctx.check(mentions_field(frag, "size") and mentions_call(frag, r"cmp::max$"), "%s:len" % name, "length = max(header, response.size)", body.where(ws[0].idx))
        hw = call_sites(body, r"ResponseHeader::write$")
        ctx.check(len(hw) == 1 and mentions_field(sym.call_expr(hw[0].term)[2][1], buf), "%s:header-into-same-buffer" % name, "header written through a cursor over %s" % buf, body.where(hw[0].idx) if hw else "")
    # unsolicited retry re-sends the response returned by write_unsolicited and never reformats
    body = prog.abody("OutstationSession::perform_unsolicited_response_series")
    sym = ctx.sym(body)
    hits = calls_in_blocks(prog, body, body.live_blocks(), r"write_unsolicited_data$|DatabaseHandle::write_unsolicited$|write_events")
    ctx.check(not hits, "unsol-series:no-reformat", "no reformat inside the unsolicited series", body.where(line=body.line), bad_detail="series calls %s" % [short(c) for _, _, c in hits])
    reps = call_sites(body, r"OutstationSession::repeat_unsolicited$")
    if not reps:
        raise AnchorError("no repeat_unsolicited in perform_unsolicited_response_series")
    for b in reps:
        e = sym.call_expr(b.term)
        ctx.check(mentions_call(e[2][3], r"OutstationSession::write_unsolicited$"), "unsol-retry:same-response", "retry re-sends %s" % expr_str(e[2][3])[:160], body.where(b.idx))


def r6(ctx):
    """What is remembered is what was transmitted, for the request in hand."""
    prog = ctx.prog
    for d in TOP:
        body = prog.abody(d)
        sym = ctx.sym(body)
        name = d.split("::")[-1]
        ws = call_sites(body, r"OutstationSession::write_solicited$")
        stores = []  # (expr of the stored value, dest expr)
        for b, si, st in body.assigns():
            if is_tracing(st.macros) or any(m.startswith("desugar") for m in (st.macros or ())):
                continue
            named = body.local_name(st.dest.local) == "response"  # (`result` is also the binding of the .await desugaring: not an anchor)
            if not st.dest.proj and not named:
                continue
            de = sym.place_expr(st.dest) if st.dest.proj else ("var", "response")
            if named or mentions_field(de, "last_valid_request") or mentions_field(de, "response"):
                stores.append((sym.rvalue_expr(st.rv), de))
        for c in call_sites(body, r"LastValidRequest::new$"):
            e = sym.call_expr(c.term)
            stores.append((e[2][2], ("field", ("var", "last_valid_request"), "response")))
        k = 0
        for w in ws:
            we = sym.call_expr(w.term)
            resp_arg = we[2][4]
            if mentions_call(resp_arg, r"Response::empty_solicited$") and not mentions_call(resp_arg, FORMATTERS):
                continue  # error responses are re-derived from the repeated request itself, never echoed from memory
            k += 1
            used = [s for s in stores if mentions(s[0], lambda x: x == we)]
            ctx.check(bool(used), "remember-transmitted@%s#%d" % (name, k), "the response returned by write_solicited (with the transmitted IIN / CON) is what is stored for echoing", body.where(w.idx), bad_detail="the value returned by write_solicited is dropped: what is remembered for echoing is the response *before* transmission (without the dynamic IIN bits / forced CON), so an echo differs from the fragment that was sent")
    # LastValidRequest is Copy: storing `Some(result)` into the session state takes a snapshot, so every update of `result`
    # (the transmitted response header, the series) has to come BEFORE the store - one made after it is silently lost and the
    # echo served from memory is the response as it was before transmission
    for d in TOP:
        body = prog.abody(d)
        sym = ctx.sym(body)
        name = d.split("::")[-1]
        succ, pred = body.cfg
        for b, si, st in body.assigns():
            if not st.dest.proj or st.dest.proj[-1] != ".last_valid_request":
                continue
            rv = st.rv
            if rv["k"] == "use" and not rv["a"].is_const() and rv["a"].place.is_local():
                ds = [d_ for d_ in body.defs.get(rv["a"].place.local, []) if d_[0] in body.live_blocks() and d_[1] != "term"]
                if len(ds) == 1:
                    rv = body.blocks[ds[0][0]].stmts[ds[0][1]].rv
            if rv["k"] != "agg" or rv.get("var") != "Some":
                continue
            src = rv["ops"][0]
            if src.is_const() or not src.place.is_local():
                continue
            L = src.place.local
            for _ in range(4):  # through the compiler's copy temporaries to the user's variable
                ds = [d_ for d_ in body.defs.get(L, []) if d_[0] in body.live_blocks() and d_[1] != "term"]
                if len(ds) != 1 or body.local_name(L):
                    break
                rv2 = body.blocks[ds[0][0]].stmts[ds[0][1]].rv
                if rv2["k"] == "use" and not rv2["a"].is_const() and rv2["a"].place.is_local():
                    L = rv2["a"].place.local
                else:
                    break
            after = set()
            for s_ in succ[b.idx]:
                after |= body.reachable(s_)
            late = []
            for b2, si2, st2 in body.assigns():
                if st2.dest.local == L and st2.dest.proj and ((b2.idx in after and b2.idx != b.idx) or (b2.idx == b.idx and si2 > si)):
                    late.append(b2.idx)
            for b2 in body.calls():
                d2 = b2.term.d["d"]
                if d2.local == L and d2.proj and b2.idx in after:
                    late.append(b2.idx)
            ctx.check(not late, "record-after-last-update@%s" % name, "`%s` is stored into last_valid_request after its last update" % (body.local_name(L) or "_%d" % L), body.where(b.idx), bad_detail="`%s` is copied into last_valid_request and modified afterwards (%s): the remembered response is not the one transmitted" % (body.local_name(L) or "_%d" % L, ", ".join(body.where(x) for x in late[:3])))
    # the record is only ever REPLACED by another record: outside SessionState::new / reset nothing stores a possibly-None value
    # (a stray CONFIRM or a broadcast received in idle yields no record and must leave the previous one alone)
    for body in session_bodies(prog):
        if re.search(r"SessionState::(new|reset)$", body.path):
            continue
        for b, si, st in body.assigns():
            if not st.dest.proj or st.dest.proj[-1] != ".last_valid_request":
                continue
            rv = st.rv
            for _ in range(3):
                if rv["k"] == "use" and not rv["a"].is_const() and rv["a"].place.is_local():
                    ds = [d_ for d_ in body.defs.get(rv["a"].place.local, []) if d_[0] in body.live_blocks() and d_[1] != "term"]
                    if len(ds) == 1:
                        rv = body.blocks[ds[0][0]].stmts[ds[0][1]].rv
                        continue
                break
            ok = rv["k"] == "agg" and rv.get("var") == "Some"
            ctx.check(ok, "record-never-erased@%s" % short(body.path), "last_valid_request is assigned Some(..)", body.where(b.idx), bad_detail="%s assigns a value to last_valid_request that may be None: a fragment that yields no record (stray CONFIRM, broadcast) erases the previous one and its retransmission is executed again" % short(body.path))
    # every request-bearing non-READ arm records the request (seq + digest of THIS request), response or not
    cl = lambda x: mentions_call(x, r"OutstationSession::classify$")
    ib_ = prog.abody("OutstationSession::process_request_from_idle")
    for var in ("NewNonRead", "NewRead", "RepeatRead", "RepeatNonRead", "MalformedRequest"):
        arms_ = arm_edges(ctx, ib_, g_is(cl, var))
        if len(arms_) != 1:
            raise AnchorError("process_request_from_idle: %s arm" % var)
        reg_ = region_of(ib_, arms_[0])
        vals_ = [variant_name(e) for b, si, st, e in ret_sites(ib_, ctx.sym(ib_)) if b.idx in reg_]
        ctx.check(bool(vals_) and all(v == "Some" for v in vals_), "record:%s@process_request_from_idle:always" % var, "the %s arm always returns Some(LastValidRequest) (%s): a request with no response (the *_NO_RESPONSE function codes) is recorded too" % (var, vals_), ib_.where(arms_[0].edge[1]), bad_detail="the %s arm of process_request_from_idle can return %s: the request is executed but not recorded, its retransmission is executed again" % (var, vals_))
    for d in ("OutstationSession::process_request_from_idle", "OutstationSession::wait_for_unsolicited_confirm"):
        body = prog.abody(d)
        sym = ctx.sym(body)
        name = d.split("::")[-1]
        for var in ("NewNonRead",):
            arms = arm_edges(ctx, body, g_is(cl, var))
            if len(arms) != 1:
                raise AnchorError("%s: %s arm" % (d, var))
            region = region_of(body, arms[0])
            news = [c for c in call_sites(body, r"LastValidRequest::new$") if c.idx in region]
            ctx.check(len(news) == 1, "record:%s@%s:site" % (var, name), "the %s arm builds the LastValidRequest" % var, body.where(arms[0].edge[1]))
            errs = error_exit_blocks(body)
            for c in news:
                e = sym.call_expr(c.term)
                ctx.check(mentions_field(e[2][0], "seq") or mentions_name(e[2][0], "seq"), "record:%s@%s:seq" % (var, name), "seq = %s" % expr_str(e[2][0])[-50:], body.where(c.idx))
                ctx.check(mentions(e[2][1], lambda s: s[0] == "variant" and s[2] == var), "record:%s@%s:hash" % (var, name), "digest = the one classify computed for this request", body.where(c.idx))
                ctx.check(mentions_call(e[2][2], r"OutstationSession::handle_non_read$"), "record:%s@%s:response" % (var, name), "response = what handle_non_read produced", body.where(c.idx))
                # unconditional inside the arm: every non-error way out of the arm passes it
                exits = sorted({s_ for b_ in region for s_ in body.cfg[0][b_] if s_ not in region})
                rets = [r for r in return_blocks(body)]
                tgt = exits + [r for r in rets if r in region]
                ok = all(not body.can_reach(arms[0].edge[1], t_, removed_blocks={c.idx} | errs) for t_ in tgt) if tgt else False
                ctx.check(ok, "record:%s@%s:unconditional" % (var, name), "recorded on every non-error path through the arm (also when no response is produced)", body.where(c.idx), bad_detail="the %s arm of %s can complete without recording the request: a retransmitted no-response request (DIRECT_OPERATE_NR, FREEZE_NR...) is executed again" % (var, name))


def r7(ctx):
    """A request on a new connection is never a 'retransmission' of one received on the previous connection: see
    engine.session_start_resets (last_valid_request is part of SessionState::reset)."""
    session_start_resets(ctx)

def r8(ctx):
    """A deferred READ that survives a later non-READ request is answered after the unsolicited confirm and overwrites
    last_valid_request; the retransmission of that non-READ request is then executed again. Supersession is rule C14.R7 (shared)."""
    import c14
    c14.r7(ctx)

RULES = [
    ("C05.R1", "T2-region", "RepeatNonRead arms reach no handler / callback", r1),
    ("C05.R2", "T2", "Repeat* only under seq AND digest equality with the stored request", r2),
    ("C05.R3", "T8", "what is echoed is the stored response", r3),
    ("C05.R4", "T3", "echo freshness: tx-buffer formatter -> next wait passes a last_valid_request update", r4),
    ("C05.R5", "T5/T8", "repeat_* rewrite only the header; unsolicited retry re-sends the same response", r5),
    ("C05.R6", "T8/T3", "what is remembered is the transmitted response, recorded for every executed request", r6),
    ("C05.R7", "T2", "the remembered request is dropped before a session's first await (a pre-empted session is dropped without clean-up)", r7),
    ("C05.R8", "T2-region", "requests superseding a deferred READ clear it, so its later answer cannot displace the record of the last executed request (shared with C14.R7)", r8),
]


def r9(ctx):
    """'answered from memory': the exchange that is remembered is the one with the master that sent the request - the reply whose
    bytes are recorded goes to the sender of the request in hand, not to the configured destination (C12.R12, shared code). With
    respond_to_any_master a reply sent elsewhere leaves the requester retransmitting a request the outstation no longer recognises."""
    import c12
    c12.r12(ctx)


RULES.append(("C05.R9", "T8", "the recorded reply went to the sender of the request (shared with C12.R12)", r9))


def r10(ctx):
    """'the reply is byte-for-byte the response previously sent': (a) who may change what is remembered - state.last_valid_request is
    assigned where a request has just been executed and answered (idle, deferred READ, non-READ during the unsolicited confirm wait),
    its response is replaced where the next fragment of a series has been transmitted (sol_confirm_wait), and it is dropped by
    SessionState::reset; a generic transmit path that also rewrites it lets an error reply or an echo overwrite the remembered
    response. (b) The echo goes through write_solicited again, which ORs the dynamic IIN into the remembered header with `Iin | Iin`:
    that merge keeps every bit of both operands (C13.R6, shared code)."""
    prog = ctx.prog
    allowed = {"sol_confirm_wait", "handle_one_request_from_idle", "wait_for_unsolicited_confirm", "handle_deferred_read", "reset", "new"}
    n = 0
    for bd in prog.bodies_matching(r"^dnp3::outstation::session::"):
        if "::tests::" in bd.path:
            continue
        ws = dest_writes(ctx, bd, "last_valid_request")
        if not ws:
            continue
        n += 1
        fn_ = short(bd.path).replace("::{closure#0}", "").split("::")[-1]
        ctx.check(fn_ in allowed, "remembered:writer@%s" % fn_, "state.last_valid_request is written in %s" % fn_, bd.where(ws[0][0].idx), bad_detail="%s rewrites state.last_valid_request: what is echoed for a repeated request can be replaced by a reply that was not its response" % fn_)
    if n < 5:
        raise AnchorError("writers of last_valid_request: %d" % n)
    import c13
    c13.r6(ctx)


RULES.append(("C05.R10", "T5/T7", "the remembered response is rewritten only where a request was answered; merging IIN into an echo keeps every bit (C13.R6)", r10))
