"""C11 — a READ is answered with a complete, consistent snapshot as an orderly series."""
from engine import *
from mir import *

EXPLANATION = (
    "The static writer reads only the frozen copy (Point::selected), which is written only at selection time from Point::current; no body "
    "reachable from StaticDatabase::write reads `current`. Events are written before static data, static data only if every selected event "
    "fitted, attributes only if static data completed. FIR is the constant true for the first fragment (from idle / deferred READ) and false "
    "in the continuation; FIN <- info.complete; CON <- has_events || !complete. The next fragment is formatted only in the Confirm::Yes arm, "
    "after ecsn.increment(), and not when the series was final; timeout / new request reset the selection and end the series, the new "
    "request being retained for idle processing. A partially written range resumes at the index that failed to fit."
)
ASSUMPTIONS = ["exactly-once coverage and ascending order over arbitrary databases and buffer sizes are not decided", "'updates do not leak in' is decided only through the selected/current separation (R1)"]
TRUSTED = ["rustc nightly MIR + Instance::try_resolve", "facts driver", "rules/mir.py"]


def point_field(p, name):
    """place mentions Point's field `name` (not the SelectionQueue / event Variation of the same name)."""
    if ("." + name) not in p.proj:
        return False
    i = p.proj.index("." + name)
    # `self.selected` on StaticDatabase is the selection queue
    if p.ty and ("SelectionQueue" in p.ty or "Cell<" in p.ty or "VecDeque" in p.ty):
        return False
    return True


def r1(ctx):
    prog = ctx.prog
    cg = prog.callgraph
    root = prog.body("range::static_db::StaticDatabase::write")
    reach = cg.reachable_from([root.path])
    n_sel = n_cur = 0
    nb = 0
    for path in sorted(reach):
        bd = prog.bodies.get(path)
        if bd is None or not path.startswith("dnp3::outstation::database::"):
            continue
        nb += 1
        for blk, p, rw in bd.places():
            if point_field(p, "current") and "static_db" in bd.file:
                n_cur += 1
                ctx.bad("writer-reads-current@%s" % short(path), "the static response writer touches Point::current (%r): values updated after the READ was processed leak into later fragments" % p, bd.where(blk))
            if point_field(p, "selected") and rw == "r" and "static_db" in bd.file and "SelectionQueue" not in bd.path:
                n_sel += 1
    ctx.check(n_sel >= 1, "writer-reads-selected", "the static writer reads Point::selected at %d places (%d bodies reachable from StaticDatabase::write)" % (n_sel, nb), root.where(line=root.line))
    if n_cur == 0:
        ctx.ok("writer-never-reads-current", "no body reachable from StaticDatabase::write reads Point::current", root.where(line=root.line))
    # writers of Point::selected
    writers = []
    for bd in prog.bodies_matching(r"range::static_db::"):
        if "::tests::" in bd.path:
            continue
        for b, si, st in bd.assigns():
            if point_field(st.dest, "selected") and st.dest.proj[-1] == ".selected":
                writers.append((bd, b, st))
    if not writers:
        raise AnchorError("no writer of Point::selected")
    for bd, b, st in writers:
        ok = bd.path.endswith("PointMap::select_range_with_variation")
        ctx.check(ok, "selected-writer@%s" % short(bd.path), "Point::selected written in %s" % bd.path, bd.where(b.idx))
        if ok:
            e = ctx.sym(bd).rvalue_expr(st.rv)
            ctx.check(mentions_field(e, "current"), "selected<-current", "selected <- %s" % expr_str(e), bd.where(b.idx))
    # Point::new initialises both from the default
    pb = prog.body("range::static_db::Point::new")
    for b, si, st in agg_sites(pb, r"static_db::Point$"):
        e = ctx.sym(pb).rvalue_expr(st.rv)
        ctx.check(agg_field(e, "selected") is not None and agg_field(e, "current") is not None, "Point::new", "Point::new initialises current and selected", pb.where(b.idx))
    # updates go to `current` only
    ub = prog.body("range::static_db::StaticDatabase::update")
    ws = [st for b, si, st in ub.assigns() if point_field(st.dest, "selected")]
    ctx.check(not ws, "update-leaves-selected", "StaticDatabase::update never writes Point::selected", ub.where(line=ub.line))
    wc = [st for b, si, st in ub.assigns() if point_field(st.dest, "current")]
    ctx.check(bool(wc), "update-writes-current", "StaticDatabase::update writes Point::current", ub.where(line=ub.line))


def r2(ctx):
    prog = ctx.prog
    bd = prog.body("details::database::Database::write_response_headers")
    ev = call_sites(bd, r"EventBuffer::write_events$")
    stc = call_sites(bd, r"StaticDatabase::write$")
    att = call_sites(bd, r"AttrHandler::write$")
    if not (len(ev) == 1 and len(stc) == 1 and len(att) == 1):
        raise AnchorError("write_response_headers: expected one events/static/attrs write each")
    ctx.check(bd.block_dominates(ev[0].idx, stc[0].idx), "events-before-static", "events are written before static data", bd.where(stc[0].idx))
    ctx.require_guards(bd, stc[0].idx, [("all selected events were written", g_is(lambda x: mentions_call(x, r"EventBuffer::write_events$"), "Ok"))], "static-after-complete-events", "StaticDatabase::write")
    ctx.require_guards(bd, att[0].idx, [("static data complete", g_is(lambda x: mentions_call(x, r"StaticDatabase::write$"), "Ok"))], "attrs-after-static", "AttrHandler::write")
    sym = ctx.sym(bd)
    # what is reported as `complete` (FIN): never a literal true; false, or what the static / attribute writers reported (stated over
    # the values, so flag variables, early returns and `a.is_ok() && b` are the same thing)
    sites = agg_sites(bd, r"database::ResponseInfo$")
    allc = []
    for b, si, st in sites:
        e = sym.rvalue_expr(st.rv)
        cexprs = resolve_defs(bd, sym, agg_field(e, "complete"), depth=3)
        allc.extend(cexprs)
        okv = lambda x: (x[0] == "const" and x[1] == 0) or mentions_call(x, r"StaticDatabase::write$|AttrHandler::write$")
        ctx.check(bool(cexprs) and all(okv(x) for x in cexprs), "ResponseInfo:fields", "ResponseInfo{has_events: %s, complete: %s}" % (expr_str(agg_field(e, "has_events")), [expr_str(x)[:40] for x in cexprs]), bd.where(b.idx))
        # has_events is `count > 0` of what write_events reported, whether the whole selection fitted (Ok) or not (Err)
        hexprs = resolve_defs(bd, sym, agg_field(e, "has_events"), depth=3)
        ctx.check(bool(hexprs) and all(mentions(x, lambda s: s[0] == "bin" and s[1] == "Gt") and mentions_call(x, r"write_events$") for x in hexprs), "has_events<-count>0", "has_events <- count > 0 on every arm (%s)" % [expr_str(x)[:50] for x in hexprs], bd.where(line=bd.line))
    ctx.check(any(mentions_call(x, r"AttrHandler::write$") for x in allc), "complete<-attrs", "complete <- attrs.write()", bd.where(line=bd.line))
    ctx.check(any(mentions_call(x, r"StaticDatabase::write$|AttrHandler::write$") for x in allc), "complete<-static-ok", "complete <- static_db.write().is_ok() (and the attribute writer, whose result is reported, runs only after it)", bd.where(line=bd.line))
    # StaticDatabase::write: pop only after a completely written range; Err updates the front and stops
    wb = prog.body("range::static_db::StaticDatabase::write")
    wr = lambda x: mentions_call(x, r"StaticDatabase::write_range$")
    for b in call_sites(wb, r"SelectionQueue::pop$"):
        ctx.require_guards(wb, b.idx, [("write_range is Ok", g_is(wr, "Ok"))], "pop-after-ok", "SelectionQueue::pop")
    for b in call_sites(wb, r"SelectionQueue::update_front$"):
        ctx.require_guards(wb, b.idx, [("write_range is Err", g_is(wr, "Err"))], "update_front-on-err", "SelectionQueue::update_front")
        e = ctx.sym(wb).call_expr(b.term)
        ctx.check(mentions(e[2][1], lambda s: s[0] == "variant" and s[2] == "Err"), "update_front:arg", "resume range = %s" % expr_str(e[2][1])[-60:], wb.where(b.idx))
    for b, si, st, e in ret_sites(wb, ctx.sym(wb)):
        if e[0] == "agg" and e[2] == "Ok":
            ctx.require_guards(wb, b.idx, [("queue empty", g_is(lambda x: mentions_call(x, r"SelectionQueue::peek$"), "None"))], "write:Ok-when-empty", "Ok(()) of StaticDatabase::write")


def r3(ctx):
    prog = ctx.prog
    want = {"OutstationSession::format_first_read_response": 1, "OutstationSession::handle_deferred_read": 1, "OutstationSession::sol_confirm_wait": 0}
    cg = prog.callgraph
    callers = cg.callers_of(lambda c: c.endswith("OutstationSession::format_read_response"))
    seen = set()
    for path, blk, callee, how in callers:
        bd = prog.bodies[path]
        name = [k for k in want if prog.abody(k).path == path]
        if not name:
            ctx.bad("format-caller@%s" % short(path), "unexpected caller of format_read_response", bd.where(blk))
            continue
        seen.add(name[0])
        e = ctx.sym(bd).call_expr(bd.blocks[blk].term)
        fir = e[2][2]
        ctx.check(fir[0] == "const" and fir[1] == want[name[0]], "fir@%s" % name[0].split("::")[-1], "fir argument = %s" % expr_str(fir), bd.where(blk), bad_detail="fir argument = %s, expected %s" % (expr_str(fir), bool(want[name[0]])))
    for k in want:
        if k not in seen:
            ctx.bad("format-caller-missing@%s" % k.split("::")[-1], "expected caller of format_read_response not found")
    fb = prog.body("OutstationSession::format_read_response")
    fs = ctx.sym(fb)
    cs = call_sites(fb, r"ControlField::response$")
    if len(cs) != 1:
        raise AnchorError("format_read_response: ControlField::response")
    e = fs.call_expr(cs[0].term)
    a = e[2]
    info = lambda x: mentions_call(x, r"DatabaseHandle::write_response_headers$")
    ctx.check(a[0] == ("param", "seq"), "header:seq", "seq = %s" % expr_str(a[0]), fb.where(cs[0].idx))
    ctx.check(a[1] == ("param", "fir"), "header:fir", "fir = %s" % expr_str(a[1]), fb.where(cs[0].idx))
    ctx.check(a[2][0] == "field" and a[2][2] == "complete" and info(a[2]), "header:fin", "fin = %s" % expr_str(a[2])[-60:], fb.where(cs[0].idx))
    ctx.check(a[3][0] == "call" and a[3][1].endswith("ResponseInfo::need_confirm") and info(a[3]), "header:con", "con = %s" % expr_str(a[3])[-80:], fb.where(cs[0].idx))
    nb = prog.body("database::ResponseInfo::need_confirm")
    ns = ctx.sym(nb)
    rs = ret_sites(nb, ns)
    ok = len(rs) == 2
    for b, si, st, e in rs:
        gs = ctx.guards_at(nb, b.idx)
        if e[0] == "const":
            ok = ok and e[1] == 1 and any(g.kind == "bool" and g.truth and mentions_field(g.a, "has_events") for g in gs)
        else:
            ok = ok and e == ("un", "Not", ("field", ("param", "self"), "complete"))
    ctx.check(ok, "need_confirm", "need_confirm = has_events || !complete", nb.where(line=nb.line))
    gsb = [b for b in prog.bodies.values() if b.path.endswith("::get_response_series") and "ResponseInfo" in b.path]
    if len(gsb) != 1:
        raise AnchorError("get_response_series")
    gb = gsb[0]
    for b in call_sites(gb, r"ResponseSeries::new$"):
        e = ctx.sym(gb).call_expr(b.term)
        ctx.require_guards(gb, b.idx, [("need_confirm()", g_bool(lambda x: mentions_call(x, r"need_confirm$"), True))], "series-iff-confirm", "ResponseSeries::new")
        ctx.check(e[2][0] == ("param", "ecsn") and e[2][1] == ("field", ("param", "self"), "complete"), "series:args", "ResponseSeries::new(%s, %s)" % (expr_str(e[2][0]), expr_str(e[2][1])), gb.where(b.idx))
    for b in call_sites(fb, r"::get_response_series$"):
        e = fs.call_expr(b.term)
        ctx.check(e[2][1] == ("param", "seq"), "series:ecsn=seq", "series ecsn = %s" % expr_str(e[2][1]), fb.where(b.idx))
    # body written after the header gap, length from the same cursor
    for b in call_sites(fb, r"session::Response::new$"):
        e = fs.call_expr(b.term)
        ctx.check(mentions_call(e[2][1], r"WriteCursor::written$") and mentions_field(e[2][1], "sol_tx_buffer"), "response:size", "size = %s" % expr_str(e[2][1])[:100], fb.where(b.idx))
    sk = call_sites(fb, r"WriteCursor::skip$")
    wr = call_sites(fb, r"DatabaseHandle::write_response_headers$")
    ctx.check(bool(sk) and bool(wr) and fb.block_dominates(sk[0].idx, wr[0].idx), "header-gap", "header space is skipped before objects are written", fb.where(line=fb.line))


def r4(ctx):
    prog = ctx.prog
    bd = prog.abody("OutstationSession::sol_confirm_wait")
    sym = ctx.sym(bd)
    yes = g_is(lambda x: mentions_call(x, r"wait_for_sol_confirm$"), "Yes")
    fm = call_sites(bd, r"OutstationSession::format_read_response$")
    ws = call_sites(bd, r"OutstationSession::write_solicited$")
    inc = [b for b in call_sites(bd, r"Sequence::increment$") if mentions_field(sym.call_expr(b.term), "ecsn")]
    if not (len(fm) == 1 and len(ws) == 1 and len(inc) == 1):
        raise AnchorError("sol_confirm_wait: format/write/increment sites")
    for b, what in ((fm[0], "format_read_response"), (ws[0], "write_solicited")):
        ctx.require_guards(bd, b.idx, [("Confirm::Yes", yes), ("series.fin == false", g_bool(lambda x: mentions_field(x, "fin") and mentions_name(x, "series"), False))], "next-fragment:%s" % what, what)
        ctx.check(bd.block_dominates(inc[0].idx, b.idx), "next-fragment:%s:after-increment" % what, "ecsn.increment() precedes %s" % what, bd.where(b.idx))
    e = sym.call_expr(fm[0].term)
    # ... the value AFTER the increment: `series.ecsn`, not what `increment()` returns (that is the previous number)
    ctx.check(mentions_field(e[2][3], "ecsn") and mentions_name(e[2][3], "series") and not mentions_call(e[2][3], r"Sequence::increment$"), "next-fragment:seq", "next fragment seq = %s" % expr_str(e[2][3]), bd.where(fm[0].idx))
    e = sym.call_expr(ws[0].term)
    ctx.check(mentions(e[2][3], lambda s: s[0] == "variant" and s[2] == "Yes"), "next-fragment:respond_to", "respond_to = %s" % expr_str(e[2][3])[-50:], bd.where(ws[0].idx))
    ctx.check(mentions_call(e[2][4], r"format_read_response$"), "next-fragment:response", "transmits the freshly formatted response", bd.where(ws[0].idx))
    # series := next
    sl = bd.local_by_name("series")
    defs = [x for l in sl for blk, si in bd.defs.get(l, []) for x in resolve_defs(bd, sym, sym.def_expr(blk, si), depth=3)]
    ctx.check(any(mentions_call(x, r"format_read_response$") for x in defs), "series<-next", "series is replaced by the one format_read_response returned", bd.where(line=bd.line))
    # the continue-wait arm formats nothing
    wf = prog.abody("OutstationSession::wait_for_sol_confirm")
    hits = calls_in_blocks(prog, wf, wf.live_blocks(), r"format_read_response$|write_solicited$|write_response_headers$")
    ctx.check(not hits, "wait:formats-nothing", "wait_for_sol_confirm never formats or sends a fresh fragment", wf.where(line=wf.line))
    ex = prog.body("OutstationSession::expect_sol_confirm")
    hits = calls_in_blocks(prog, ex, ex.live_blocks(), r"format_read_response$|write_solicited$|write_response_headers$")
    ctx.check(not hits, "expect:formats-nothing", "expect_sol_confirm never formats a fragment", ex.where(line=ex.line))


def r5(ctx):
    prog = ctx.prog
    bd = prog.abody("OutstationSession::sol_confirm_wait")
    wf = lambda x: mentions_call(x, r"wait_for_sol_confirm$")
    resets = {b.idx for b in call_sites(bd, r"DatabaseHandle::reset$")}
    for var in ("Timeout", "NewRequest"):
        arms = arm_edges(ctx, bd, g_is(wf, var))
        if len(arms) != 1:
            raise AnchorError("sol_confirm_wait: %s arm" % var)
        region = region_of(bd, arms[0])
        rets = [r for r in return_blocks(bd)]
        ok = all(not bd.can_reach(arms[0].edge[1], r, removed_blocks=resets) for r in rets)
        ctx.check(ok, "abort:%s:resets" % var, "%s resets the selection before returning" % var, bd.where(arms[0].edge[1]))
        # and ends the series: no further wait / format reachable inside the arm
        hits = calls_in_blocks(prog, bd, region, r"wait_for_sol_confirm$|format_read_response$|write_solicited$")
        ctx.check(not hits, "abort:%s:ends-series" % var, "%s arm sends nothing more" % var, bd.where(arms[0].edge[1]))
    wb = prog.abody("OutstationSession::wait_for_sol_confirm")
    ex = lambda x: mentions_call(x, r"expect_sol_confirm$")
    for b in call_sites(wb, r"RequestGuard::retain$"):
        ctx.require_guards(wb, b.idx, [("ConfirmAction::NewRequest", g_is(ex, "NewRequest"))], "retain", "RequestGuard::retain")
    for b, si, st in agg_sites(wb, r"session::Confirm$", "NewRequest"):
        rt = call_sites(wb, r"RequestGuard::retain$")
        ctx.check(bool(rt) and any(wb.block_dominates(r.idx, b.idx) for r in rt), "NewRequest:retained", "the new request is retained for idle processing", wb.where(b.idx), bad_detail="Confirm::NewRequest is returned without retaining the fragment: the request that aborted the series is dropped")
    for b, si, st in agg_sites(wb, r"session::Confirm$", "Timeout"):
        ctx.require_guards(wb, b.idx, [("read_until is Yes (timeout)", g_is(lambda x: mentions_call(x, r"read_until$"), "Yes"))], "Timeout:src", "Confirm::Timeout")
    # the confirm deadline is re-armed only on an echo
    dl = wb.local_by_name("deadline")
    defs = [(blk, si) for l in dl for blk, si in wb.defs.get(l, [])]
    inloop = [blk for blk, si in defs if any(blk in wb.reachable(s) for s in wb.cfg[0][blk])]
    for blk in inloop:
        ctx.require_guards(wb, blk, [("EchoLastResponse", g_is(ex, "EchoLastResponse"))], "deadline-rearm", "restarting the confirm timer")


def r6(ctx):
    prog = ctx.prog
    bd = prog.body("range::static_db::StaticDatabase::write_typed_range")
    sym = ctx.sym(bd)
    errs = [(b, e) for b, si, st, e in ret_sites(bd, sym) if e[0] == "agg" and e[2] == "Err"]
    if len(errs) != 1:
        raise AnchorError("write_typed_range: Err return")
    b, e = errs[0]
    inner = agg_field(e, "0")
    ok = inner[0] == "call" and inner[1].endswith("Updatable::wrap") and mentions_call(inner[2][0], r"IndexRange::new$")
    ctx.check(ok, "resume:wrap", "resume range = %s" % expr_str(inner)[:140], bd.where(b.idx))
    if ok:
        rng = inner[2][0]
        start, stop = rng[2][0], rng[2][1]
        ctx.check(mentions(start, lambda s: s[0] == "variant" and s[2] == "Some") and not mentions_field(start, "start"), "resume:start=failed-index", "resume start = %s" % expr_str(start)[-70:], bd.where(b.idx))
        ctx.check(stop == ("field", ("param", "range"), "stop"), "resume:stop=original", "resume stop = %s" % expr_str(stop), bd.where(b.idx))
        ctx.check(inner[2][1] == ("param", "variation"), "resume:variation", "variation kept: %s" % expr_str(inner[2][1]), bd.where(b.idx))
    ctx.require_guards(bd, b.idx, [("writer.write is_err", g_any(g_is(lambda x: mentions_call(x, r"RangeWriter::write$"), "Err"), g_bool(lambda x: mentions_call(x, r"RangeWriter::write$"), True)))], "resume:on-overflow", "Err(resume)")
    # items come from the requested range of the map, written via `selected`
    ws = call_sites(bd, r"RangeWriter::write$")
    for w in ws:
        e = sym.call_expr(w.term)
        ctx.check(mentions_field(e[2][3], "selected"), "write:value=selected", "value written = %s" % expr_str(e[2][3])[-50:], bd.where(w.idx))
    rg = [c for c in bd.calls() if (c.term.callee or "").endswith("BTreeMap::range") or (c.term.declared or "").endswith("BTreeMap::range")]
    ctx.check(len(rg) == 1 and sym.call_expr(rg[0].term)[2][1] == ("param", "range"), "write:range", "iterates map.range(range)", bd.where(rg[0].idx) if rg else "")
    # queue discipline
    uf = prog.body("static_db::SelectionQueue::update_front")
    ws_ = [st for b_, si, st in uf.assigns() if st.dest.proj == ("*",)]
    ctx.check(bool(call_sites(uf, r"VecDeque::front_mut$")) and len(ws_) == 1, "update_front:front", "update_front overwrites the front element only", uf.where(line=uf.line))
    for fn_, callee in (("peek", r"VecDeque::front$"), ("pop", r"VecDeque::pop_front$"), ("push_back", r"VecDeque::push_back$"), ("reset", r"VecDeque::clear$")):
        qb = prog.body("static_db::SelectionQueue::" + fn_)
        ctx.check(bool(call_sites(qb, callee)), "queue:%s" % fn_, "SelectionQueue::%s -> %s" % (fn_, callee), qb.where(line=qb.line))


def r7(ctx):
    """'the next one is sent only after the matching confirm; ... a timeout ends the series': inside the solicited confirm wait the
    deadline is fixed when the fragment is sent (restarted only after an echo, per the standard), and the sequence number the wait
    compares confirms with is the CURRENT fragment's (`series.ecsn` of the loop-carried series), not a copy taken before the loop."""
    prog = ctx.prog
    deadline_discipline(ctx, prog.abody("OutstationSession::wait_for_sol_confirm"), r"OutstationSession::read_until$", r"OutstationSession::new_confirm_deadline$", "sol-confirm-deadline")
    bd = prog.abody("OutstationSession::sol_confirm_wait")
    sym = ctx.sym(bd)
    ws = call_sites(bd, r"OutstationSession::wait_for_sol_confirm$")
    if len(ws) != 1:
        raise AnchorError("sol_confirm_wait: wait_for_sol_confirm sites %d" % len(ws))
    w = ws[0]
    lp = innermost_loop(bd, w.idx)
    if lp is None:
        raise AnchorError("sol_confirm_wait: the wait is not in a loop")
    arg = w.term.args[-1]
    sl = set(bd.local_by_name("series"))

    def reads_series_in_loop(op):
        if op.is_const():
            return False
        if op.place.local in sl and ".ecsn" in op.place.proj:
            return True
        seen, work = set(), [op.place.local]
        while work:
            l = work.pop()
            if l in seen:
                continue
            seen.add(l)
            for blk, si in bd.defs.get(l, []):
                if si == "term" or blk not in bd.live_blocks():
                    continue
                rv = bd.blocks[blk].stmts[si].rv
                src = rv.get("a") if rv["k"] == "use" else None
                pl = src.place if src is not None and not src.is_const() else (rv.get("p") if rv["k"] == "ref" else None)
                if pl is None:
                    continue
                if pl.local in sl and ".ecsn" in pl.proj:
                    return blk in lp[1]
                work.append(pl.local)
        return False

    ctx.check(reads_series_in_loop(arg), "sol-confirm:ecsn-of-current-fragment", "wait_for_sol_confirm(.., series.ecsn) reads the loop-carried series inside the loop", bd.where(w.idx), bad_detail="the expected confirm sequence handed to wait_for_sol_confirm is `%s`: not series.ecsn read inside the loop, so from the second fragment on the matching confirm is compared with a stale number" % expr_str(sym.operand_expr(arg))[:60])
    adv = [b.idx for b, si, st in bd.assigns() if st.dest.is_local() and st.dest.local in sl and b.idx in lp[1]]
    ctx.check(bool(adv), "sol-confirm:series-advances", "`series` is re-assigned inside the loop (next fragment)", bd.where(w.idx))


def r8(ctx):
    """'every existing selected point exactly once in ascending index order': a static range whose stop index was patched ahead of a
    value that then did not fit announces one object more than the fragment carries (and that index is sent again in the next
    fragment). The back-patch ordering is rule C09.R10 (shared code)."""
    import c09
    c09.r10(ctx)

def r9(ctx):
    """'every non-final or event-bearing fragment asks for confirmation and the next one is sent only after the matching confirm':
    the series state (expected confirm, whether more fragments follow) that format_first_read_response returns TOGETHER with the
    first fragment is what gets recorded for that response, in both READ arms (a fresh READ and a READ repeated from idle). A response
    sent with CON but recorded without its series is never waited for: its CONFIRM is ignored and its events stay Written."""
    prog = ctx.prog
    bd = prog.abody("OutstationSession::process_request_from_idle")
    sym = ctx.sym(bd)
    cl = lambda x: mentions_call(x, r"OutstationSession::classify$")
    for var in ("NewRead", "RepeatRead"):
        arms = arm_edges(ctx, bd, g_is(cl, var))
        if len(arms) != 1:
            raise AnchorError("process_request_from_idle: %s arm" % var)
        reg = region_of(bd, arms[0])
        news = [c for c in call_sites(bd, r"LastValidRequest::new$") if c.idx in reg]
        ctx.check(len(news) == 1, "read-series:%s:site" % var, "the %s arm builds one LastValidRequest" % var, bd.where(arms[0].edge[1]))
        for c in news:
            e = sym.call_expr(c.term)
            resp, series = e[2][2], e[2][3]
            fr = lambda x: mentions_call(x, r"OutstationSession::format_first_read_response$")
            ctx.check(fr(resp) and fr(series), "read-series:%s:recorded" % var, "LastValidRequest::new(.., response, series) both come from format_first_read_response (%s)" % expr_str(series)[:50], bd.where(c.idx), bad_detail="the %s arm records series = `%s`: the series state returned with the first fragment is dropped, so a response that asks for confirmation is never waited for" % (var, expr_str(series)[:60]))


def r10(ctx):
    """'every existing selected point exactly once': a READ deferred during an unsolicited confirm wait and then retransmitted must
    not have its headers appended twice; DeferredRead::set starts from an empty list (C14.R7, shared code)."""
    import c14
    c14.r7(ctx)

RULES = [
    ("C11.R1", "T5", "the static writer reads the frozen copy only", r1),
    ("C11.R2", "T2", "events before static, static only when all selected events fit; queue pop/update discipline", r2),
    ("C11.R3", "T8/T11", "FIR/FIN/CON/SEQ provenance of read responses", r3),
    ("C11.R4", "T2", "next fragment only after the matching confirm and ecsn.increment()", r4),
    ("C11.R5", "T3", "timeout / new request reset the selection, end the series, retain the request", r5),
    ("C11.R6", "T8/T5", "a partially written range resumes at the index that did not fit", r6),
    ("C11.R7", "T2-loop/T8", "solicited confirm wait: deadline discipline; the expected confirm sequence is that of the current fragment", r7),
    ("C11.R8", "T3", "a range header cut by a full fragment announces only the objects it carries (shared with C09.R10)", r8),
    ("C11.R9", "T8", "both READ arms record the series state returned with the first fragment", r9),
    ("C11.R10", "T2", "a deferred READ holds exactly the headers of the last READ received (shared with C14.R7)", r10),
]


def r11(ctx):
    """'an orderly series': fragment n+1 carries the 4-bit successor of fragment n's sequence number (shared code, also C04.R12)."""
    app_sequence_wrap(ctx)


RULES.append(("C11.R11", "T11/T2", "the application sequence number is a 4-bit counter wrapping 15 -> 0 (shared with C04.R12)", r11))


def r12(ctx):
    """'a READ is answered with a consistent snapshot' of everything it asks for: DatabaseHandle::select walks ALL object headers of
    the request - a header that cannot be read is noted in IIN2 and the walk goes on (its loop ends only when the headers are
    exhausted), as the deferred-READ sibling does."""
    prog = ctx.prog
    bd = prog.body("outstation::database::DatabaseHandle::select")
    sel = call_sites(bd, r"Database::select_by_header$")
    if len(sel) != 1:
        raise AnchorError("DatabaseHandle::select: select_by_header sites %d" % len(sel))
    ok = loop_exits_only_when_exhausted(ctx, bd, sel[0].idx)
    ctx.check(ok is True, "select:all-headers", "DatabaseHandle::select processes every header of the request", bd.where(sel[0].idx), bad_detail="the header loop of DatabaseHandle::select can be left before the headers are exhausted: the headers behind an unsupported one are neither snapshotted nor reported")


RULES.append(("C11.R12", "T2-loop", "a READ selects every one of its object headers (an unsupported header does not end the walk)", r12))


def r13(ctx):
    """'a READ is answered with' what it asked for: the READ header of a specific variation selects the static variation of the same
    name (C09.R15, shared code)."""
    import c09
    c09.r15(ctx)


RULES.append(("C11.R13", "T4-namesake", "a READ of Group<g>Var<v> selects the static variation of that name (shared with C09.R15)", r13))


def r14(ctx):
    """'a consistent snapshot as an orderly series': a series cut short by a disconnect leaves no selection behind - the database
    selection is reset before a session's first await (session_start_resets, shared code, F17)."""
    session_start_resets(ctx)


RULES.append(("C11.R14", "T2", "the READ selection is reset before a session's first await (shared with C03.R11)", r14))


def r15(ctx):
    """'an orderly series': while a fragment awaits its confirm the session keeps waiting until the deadline whatever application
    messages arrive - OutstationSession::sleep_until handles a message and goes on sleeping (its select! sits in a loop that is left
    only by the sleep branch or an error), else a decode-level change would end the confirm wait as a timeout."""
    prog = ctx.prog
    bd = prog.abody("OutstationSession::sleep_until")
    hs = call_sites(bd, r"OutstationSession::handle_next_message$")
    if len(hs) != 1:
        raise AnchorError("sleep_until: handle_next_message sites %d" % len(hs))
    lp = innermost_loop(bd, hs[0].idx)
    ctx.check(lp is not None, "sleep_until:loops", "handling a message is followed by more sleeping (the select! is in a loop)", bd.where(hs[0].idx), bad_detail="sleep_until returns after handling one application message: a confirm wait in progress ends as if the deadline had passed and the READ series is abandoned")
    if lp is not None:
        sym = ctx.sym(bd)
        errs = error_exit_blocks(bd)
        ok = True
        for b, si, st, e in ret_sites(bd, sym):
            if e[0] == "agg" and e[2] == "Ok" and bd.can_reach(hs[0].idx, b.idx, removed_blocks=errs) and not bd.can_reach(hs[0].idx, lp[0], removed_blocks={b.idx} | errs):
                ok = False
        ctx.check(ok, "sleep_until:message-does-not-end-sleep", "the Ok(()) exit belongs to the sleep branch", bd.where(hs[0].idx))


RULES.append(("C11.R15", "T2-loop", "application messages do not end a sleep / confirm wait early", r15))
