"""Fact loader and program model: bodies, CFG, dominance, symbolic expressions, guards.

Everything here works on the JSON facts written by /verif/driver (MIR *before* the
coroutine transform).  Nothing in this file knows about a particular property.
"""
import json
import os
import re
import sys
from collections import defaultdict, deque

sys.setrecursionlimit(20000)


# ---------------------------------------------------------------------------------------------
# decoded MIR
# ---------------------------------------------------------------------------------------------
class Place:
    __slots__ = ("local", "proj", "ty")

    def __init__(self, local, proj=(), ty=None):
        self.local = local
        self.proj = tuple(proj)
        self.ty = ty

    def is_local(self):
        return not self.proj

    def fields(self):
        return [p[1:] for p in self.proj if p.startswith(".")]

    def __repr__(self):
        return "_%d%s" % (self.local, "".join(self.proj))


class Operand:
    __slots__ = ("kind", "place", "const")

    def __init__(self, kind, place=None, const=None):
        self.kind = kind  # 'copy' | 'move' | 'const'
        self.place = place
        self.const = const  # dict: kty, v, fn, def, s, targs

    def is_const(self):
        return self.kind == "const"

    def value(self):
        if self.kind == "const":
            return self.const.get("v")
        return None

    def __repr__(self):
        if self.kind == "const":
            c = self.const
            if "fn" in c:
                return "fn:" + c["fn"]
            if "v" in c:
                return "const %s:%s" % (c["v"], c.get("kty"))
            return "const{%s}" % c.get("s")
        return "%s %r" % (self.kind, self.place)


class Stmt:
    __slots__ = ("dest", "rv", "line", "macros", "kind")

    def __init__(self, dest, rv, line, macros, kind="assign"):
        self.dest = dest
        self.rv = rv  # dict with decoded operands
        self.line = line
        self.macros = macros
        self.kind = kind


class Term:
    __slots__ = ("kind", "d", "line", "macros")

    def __init__(self, kind, d, line, macros):
        self.kind = kind
        self.d = d
        self.line = line
        self.macros = macros

    # convenience for calls
    @property
    def callee(self):
        return self.d.get("r") or self.d.get("f")

    @property
    def declared(self):
        return self.d.get("f")

    @property
    def args(self):
        return self.d.get("args", [])

    @property
    def dest(self):
        return self.d.get("d")


class Block:
    __slots__ = ("idx", "stmts", "term", "cleanup")

    def __init__(self, idx, stmts, term, cleanup):
        self.idx = idx
        self.stmts = stmts
        self.term = term
        self.cleanup = cleanup


TRACING_PREFIXES = ("tracing::", "tracing_core::")


def is_tracing(macros):
    """True when the span comes from an expansion of a macro defined in crate `tracing`."""
    if not macros:
        return False
    return any(m.startswith(TRACING_PREFIXES) for m in macros)


def is_fmt_macro(macros):
    if not macros:
        return False
    return any(m.startswith(("core::format_args", "std::format_args", "core::write", "std::write", "core::panic", "std::panic", "core::unreachable", "core::assert", "core::debug_assert", "alloc::format", "core::matches", "std::matches")) for m in macros)


class Body:
    def __init__(self, prog, raw):
        self.prog = prog
        self.raw = raw
        self.path = prog.fix_path(raw["path"])
        self._orig_path = self.path  # the path in this tree (self.path is moved to the reviewed path when a rename is detected)
        self.kind = raw.get("kind")
        self.strings = raw.get("strings", [])
        sp = raw.get("span", [0, 0])
        self.file = self._str(sp[0]) if self.strings else "?"
        self.line = sp[1]
        self.span_macros = tuple(sp[2]) if len(sp) > 2 else ()  # macro back-trace of the body's own span (a closure a macro expands to)
        self.end_line = raw.get("end_line", sp[1])
        self.argc = raw.get("argc", 0)
        self.coroutine = raw.get("coroutine")
        self.parent = prog.fix_path(raw["parent"]) if raw.get("parent") else None
        self._promoted_raw = raw.get("promoted")
        self._promoted = {}
        self._decoded = False
        self._blocks = None
        self._local_tys = None
        self._cfg = None
        self._dbg = None
        self._defs = None
        self._dom = None
        # names as reviewed (tables/known_names.json): when only names differ from the reviewed tree they are mapped back (see _unrename)
        self._reviewed_names = None
        kn = getattr(prog, "known_names", None)
        if kn:
            ents = kn.get(self.path)
            now = [nm for nm, _ in raw.get("dbg", [])]
            if ents and not any(now == e_["dbg"] for e_ in ents):
                self._reviewed_names = ents

    # --- decoding --------------------------------------------------------------------------
    def _str(self, i):
        return self.strings[i]

    def _place(self, j):
        if isinstance(j, int):
            return Place(j)
        return Place(j[0], j[1], self._str(j[2]))

    def _const(self, j):
        c = {}
        for k, v in j.items():
            if k in ("kty", "fn", "def", "s"):
                c[k] = self._str(v)
                if k in ("fn", "def"):
                    c[k] = self.prog.fix_path(c[k])
            elif k == "targs":
                c[k] = [self._str(x) for x in v]
            elif k == "vs":
                c["v"] = int(v)
            else:
                c[k] = v
        return c

    def _operand(self, j):
        if "c" in j:
            return Operand("copy", self._place(j["c"]))
        if "m" in j:
            return Operand("move", self._place(j["m"]))
        if "other" in j:
            return Operand("const", const={"s": j["other"]})
        return Operand("const", const=self._const(j))

    def _span(self, sp):
        macros = tuple(sp[2]) if len(sp) > 2 else ()
        return sp[1], macros

    def _rvalue(self, r):
        k = r["k"]
        out = {"k": k}
        if k in ("use", "repeat"):
            out["a"] = self._operand(r["a"])
        elif k in ("ref", "rawptr"):
            out["p"] = self._place(r["p"])
            out["mut"] = r.get("mut", False)
        elif k == "cast":
            out["ck"] = r["ck"]
            out["a"] = self._operand(r["a"])
            out["from"] = self._str(r["from"])
            out["to"] = self._str(r["to"])
        elif k == "bin":
            out["op"] = r["op"]
            out["a"] = self._operand(r["a"])
            out["b"] = self._operand(r["b"])
            out["ty"] = self._str(r["ty"])
        elif k == "un":
            out["op"] = r["op"]
            out["a"] = self._operand(r["a"])
        elif k == "discr":
            out["p"] = self._place(r["p"])
            e = r.get("enum")
            out["enum"] = self.prog.fix_path(self._str(e)) if e is not None else None
        elif k == "agg":
            out["ak"] = r["ak"]
            out["ops"] = [self._operand(o) for o in r["ops"]]
            if "adt" in r:
                out["adt"] = self.prog.fix_path(self._str(r["adt"]))
                out["var"] = r["var"]
                out["fields"] = r["fields"]
            if "def" in r:
                out["def"] = self.prog.fix_path(self._str(r["def"]))
        else:
            out["s"] = r.get("s")
        return out

    def _decode(self):
        if self._decoded:
            return
        self._decoded = True
        raw = self.raw
        self._local_tys = [self._str(i) for i in raw.get("locals", [])]
        self._dbg = [(nm, self._place(p)) for nm, p in raw.get("dbg", [])]
        blocks = []
        for i, b in enumerate(raw.get("blocks", [])):
            stmts = []
            for st in b["s"]:
                if "setdiscr" in st:
                    stmts.append(Stmt(self._place(st["setdiscr"]), {"k": "setdiscr", "var": st["var"]}, 0, (), "setdiscr"))
                    continue
                line, macros = self._span(st["sp"])
                stmts.append(Stmt(self._place(st["d"]), self._rvalue(st["r"]), line, macros))
            t = b["t"]
            line, macros = self._span(t["sp"])
            k = t["k"]
            d = {}
            if k == "switch":
                d["a"] = self._operand(t["a"])
                d["ty"] = self._str(t["ty"])
                d["ts"] = [(v, bb) for v, bb in t["ts"]]
                d["o"] = t["o"]
            elif k == "call":
                if "f" in t:
                    d["f"] = self.prog.fix_path(self._str(t["f"]))
                if "r" in t:
                    d["r"] = self.prog.fix_path(self._str(t["r"]))
                    d["rk"] = t.get("rk")
                if "targs" in t:
                    d["targs"] = [self._str(x) for x in t["targs"]]
                if "fp" in t:
                    d["fp"] = self._operand(t["fp"])
                d["args"] = [self._operand(a) for a in t["args"]]
                d["d"] = self._place(t["d"])
                d["t"] = t.get("t")
            elif k == "assert":
                d["cond"] = self._operand(t["cond"])
                d["exp"] = t["exp"]
                d["mk"] = t["mk"]
                d["ops"] = [self._operand(a) for a in t["ops"]]
                d["t"] = t["t"]
            elif k == "drop":
                d["p"] = self._place(t["p"])
                d["t"] = t["t"]
            elif k == "yield":
                d["t"] = t["t"]
                d["dropbb"] = t.get("dropbb")
            elif k == "goto":
                d["t"] = t["t"]
                d["false"] = t.get("false", False)
            blocks.append(Block(i, stmts, Term(k, d, line, macros), b.get("cleanup", False)))
        self._blocks = blocks
        self.raw = None  # free
        if getattr(self, "_hash_only", False):
            return
        if self._reviewed_names is not None:
            self._unrename()
        self._inline_new_fns()

    # --- names ------------------------------------------------------------------------------
    _SPAN_RE = re.compile(r"@[^}\]]*?:\d+:\d+(: \d+:\d+)?")

    def struct_hash(self):
        """Hash of the decoded body with every user-chosen name erased (debug names, captured-variable names) and positions dropped:
        equal for two versions of a function that differ only by renamed locals / parameters."""
        import hashlib
        caps = {}

        def pl(p):
            proj = []
            for x in p.proj:
                if x.startswith(".^"):
                    proj.append(".^#%d" % caps.setdefault(x, len(caps)))
                else:
                    proj.append(x)
            return "_%d%s" % (p.local, "".join(proj))

        bases = sorted({re.sub(r"(::\{closure#\d+\})+$", "", p_) for p_ in (self.path, getattr(self, "_orig_path", self.path))}, key=len, reverse=True)
        owns = sorted({b_.split("::")[-1] for b_ in bases if re.match(r"^\w+$", b_.split("::")[-1])})
        # only where a string refers to THIS function: its full path (a recursive call, its closures' paths) and its name in the
        # compiler's `{async fn body of ..name()}` / `name::{closure#k}` type strings - not another function that shares the name
        full_re = re.compile("(?:%s)(?![A-Za-z0-9_])" % "|".join(re.escape(b_) for b_ in bases)) if bases else None
        own_re = re.compile(r"\b(%s)(?=\(\)|::\{closure#|::<[^>]*>::promoted|::promoted)" % "|".join(re.escape(o) for o in owns)) if owns else None

        def ty(t):
            if not isinstance(t, str):
                return t
            t = Body._SPAN_RE.sub("@", t)
            # the function's own name (in `{async fn body of ..}`, closure paths, a recursive call) is a name like any other
            if full_re is not None:
                t = full_re.sub("$selfpath", t)
            return own_re.sub("$self", t) if own_re is not None else t

        def op(o):
            if o is None:
                return "-"
            if o.kind == "const":
                return "const{%s}" % ",".join("%s=%s" % (k, ty(str(v))) for k, v in sorted(o.const.items()) if k != "pbody")
            return o.kind + " " + pl(o.place)

        def val(v):
            if isinstance(v, Operand):
                return op(v)
            if isinstance(v, Place):
                return pl(v)
            if isinstance(v, (list, tuple)):
                return "[" + ",".join(val(x) for x in v) + "]"
            return ty(str(v))

        h = hashlib.sha256()
        h.update(("argc=%d;" % self.argc).encode())
        h.update(("|".join(ty(t) for t in self._local_tys)).encode())
        for b in self._blocks:
            for st in b.stmts:
                h.update((pl(st.dest) + "=" + ";".join("%s:%s" % (k, val(v)) for k, v in sorted(st.rv.items())) + "\n").encode())
            t = b.term
            h.update((t.kind + ";".join("%s:%s" % (k, val(v)) for k, v in sorted(t.d.items())) + ("!c" if b.cleanup else "") + "\n").encode())
        return h.hexdigest()[:24], [k[2:] for k, _ in sorted(caps.items(), key=lambda kv: kv[1])]

    def _unrename(self):
        ents = self._reviewed_names
        hsh, caps = self.struct_hash()
        ent = next((e_ for e_ in ents if e_["h"] == hsh and len(e_["dbg"]) == len(self._dbg) and len(e_["caps"]) == len(caps)), None)
        if ent is None:
            return self._unrename_params(ents[0])
        # same structure: every name goes back to the reviewed one, by position
        cmap = {".^" + a: ".^" + b for a, b in zip(caps, ent["caps"]) if a != b}
        self._dbg = [(ent["dbg"][i], p) for i, (nm, p) in enumerate(self._dbg)]
        if cmap:
            def mp(p):
                if any(x in cmap for x in p.proj):
                    return Place(p.local, tuple(cmap.get(x, x) for x in p.proj), p.ty)
                return p

            def mo(o):
                if isinstance(o, Operand) and o.kind != "const":
                    return Operand(o.kind, mp(o.place))
                return o

            for b in self._blocks:
                for st in b.stmts:
                    st.dest = mp(st.dest)
                    for k in ("a", "b"):
                        if isinstance(st.rv.get(k), Operand):
                            st.rv[k] = mo(st.rv[k])
                    if isinstance(st.rv.get("p"), Place):
                        st.rv["p"] = mp(st.rv["p"])
                    if st.rv.get("ops") is not None:
                        st.rv["ops"] = [mo(o) for o in st.rv["ops"]]
                d = b.term.d
                for k in ("a", "cond", "fp"):
                    if isinstance(d.get(k), Operand):
                        d[k] = mo(d[k])
                for k in ("args", "ops"):
                    if d.get(k) is not None:
                        d[k] = [mo(o) for o in d[k]]
                for k in ("d", "p"):
                    if isinstance(d.get(k), Place):
                        d[k] = mp(d[k])
            self._dbg = [(nm, mp(p)) for nm, p in self._dbg]
        self.prog.renamed.append(self.path)

    def _unrename_params(self, ent):
        """The body changed in more than names: parameters still keep their position."""
        params = ent.get("params") or []
        if len(params) != self.argc:
            return
        out = []
        changed = False
        for nm, p in self._dbg:
            if p.is_local() and 1 <= p.local <= self.argc and params[p.local - 1] and nm != params[p.local - 1]:
                out.append((params[p.local - 1], p))
                changed = True
            else:
                out.append((nm, p))
        if changed:
            self._dbg = out
            self.prog.renamed.append(self.path + " (parameters)")

    # --- inlining of functions that did not exist when the rules were reviewed --------------
    def _inline_new_fns(self):
        """Splice the bodies of *new* local functions (not listed in tables/known_fns.txt: helpers extracted by a later edit) into this
        body at their call sites, so that every rule sees the code where it was when the rule was written. Synchronous, non-recursive
        functions only; a new async fn stays an opaque call. On the reviewed tree nothing is new and this is a no-op."""
        prog = self.prog
        new = prog.new_fns
        if not new or self.kind not in ("Fn", "AssocFn", "Closure"):
            return
        if self.path in prog._inlining:
            return
        prog._inlining.add(self.path)
        try:
            budget = 40
            i = 0
            while i < len(self._blocks) and budget > 0:
                blk = self._blocks[i]
                t = blk.term
                i += 1
                if t.kind != "call" or blk.cleanup or t.d.get("t") is None:
                    continue
                c = t.d.get("r") or t.d.get("f")
                if (t.d.get("f") or "").endswith("future::Future::poll") and (t.d.get("r") or "").endswith("::{closure#0}") and t.d["r"][:-13] in new:
                    if self._inline_async(blk, t.d["r"][:-13]):
                        budget -= 1
                    continue
                if c not in new or c in prog._inlining or c == self.path:
                    continue
                cal = prog.bodies.get(c)
                if cal is None or cal.coroutine or cal.kind not in ("Fn", "AssocFn") or (c + "::{closure#0}") in prog.coroutine_paths:
                    continue
                if len(cal.blocks) > 600 or cal.argc != len(t.d["args"]):
                    continue
                self._splice(blk, cal)
                prog.inlined.append((self.path, c))
                budget -= 1
        finally:
            prog._inlining.discard(self.path)
        if getattr(self, "frames", None):
            self._devirtualize()

    def _devirtualize(self):
        """After inlining, a call through a function-pointer parameter whose argument was a named function (`helper(.., write::x)`
        calling `format(..)`) is a direct call of that function: constant propagation over single-definition copies."""
        defs = {}
        for b in self._blocks:
            for st in b.stmts:
                if st.kind == "assign" and st.dest.is_local():
                    defs.setdefault(st.dest.local, []).append(st)
            if b.term.kind == "call" and b.term.d["d"].is_local():
                defs.setdefault(b.term.d["d"].local, []).append(None)
        for b in self._blocks:
            t = b.term
            if t.kind != "call" or "fp" not in t.d or t.d.get("f") or t.d.get("r"):
                continue
            o = t.d["fp"]
            for _ in range(8):
                if o is None:
                    break
                if o.is_const():
                    fn_ = o.const.get("fn")
                    if fn_:
                        d = dict(t.d)
                        d["f"] = d["r"] = self.prog.fix_path(fn_)
                        d["rk"] = "item"
                        b.term = Term("call", d, t.line, t.macros)
                    break
                if not o.place.is_local():
                    break
                dl = defs.get(o.place.local, [])
                if len(dl) != 1 or dl[0] is None or dl[0].rv.get("k") not in ("use", "cast"):
                    break
                o = dl[0].rv["a"]

    def _inline_async(self, pblk, k):
        """`helper(args).await` where `helper` is a new async fn: the poll of the helper's future is replaced by the helper's coroutine
        body (its own suspension points stay `yield`s, its return becomes `Poll::Ready(v)` flowing into the caller's Ready arm), the
        captured parameters are bound where the future was created. Only the directly awaited form is handled (poll resolved to the
        helper's coroutine and its future traced back to one creation call); anything else leaves the call opaque."""
        prog = self.prog
        cor_path = k + "::{closure#0}"
        if k in prog._inlining or cor_path in prog._inlining or cor_path == self.path:
            return False
        outer = prog.bodies.get(k) or prog.absorbed.get(k)
        cor = prog.bodies.get(cor_path) or prog.absorbed.get(cor_path)
        if outer is None or cor is None or not cor.coroutine or len(cor.blocks) > 1500:
            return False
        # trace the polled future back to the call that created it
        defs = {}
        for b in self._blocks:
            for st in b.stmts:
                if st.kind == "assign" and st.dest.is_local():
                    defs.setdefault(st.dest.local, []).append(("s", st, b))
            if b.term.kind == "call" and b.term.d["d"].is_local():
                defs.setdefault(b.term.d["d"].local, []).append(("c", b.term, b))
        a0 = pblk.term.d["args"][0]
        if a0.is_const():
            return False
        cur = a0.place.local
        kblk = None
        for _ in range(12):
            dl = defs.get(cur, [])
            if len(dl) != 1:
                return False
            kind, obj, b = dl[0]
            if kind == "s":
                rv = obj.rv
                if rv["k"] == "ref" and all(x == "*" for x in rv["p"].proj):
                    cur = rv["p"].local
                elif rv["k"] == "use" and not rv["a"].is_const() and rv["a"].place.is_local():
                    cur = rv["a"].place.local
                else:
                    return False
            else:
                f = obj.d.get("f") or ""
                r = obj.d.get("r") or ""
                if f == k or r == k:
                    kblk = b
                    break
                if (f.endswith("Pin::new_unchecked") or f.endswith("IntoFuture::into_future")) and len(obj.d["args"]) == 1 and not obj.d["args"][0].is_const() and obj.d["args"][0].place.is_local():
                    cur = obj.d["args"][0].place.local
                else:
                    return False
        if kblk is None or kblk.term.d.get("t") is None or kblk.cleanup or len(kblk.term.d["args"]) != outer.argc:
            return False
        # parameter name -> argument (an async fn captures every parameter under its own name)
        caps = {}
        for nm, p_ in outer.dbg:
            if p_.is_local() and 1 <= p_.local <= outer.argc:
                caps[nm] = kblk.term.d["args"][p_.local - 1]
        prog._inlining.add(cor_path)
        try:
            self._splice(pblk, cor, captures=caps, kblk=kblk)
        finally:
            prog._inlining.discard(cor_path)
        prog.inlined.append((self.path, k))
        return True

    def _splice(self, blk, cal, captures=None, kblk=None):
        t = blk.term
        lo = len(self._local_tys)
        self._local_tys.extend(cal.local_tys)
        bo = len(self._blocks)
        ret_target = t.d["t"]
        dest = t.d["d"]
        caplocal = {}
        if captures is not None:
            for nm in captures:
                caplocal[nm] = len(self._local_tys)
                self._local_tys.append("")

        def mp(p_):
            if captures is not None and p_.local == 1 and p_.proj and p_.proj[0].startswith(".^"):
                nm = p_.proj[0][2:]
                if nm not in caplocal:
                    caplocal[nm] = len(self._local_tys)
                    self._local_tys.append("")
                return Place(caplocal[nm], p_.proj[1:], p_.ty)
            return Place(p_.local + lo, p_.proj, p_.ty)

        def mo(o):
            if o is None:
                return None
            if o.kind == "const":
                c = o.const
                if "promoted" in c and "pbody" not in c:
                    c = dict(c)
                    c["pbody"] = cal
                return Operand("const", const=c)
            return Operand(o.kind, mp(o.place))

        def mrv(rv):
            out = dict(rv)
            for k in ("a", "b"):
                if isinstance(rv.get(k), Operand):
                    out[k] = mo(rv[k])
            if isinstance(rv.get("p"), Place):
                out["p"] = mp(rv["p"])
            if rv.get("ops") is not None:
                out["ops"] = [mo(o) for o in rv["ops"]]
            return out

        ready_arm = None
        if captures is not None:
            # captured parameters are bound where the future is created; the creation call itself disappears
            kt = kblk.term
            for nm, a in captures.items():
                kblk.stmts.append(Stmt(Place(caplocal[nm]), {"k": "use", "a": a}, kt.line, kt.macros))
            kblk.term = Term("goto", {"t": kt.d["t"], "false": False}, kt.line, kt.macros)
            T = self._blocks[ret_target]
            if T.term.kind == "switch" and len(T.stmts) == 1 and T.stmts[0].rv.get("k") == "discr" and T.stmts[0].rv["p"].is_local() and dest.is_local() and T.stmts[0].rv["p"].local == dest.local:
                ready_arm = dict(T.term.d["ts"]).get(0)
        else:
            # arguments -> the callee's parameter locals
            for k, a in enumerate(t.d["args"]):
                blk.stmts.append(Stmt(Place(lo + 1 + k), {"k": "use", "a": a}, t.line, t.macros))
        blk.term = Term("goto", {"t": bo, "false": False}, t.line, t.macros)
        for cb in cal.blocks:
            stmts = [Stmt(mp(st.dest), mrv(st.rv) if st.kind == "assign" else dict(st.rv), st.line, st.macros, st.kind) for st in cb.stmts]
            ct = cb.term
            k = ct.kind
            d = dict(ct.d)
            if k == "switch":
                d["a"] = mo(ct.d["a"])
                d["ts"] = [(v, bb + bo) for v, bb in ct.d["ts"]]
                d["o"] = ct.d["o"] + bo if ct.d["o"] is not None else None
            elif k == "call":
                d["args"] = [mo(a) for a in ct.d["args"]]
                d["d"] = mp(ct.d["d"])
                d["t"] = ct.d["t"] + bo if ct.d.get("t") is not None else None
                if "fp" in ct.d:
                    d["fp"] = mo(ct.d["fp"])
            elif k == "assert":
                d["cond"] = mo(ct.d["cond"])
                d["ops"] = [mo(a) for a in ct.d["ops"]]
                d["t"] = ct.d["t"] + bo
            elif k == "drop":
                d["p"] = mp(ct.d["p"])
                d["t"] = ct.d["t"] + bo
            elif k == "goto":
                d["t"] = ct.d["t"] + bo
            elif k == "yield":
                d["t"] = ct.d["t"] + bo
            if k == "return" and captures is not None:
                stmts.append(Stmt(dest, {"k": "agg", "ak": "enum", "adt": "std::task::Poll", "var": "Ready", "fields": ["0"], "ops": [Operand("move", Place(lo))]}, ct.line, ct.macros))
                nt = Term("goto", {"t": ready_arm if ready_arm is not None else ret_target, "false": False}, ct.line, ct.macros)
            elif k == "return":
                stmts.append(Stmt(dest, {"k": "use", "a": Operand("move", Place(lo))}, ct.line, ct.macros))
                nt = Term("goto", {"t": ret_target, "false": False}, ct.line, ct.macros)
            else:
                nt = Term(k, d, ct.line, ct.macros)
            self._blocks.append(Block(cb.idx + bo, stmts, nt, cb.cleanup))
        self._dbg.extend((nm, mp(p_)) for nm, p_ in cal.dbg)
        # `let retry = helper(..)`: the helper's (unnamed) return slot carries the name of the variable it initialises, so that rules
        # which follow the user's variable by name see its per-arm definitions as they did before the extraction
        if dest.is_local():
            dn = self.local_name(dest.local)
            if dn and not any(p_.is_local() and p_.local == lo for _, p_ in self._dbg):
                self._dbg.append((dn, Place(lo)))
        if not hasattr(self, "frames"):
            self.frames = []
        if captures is not None:
            if ready_arm is not None:
                self._thread_returns(lo, dest, ready_arm, bo, bo + len(cal.blocks), ready=True)
            # locals holding the awaited value: copies of `poll_result@Ready.0`
            al = set()
            if dest.is_local():
                grew = True
                while grew:
                    grew = False
                    for b_ in self._blocks:
                        for st in b_.stmts:
                            if st.kind == "assign" and st.dest.is_local() and st.dest.local > self.argc and st.dest.local not in al and st.rv.get("k") == "use" and not st.rv["a"].is_const():
                                src = st.rv["a"].place
                                if (src.local == dest.local and src.proj == ("@Ready", ".0")) or (src.is_local() and src.local in al):
                                    al.add(st.dest.local)
                                    grew = True
            self.frames.append({"ret": lo, "dest": dest, "target": ready_arm if ready_arm is not None else ret_target, "callee": cal.path, "blocks": (bo, bo + len(cal.blocks)), "aliases": al, "async": True})
        else:
            self._thread_returns(lo, dest, ret_target, bo, bo + len(cal.blocks))
            self.frames.append({"ret": lo, "dest": dest, "target": ret_target, "callee": cal.path, "blocks": (bo, bo + len(cal.blocks))})
        for fr in getattr(cal, "frames", []):
            nf = {"ret": fr["ret"] + lo, "dest": mp(fr["dest"]), "target": fr["target"] + bo, "callee": fr["callee"], "blocks": (fr["blocks"][0] + bo, fr["blocks"][1] + bo)}
            if fr.get("async"):
                nf["async"] = True
                nf["aliases"] = {a + lo for a in fr["aliases"]}
            self.frames.append(nf)

    @property
    def blocks(self):
        self._decode()
        return self._blocks

    def promoted_expr(self, idx):
        """Symbolic value of promoted constant `idx` (e.g. `&FunctionCode::Confirm`)."""
        if idx in self._promoted:
            return self._promoted[idx]
        e = None
        pr = self._promoted_raw
        if pr is not None and idx < len(pr):
            pb = Body(self.prog, {"path": "%s::promoted[%d]" % (self.path, idx), "strings": self.strings, "blocks": pr[idx], "locals": [], "dbg": [], "span": [0, 0]})
            try:
                e = Sym(pb).local_expr(0)
            except Exception:
                e = None
        self._promoted[idx] = e
        return e

    @property
    def local_tys(self):
        self._decode()
        return self._local_tys

    @property
    def dbg(self):
        self._decode()
        return self._dbg

    def local_name(self, l):
        for nm, p in self.dbg:
            if p.is_local() and p.local == l:
                return nm
        return None

    def local_by_name(self, name):
        out = []
        for nm, p in self.dbg:
            if nm == name and p.is_local():
                out.append(p.local)
        return out

    def _thread_returns(self, ret_local, dest, target, b0, b1, ready=None):
        """Jump threading for an inlined helper whose result is immediately discriminated by the caller (`helper()?`, `match helper()`,
        `if let .. = helper()`, `if helper()`): a callee path that ends by constructing a known variant / constant goes straight to the
        caller's arm for that variant. Without it every callee path merges at the helper's return and the caller's arm is dominated by
        none of the helper's own tests - the shape the code had before the helper was extracted is restored."""
        if not dest.is_local():
            return
        D = dest.local
        blocks = self._blocks
        T = blocks[target]
        is_async = ready is not None
        if is_async:
            # `helper().await?` / `match helper().await {..}`: from the Ready arm follow the copies of the payload to the block that
            # discriminates it
            pay = set()
            cur = target
            T = None
            for _ in range(8):
                B = blocks[cur]
                for st in B.stmts:
                    if st.kind == "assign" and st.rv.get("k") == "discr" and st.rv["p"].is_local() and st.rv["p"].local in pay and st is B.stmts[-1]:
                        continue
                    if st.kind != "assign" or st.rv.get("k") != "use" or st.rv["a"].is_const() or not st.dest.is_local():
                        return
                    src = st.rv["a"].place
                    if (src.local == D and src.proj == ("@Ready", ".0")) or (src.is_local() and src.local in pay):
                        pay.add(st.dest.local)
                    else:
                        return
                if B.term.kind in ("goto", "drop"):
                    cur = B.term.d["t"]
                    continue
                T = B
                break
            if T is None:
                return
            D = None
            t_ = T.term
            if t_.kind == "call" and len(t_.d["args"]) == 1 and not t_.d["args"][0].is_const() and t_.d["args"][0].place.is_local() and t_.d["args"][0].place.local in pay:
                D = t_.d["args"][0].place.local
            elif t_.kind == "switch" and T.stmts and T.stmts[-1].rv.get("k") == "discr":
                D = T.stmts[-1].rv["p"].local
                T = Block(T.idx, T.stmts[-1:], T.term, T.cleanup)
            elif t_.kind == "switch" and not t_.d["a"].is_const() and t_.d["a"].place.is_local() and t_.d["a"].place.local in pay:
                D = t_.d["a"].place.local
                T = Block(T.idx, [], T.term, T.cleanup)
            if D is None:
                return
            if t_.kind == "call":
                T = Block(T.idx, [], T.term, T.cleanup)
        arms = None  # variant name / bool -> block
        kind = None
        def only_trivial(stmts, allow=()):
            return all(st.kind == "assign" and (id(st) in allow) for st in stmts)
        t = T.term
        if t.kind == "call" and ((t.d.get("f") or "").endswith("Try::branch") or (t.d.get("r") or "").endswith("::Try>::branch")) and len(t.d["args"]) == 1 and not t.d["args"][0].is_const() and t.d["args"][0].place.is_local() and t.d["args"][0].place.local == D and not T.stmts and t.d.get("t") is not None:
            T2 = blocks[t.d["t"]]
            if T2.term.kind == "switch" and len(T2.stmts) == 1 and T2.stmts[0].rv.get("k") == "discr" and T2.stmts[0].rv["p"].local == t.d["d"].local:
                m = dict(T2.term.d["ts"])
                if 0 in m and 1 in m:
                    arms = {"Ok": m[0], "Some": m[0], "Err": m[1], "None": m[1], "from_residual": m[1]}
                    kind = "try"
        elif t.kind == "switch" and len(T.stmts) == 1 and T.stmts[0].rv.get("k") == "discr" and T.stmts[0].rv["p"].is_local() and T.stmts[0].rv["p"].local == D:
            enum = T.stmts[0].rv.get("enum")
            vs = dict((d_, n_) for d_, n_ in self.prog.enum_variants(enum)) if enum else {}
            if enum and enum.endswith("option::Option"):
                vs = {0: "None", 1: "Some"}
            elif enum and enum.endswith("result::Result"):
                vs = {0: "Ok", 1: "Err"}
            m = dict(T.term.d["ts"])
            arms = {}
            for d_, n_ in vs.items():
                arms[n_] = m.get(d_, T.term.d["o"])
            if "Err" in arms:
                arms["from_residual"] = arms["Err"]
            elif "None" in arms:
                arms["from_residual"] = arms["None"]
            kind = "match"
        elif t.kind == "switch" and not T.stmts and not t.d["a"].is_const() and t.d["a"].place.is_local() and t.d["a"].place.local == D and t.d.get("ty") == "bool":
            m = dict(t.d["ts"])
            arms = {False: m.get(0, t.d["o"]), True: t.d["o"] if 0 in m else m.get(1, t.d["o"])}
            kind = "bool"
        if not arms:
            return
        # the copied return block(s): `D = move ret_local; goto target`
        if is_async:
            rets = [b for b in blocks[b0:b1] if b.term.kind == "goto" and b.term.d["t"] == target and len(b.stmts) == 1 and b.stmts[0].rv.get("k") == "agg" and b.stmts[0].rv.get("var") == "Ready" and b.stmts[0].dest.is_local() and b.stmts[0].dest.local == dest.local]
        else:
            rets = [b for b in blocks[b0:b1] if b.term.kind == "goto" and b.term.d["t"] == target and b.stmts and b.stmts[-1].dest == dest and b.stmts[-1].rv.get("k") == "use" and not b.stmts[-1].rv["a"].is_const() and b.stmts[-1].rv["a"].place.local == ret_local and len(b.stmts) == 1]

        def ret_stmt(line, macros):
            if is_async:
                return Stmt(dest, {"k": "agg", "ak": "enum", "adt": "std::task::Poll", "var": "Ready", "fields": ["0"], "ops": [Operand("move", Place(ret_local))]}, line, macros)
            return Stmt(dest, {"k": "use", "a": Operand("move", Place(ret_local))}, line, macros)
        retset = {b.idx for b in rets}
        if not retset:
            return
        # scope-exit chains (statement-free goto/drop blocks) in front of the return block count as the return block
        grew = True
        while grew:
            grew = False
            for b in blocks[b0:b1]:
                if b.idx not in retset and not b.cleanup and not b.stmts and b.term.kind in ("goto", "drop") and b.term.d["t"] in retset:
                    retset.add(b.idx)
                    grew = True
        for P in blocks[b0:b1]:
            if P.cleanup:
                continue
            tk = P.term.kind
            variant = None
            if tk in ("goto", "drop") and P.term.d["t"] in retset and P.idx not in retset:
                # last assignment to the return local inside P
                for st in reversed(P.stmts):
                    if st.kind == "assign" and st.dest.is_local() and st.dest.local == ret_local:
                        rv = st.rv
                        if rv["k"] == "agg" and rv.get("ak") == "enum":
                            variant = rv["var"]
                        elif rv["k"] == "use" and rv["a"].is_const() and rv["a"].value() in (0, 1) and kind == "bool":
                            variant = bool(rv["a"].value())
                        break
                if variant is None or variant not in arms:
                    continue
                n = Block(len(blocks), [ret_stmt(P.term.line, P.term.macros)], Term("goto", {"t": arms[variant], "false": False}, P.term.line, P.term.macros), False)
                blocks.append(n)
                P.term = Term("goto", {"t": n.idx, "false": False}, P.term.line, P.term.macros)
            elif tk == "call" and P.term.d.get("t") in retset and P.term.d["d"].is_local() and P.term.d["d"].local == ret_local and (P.term.d.get("f") or "").endswith("from_residual") and "from_residual" in arms:
                n = Block(len(blocks), [ret_stmt(P.term.line, P.term.macros)], Term("goto", {"t": arms["from_residual"], "false": False}, P.term.line, P.term.macros), False)
                blocks.append(n)
                d = dict(P.term.d)
                d["t"] = n.idx
                P.term = Term("call", d, P.term.line, P.term.macros)

    # --- CFG -------------------------------------------------------------------------------
    def succs(self, i):
        """Normal-path successors (no unwind, no coroutine-drop edges)."""
        t = self.blocks[i].term
        k = t.kind
        if k in ("goto", "drop", "assert", "yield"):
            return [t.d["t"]]
        if k == "call":
            return [t.d["t"]] if t.d.get("t") is not None else []
        if k == "switch":
            out = []
            for _, bb in t.d["ts"]:
                if bb not in out:
                    out.append(bb)
            if t.d["o"] not in out:
                out.append(t.d["o"])
            return out
        return []

    @property
    def cfg(self):
        if self._cfg is None:
            n = len(self.blocks)
            succ = [self.succs(i) for i in range(n)]
            pred = [[] for _ in range(n)]
            for i, ss in enumerate(succ):
                for s_ in ss:
                    pred[s_].append(i)
            self._cfg = (succ, pred)
        return self._cfg

    def reachable(self, start=0, removed_edges=(), removed_blocks=()):
        succ, _ = self.cfg
        removed_edges = set(removed_edges)
        removed_blocks = set(removed_blocks)
        if start in removed_blocks:
            return set()
        seen = {start}
        dq = deque([start])
        while dq:
            x = dq.popleft()
            for y in succ[x]:
                if (x, y) in removed_edges or y in removed_blocks or y in seen:
                    continue
                seen.add(y)
                dq.append(y)
        return seen

    def live_blocks(self):
        return self.reachable(0)

    def edge_dominates(self, edge, block):
        """Every normal path entry -> block takes `edge` (a pair (from,to))."""
        if block not in self.live_blocks():
            return False
        return block not in self.reachable(0, removed_edges=[edge])

    def block_dominates(self, a, b):
        if a == b:
            return True
        if b not in self.live_blocks():
            return False
        return b not in self.reachable(0, removed_blocks=[a])

    def region_of_edge(self, edge):
        """Blocks reachable only through `edge`."""
        live = self.live_blocks()
        without = self.reachable(0, removed_edges=[edge])
        return live - without

    def region_of_block(self, b):
        live = self.live_blocks()
        without = self.reachable(0, removed_blocks=[b])
        return live - without

    def can_reach(self, a, b, removed_blocks=(), removed_edges=()):
        return b in self.reachable(a, removed_edges=removed_edges, removed_blocks=removed_blocks)

    # --- definitions -----------------------------------------------------------------------
    @property
    def defs(self):
        """local -> list of (block, stmt_index or 'term', kind) for whole-local definitions."""
        if self._defs is None:
            d = defaultdict(list)
            for b in self.blocks:
                for si, st in enumerate(b.stmts):
                    if st.kind == "assign" and st.dest.is_local():
                        d[st.dest.local].append((b.idx, si))
                t = b.term
                if t.kind == "call" and t.d["d"].is_local():
                    d[t.d["d"].local].append((b.idx, "term"))
            self._defs = d
        return self._defs

    def partial_writes(self, local):
        """Assignments to projections of `local` (field writes through the local)."""
        out = []
        for b in self.blocks:
            for si, st in enumerate(b.stmts):
                if st.kind == "assign" and st.dest.local == local and st.dest.proj and st.dest.proj[0] != "*":
                    out.append((b.idx, si))
        return out

    # --- iteration helpers -----------------------------------------------------------------
    def calls(self, live_only=True):
        live = self.live_blocks() if live_only else None
        for b in self.blocks:
            if b.cleanup:
                continue
            if live is not None and b.idx not in live:
                continue
            if b.term.kind == "call":
                yield b

    def assigns(self, live_only=True):
        live = self.live_blocks() if live_only else None
        for b in self.blocks:
            if b.cleanup:
                continue
            if live is not None and b.idx not in live:
                continue
            for si, st in enumerate(b.stmts):
                if st.kind == "assign":
                    yield b, si, st

    def places(self, live_only=True):
        """Yield (block_idx, place, 'w'|'r') for every place mentioned in live, non-cleanup blocks."""
        live = self.live_blocks() if live_only else None

        def ops(o):
            if o is not None and o.kind != "const":
                yield o.place

        for b in self.blocks:
            if b.cleanup or (live is not None and b.idx not in live):
                continue
            for st in b.stmts:
                if st.kind != "assign":
                    continue
                yield b.idx, st.dest, "w"
                rv = st.rv
                for k in ("a", "b"):
                    if isinstance(rv.get(k), Operand):
                        for p in ops(rv[k]):
                            yield b.idx, p, "r"
                if isinstance(rv.get("p"), Place):
                    yield b.idx, rv["p"], "r"
                for o in rv.get("ops", []) or []:
                    for p in ops(o):
                        yield b.idx, p, "r"
            t = b.term
            d = t.d
            if t.kind == "call":
                for o in d["args"]:
                    for p in ops(o):
                        yield b.idx, p, "r"
                yield b.idx, d["d"], "w"
            elif t.kind == "switch":
                for p in ops(d["a"]):
                    yield b.idx, p, "r"
            elif t.kind == "assert":
                for o in [d["cond"]] + d["ops"]:
                    for p in ops(o):
                        yield b.idx, p, "r"

    def where(self, block=None, line=None):
        if line is None and block is not None:
            line = self.blocks[block].term.line
        return "%s:%s" % (self.file, line)

    def __repr__(self):
        return "<Body %s>" % self.path


# ---------------------------------------------------------------------------------------------
# program
# ---------------------------------------------------------------------------------------------
class Program:
    def __init__(self, crate_json_path):
        with open(crate_json_path) as f:
            d = json.load(f)
        self.crate = d["crate"]
        self.rustc = d.get("rustc")
        self.adts = {self.fix_path(a["path"]): a for a in d["adts"]}
        self.consts = {self.fix_path(c["path"]): c for c in d["consts"]}
        self.impls = d["impls"]
        for im in self.impls:
            im["path"] = self.fix_path(im["path"])
            if "trait" in im:
                im["trait"] = self.fix_path(im["trait"])
            im["items"] = [(n_, self.fix_path(p), t) for n_, p, t in im["items"]]
        self.fns = {self.fix_path(f["path"]): f for f in d["fns"]}
        self.enums = {self.fix_path(k): v for k, v in d["enums"].items()}
        self.bodies = {}
        self.renamed = []
        self.known_names = None
        kn = os.path.join(os.path.dirname(os.path.dirname(os.path.abspath(__file__))), "tables", "known_names.json")
        if os.path.exists(kn) and not os.environ.get("VERIF_NO_RENAME"):
            with open(kn) as f:
                self.known_names = json.load(f).get(self.crate)
        for raw in d["bodies"]:
            if raw.get("stolen"):
                continue
            b = Body(self, raw)
            self.bodies[b.path] = b
        self.n_bodies = len(self.bodies)
        self._callgraph = None
        self._children = None
        # functions that did not exist on the reviewed tree (see Body._inline_new_fns)
        self._inlining = set()
        self.inlined = []
        self.coroutine_paths = {p for p, b in self.bodies.items() if b.coroutine}
        self.new_fns = set()
        kf = os.path.join(os.path.dirname(os.path.dirname(os.path.abspath(__file__))), "tables", "known_fns.txt")
        if os.path.exists(kf) and not os.environ.get("VERIF_NO_INLINE"):
            with open(kf) as f:
                known = {l.strip() for l in f if l.strip() and not l.startswith("#")}
            if any(k.startswith(self.crate + "::") or ("<" + self.crate + "::") in k for k in known):
                self.new_fns = {p for p, b in self.bodies.items() if b.kind in ("Fn", "AssocFn") and "{closure" not in p and p not in known and "::test" not in p and "::tests::" not in p}
        self.absorbed = {}
        self.fn_alias = {}
        if self.new_fns and not os.environ.get("VERIF_NO_RENAME"):
            self._detect_renamed_fns()
        if self.new_fns:
            self._absorb_new_fns()

    def _absorb_new_fns(self):
        """Inline every new function everywhere (decoding does it), then take those that are no longer called anywhere out of the
        body table: a census over all bodies must attribute their code to the callers, not count them as bodies of their own."""
        for b in list(self.bodies.values()):
            b.blocks
        still = set()
        for b in self.bodies.values():
            for blk in b.blocks:
                if blk.term.kind == "call":
                    c = blk.term.d.get("r") or blk.term.d.get("f")
                    if c in self.new_fns:
                        still.add(c)
                    for o in list(blk.term.d.get("args") or []) + [blk.term.d.get("fp")]:
                        if isinstance(o, Operand) and o.kind == "const" and o.const.get("fn") in self.new_fns:
                            still.add(o.const["fn"])  # passed by name (`map(helper)`, `create_next_task(build)`): stays a body
                for st in blk.stmts:
                    if st.kind == "assign":
                        for o in [st.rv.get("a"), st.rv.get("b")] + list(st.rv.get("ops") or []):
                            if isinstance(o, Operand) and o.kind == "const" and o.const.get("fn") in self.new_fns:
                                still.add(o.const["fn"])  # taken as a function value: stays a body
        for p in sorted(self.new_fns - still):
            self.absorbed[p] = self.bodies.pop(p)
            cp = p + "::{closure#0}"
            if cp in self.coroutine_paths and cp in self.bodies:
                self.absorbed[cp] = self.bodies.pop(cp)

    def fix_path(self, p):
        if p is None:
            return None
        if "::<" in p:
            p = strip_turbofish(p)
        if p == "crate":
            return self.crate
        if "crate::" in p:
            p = _CRATE_RE.sub(self.crate + "::", p)
        al = getattr(self, "fn_alias", None)
        if al:
            q = al.get(p)
            if q is not None:
                return q
            if "::{closure#" in p:
                i = p.index("::{closure#")
                q = al.get(p[:i])
                if q is not None:
                    return q + p[i:]
        return p

    def _detect_renamed_fns(self):
        """A function of the reviewed tree is gone and a new one has exactly its MIR (names erased, its own name included): it was
        renamed. It is analysed under the reviewed path (body table and every call site), so rules anchored on it still find it. When
        several removed functions had that same MIR (two identical private helpers merged into one), the new function stands for each
        of them. Anything else about a removed function stays an anchor failure."""
        self.fn_alias = {}
        self.fn_renamed = []
        kn = self.known_names
        if not kn or not self.new_fns:
            return
        missing = {}
        for p, ents in kn.items():
            if p not in self.bodies and "::{closure#" not in p and "::tests::" not in p:
                for e_ in ents:
                    missing.setdefault(e_["h"], set()).add(p)
        if not missing:
            return
        os.environ["VERIF_NO_INLINE_TMP"] = "1"
        try:
            def try_one(p):
                b = self.bodies.get(p)
                if b is None or b.raw is None:
                    return
                tmp = Body(self, b.raw)
                tmp._reviewed_names = None
                tmp._hash_only = True
                tmp.blocks
                h, _ = tmp.struct_hash()
                olds = sorted(missing.get(h, ()))
                if not olds:
                    return
                self.fn_renamed.append((p, olds))
                first = olds[0]
                self.fn_alias[p] = first
                # move the body (and its closures) under the reviewed path(s)
                for q in [x for x in list(self.bodies) if x == p or x.startswith(p + "::{closure#")]:
                    bq = self.bodies.pop(q)
                    for k_, old in enumerate(olds):
                        nq = old + q[len(p):]
                        if k_ == 0:
                            bq.path = nq
                            if bq.parent and (bq.parent == p or bq.parent.startswith(p + "::{closure#")):
                                bq.parent = old + bq.parent[len(p):]
                            self.bodies[nq] = bq
                            # its locals / parameters may have been renamed along with it
                            ents_ = kn.get(nq)
                            if ents_ and bq.raw is not None and not any([nm for nm, _ in bq.raw.get("dbg", [])] == e_["dbg"] for e_ in ents_):
                                bq._reviewed_names = ents_
                        else:
                            cp = Body(self, bq.raw)
                            cp.path = nq
                            if cp.parent and (cp.parent == p or cp.parent.startswith(p + "::{closure#")):
                                cp.parent = old + cp.parent[len(p):]
                            self.bodies[nq] = cp
                self.new_fns.discard(p)

            # to a fixpoint: a renamed function that calls another renamed function matches only once its callee is mapped back
            for _round in range(4):
                before = len(self.fn_renamed)
                for p in sorted(self.new_fns):
                    try_one(p)
                if len(self.fn_renamed) == before:
                    break
        finally:
            os.environ.pop("VERIF_NO_INLINE_TMP", None)
        self.coroutine_paths = {p for p, b in self.bodies.items() if b.coroutine}

    # --- lookup ----------------------------------------------------------------------------
    def body(self, suffix):
        """Unique body whose path equals or ends with '::'+suffix."""
        m = self.find_bodies(suffix)
        if len(m) != 1:
            raise AnchorError("body anchor %r matched %d bodies: %s" % (suffix, len(m), [b.path for b in m][:5]))
        return m[0]

    def find_bodies(self, suffix):
        out = []
        for p, b in self.bodies.items():
            if p == suffix or p.endswith("::" + suffix):
                out.append(b)
        return out

    def bodies_matching(self, regex):
        r = re.compile(regex)
        return [b for p, b in self.bodies.items() if r.search(p)]

    def enum_variants(self, path):
        e = self.enums.get(path)
        if e is None and path in self.adts:
            return [(v["discr"], v["name"]) for v in self.adts[path]["variants"]]
        return [(d_, n_) for d_, n_ in (e or [])]

    def variant_name(self, enum_path, discr):
        for d_, n_ in self.enum_variants(enum_path):
            if d_ == discr:
                return n_
        return None

    def adt(self, suffix):
        m = [a for p, a in self.adts.items() if p == suffix or p.endswith("::" + suffix)]
        if len(m) != 1:
            raise AnchorError("adt anchor %r matched %d" % (suffix, len(m)))
        return m[0]

    def const(self, suffix):
        m = [c for p, c in self.consts.items() if p == suffix or p.endswith("::" + suffix)]
        if len(m) != 1:
            raise AnchorError("const anchor %r matched %d" % (suffix, len(m)))
        return m[0]

    def inline_summary(self, path, level, closure=False):
        """(param names, return expression) of a small straight-line local function, else None.
        Lets guards and provenance see through extracted helpers and getters. With closure=True: of a closure body
        (its environment parameter is dropped; captures stay capture expressions)."""
        key = (path, level, closure)
        cache = self.__dict__.setdefault("_inline_cache", {})
        if key in cache:
            return cache[key]
        cache[key] = None  # recursion guard
        b = self.bodies.get(path)
        res = None
        if b is not None and not b.coroutine and (b.kind in ("Fn", "AssocFn") or (closure and b.kind == "Closure")) and b.argc <= 6:
            live = [x for x in b.blocks if x.idx in b.live_blocks() and not x.cleanup]
            if len(live) <= 14 and all(x.term.kind in ("goto", "call", "return", "assert", "drop") for x in live):
                defs0 = [d for d in b.defs.get(0, []) if d[0] in b.live_blocks()]
                if len(defs0) == 1:
                    try:
                        s = Sym(b, level)
                        ret = s.local_expr(0)
                        params = [b.local_name(i) or "_%d" % i for i in range(2 if closure else 1, b.argc + 1)]
                        if ret[0] not in ("var", "other") and len(set(params)) == len(params) and _expr_size(ret) <= 60:
                            res = (params, ret)
                    except Exception:
                        res = None
        cache[key] = res
        return res

    def children(self, body):
        """Closure / coroutine bodies created (lexically) inside `body`."""
        if self._children is None:
            ch = defaultdict(list)
            for b in self.bodies.values():
                if b.parent:
                    ch[b.parent].append(b)
            self._children = ch
        return self._children.get(body.path, [])

    def coroutine_of(self, body):
        """For an `async fn` body: its `{closure#0}` coroutine body (or the body itself)."""
        for c in self.children(body):
            if c.coroutine and c.path == body.path + "::{closure#0}":
                return c
        return body

    def abody(self, suffix):
        """Body of a fn; for async fns the coroutine body that holds the real code."""
        return self.coroutine_of(self.body(suffix))

    # --- call graph ------------------------------------------------------------------------
    @property
    def callgraph(self):
        if self._callgraph is None:
            self._callgraph = CallGraph(self)
        return self._callgraph


_CRATE_RE = re.compile(r"(?<![A-Za-z0-9_])crate::")


class AnchorError(Exception):
    pass


def strip_turbofish(p):
    """`VecList::<T>::add` -> `VecList::add` (generic argument lists of path segments are dropped)."""
    out = []
    i = 0
    n = len(p)
    while i < n:
        if p.startswith("::<", i) and not p.startswith("::<impl ", i):
            depth = 0
            j = i + 2
            while j < n:
                c = p[j]
                if c == "<":
                    depth += 1
                elif c == ">" and p[j - 1] != "-":
                    depth -= 1
                    if depth == 0:
                        break
                j += 1
            i = j + 1
            continue
        out.append(p[i])
        i += 1
    return "".join(out)


class CallGraph:
    """Edges: resolved calls; closure/coroutine creation; CHA for unresolved trait methods;
    fmt::Argument::new_display/new_debug::<T> -> <T as Display/Debug>::fmt for local T."""

    def __init__(self, prog):
        self.prog = prog
        self.edges = defaultdict(set)  # body path -> set(callee path)  (local and external)
        self.sites = defaultdict(list)  # body path -> [(block, callee path, how)]
        trait_impls = defaultdict(list)  # trait method decl path -> [impl method path]
        for im in prog.impls:
            tr = im.get("trait")
            if not tr:
                continue
            for name, p, tag in im["items"]:
                if name:
                    trait_impls[tr + "::" + name].append(p)
        self.trait_impls = trait_impls
        fmt_impls = {}
        for im in prog.impls:
            tr = im.get("trait")
            if tr in ("core::fmt::Display", "core::fmt::Debug", "std::fmt::Display", "std::fmt::Debug"):
                for name, p, tag in im["items"]:
                    if name == "fmt":
                        fmt_impls[(tr.split("::")[-1], im["self"])] = p
        self.fmt_impls = fmt_impls
        for b in prog.bodies.values():
            for blk in b.blocks:
                if blk.cleanup:
                    continue
                for st in blk.stmts:
                    if st.kind == "assign" and st.rv["k"] == "agg" and st.rv.get("def"):
                        self._add(b, blk.idx, st.rv["def"], "closure")
                t = blk.term
                if t.kind != "call":
                    continue
                r = t.d.get("r")
                f = t.d.get("f")
                if r:
                    self._add(b, blk.idx, r, "resolved")
                    if r != f and f:
                        pass
                    # trait method declared without default resolves to itself when unresolvable
                    if r == f and f in trait_impls and f not in prog.bodies:
                        for imp in trait_impls[f]:
                            self._add(b, blk.idx, imp, "cha")
                elif f:
                    self._add(b, blk.idx, f, "declared")
                    for imp in trait_impls.get(f, []):
                        self._add(b, blk.idx, imp, "cha")
                # fmt argument constructors
                if f and ("fmt::rt::Argument" in f) and t.d.get("targs"):
                    kind = "Display" if "display" in f else ("Debug" if "debug" in f else None)
                    if kind:
                        ty = t.d["targs"][0].lstrip("&")
                        p = fmt_impls.get((kind, ty))
                        if p:
                            self._add(b, blk.idx, p, "fmt")
                # fn items passed as arguments (e.g. map(f))
                for a in t.d["args"]:
                    if a.is_const() and "fn" in a.const:
                        self._add(b, blk.idx, a.const["fn"], "fnarg")

    def _add(self, b, blk, callee, how):
        self.edges[b.path].add(callee)
        self.sites[b.path].append((blk, callee, how))

    def reachable_from(self, roots):
        seen = set()
        dq = deque(roots)
        while dq:
            p = dq.popleft()
            if p in seen:
                continue
            seen.add(p)
            for c in self.edges.get(p, ()):
                if c not in seen:
                    dq.append(c)
        return seen

    def callers_of(self, callee_pred):
        out = []
        for p, sites in self.sites.items():
            for blk, callee, how in sites:
                if callee_pred(callee):
                    out.append((p, blk, callee, how))
        return out


# ---------------------------------------------------------------------------------------------
# symbolic expressions
# ---------------------------------------------------------------------------------------------
# An expression is a tuple:
#   ('param', name) ('local', n) ('var', name_or_n) ('const', v, text) ('fn', path)
#   ('field', base, name) ('index', base) ('variant', base, name)
#   ('call', path, (args...)) ('bin', op, a, b) ('un', op, a) ('cast', to, a) ('discr', a, enum)
#   ('agg', adt, var, ((field, e)...)) ('closure', def, (captures...)) ('tuple', (..)) ('other', s)
# refs / derefs / copies are transparent.
MAX_DEPTH = 40
# identity-like calls: provenance flows straight through them
TRANSPARENT_CALLS = {
    "std::ops::Deref::deref", "std::ops::DerefMut::deref_mut", "core::ops::Deref::deref", "core::ops::DerefMut::deref_mut",
    "core::ops::deref::Deref::deref", "core::ops::deref::DerefMut::deref_mut",
    "std::clone::Clone::clone", "core::clone::Clone::clone",
    "std::convert::AsMut::as_mut", "std::convert::AsRef::as_ref", "core::convert::AsMut::as_mut", "core::convert::AsRef::as_ref",
    "std::borrow::Borrow::borrow", "std::borrow::BorrowMut::borrow_mut", "core::borrow::Borrow::borrow", "core::borrow::BorrowMut::borrow_mut",
}


MAX_INLINE = 2


def subst(e, env):
    """Replace ('param', name) leaves by env[name]."""
    if not isinstance(e, tuple) or not e:
        return e
    if e[0] == "param":
        return env.get(e[1], e)
    if e[0] in ("const", "fn", "var", "capture", "local", "other"):
        return e
    return tuple(subst(x, env) if isinstance(x, tuple) else x for x in e)


class Sym:
    def __init__(self, body, inline_level=0):
        self.body = body
        self.memo = {}
        self.inline_level = inline_level
        self._trunc = 0

    def local_expr(self, l, depth=0, stack=()):
        if l in self.memo:
            return self.memo[l]
        if depth > MAX_DEPTH:
            self._trunc += 1
            return ("var", self.body.local_name(l) or "_%d" % l)
        t0 = self._trunc
        e = self._local_expr(l, depth, stack)
        if self._trunc != t0:
            # a sub-expression was cut at the depth limit: the result depends on where the evaluation started, do not cache it
            self.memo.pop(l, None)
        return e

    def _local_expr(self, l, depth=0, stack=()):
        b = self.body
        if l in self.memo:
            return self.memo[l]
        if depth > MAX_DEPTH or l in stack:
            return ("var", b.local_name(l) or "_%d" % l)
        alld = b.defs.get(l, [])
        live = b.live_blocks()
        defs = [d for d in alld if d[0] in live]
        if not defs and alld and l > b.argc and getattr(b, "frames", None):
            # only defined in a block that return-threading of an inlined helper by-passed (the `Try::branch` of `helper()?`): the
            # live uses still mean that value
            defs = list(alld)
        if 1 <= l <= b.argc:
            name = b.local_name(l) or "_%d" % l
            if not defs:
                e = ("param", name)
                self.memo[l] = e
                return e
            return ("var", name)
        if len(defs) == 1 and not b.partial_writes(l):
            blk, si = defs[0]
            e = self.def_expr(blk, si, depth + 1, stack + (l,))
            if e[0] == "phi" and l > b.argc and b.local_name(l):
                # a user variable initialised from a helper's several return paths (`let broadcast = match helper() {..}`): it stays
                # the variable it was when each path assigned it directly
                e = ("var", b.local_name(l))
            self.memo[l] = e
            return e
        if len(defs) == 1:
            # aggregate built then mutated in place: still show the initial value
            blk, si = defs[0]
            e = self.def_expr(blk, si, depth + 1, stack + (l,))
            e = ("mutated", e)
            self.memo[l] = e
            return e
        src = self._copy_source(l)
        if src is not None and src not in stack:
            e = self.local_expr(src, depth + 1, stack + (l,))
            self.memo[l] = e
            return e
        if len(defs) > 1 and l not in stack and any(f["ret"] == l for f in getattr(b, "frames", ())):
            # the return slot of an inlined helper: one alternative per return path
            alts = tuple(self.def_expr(blk, si, depth + 1, stack + (l,)) for blk, si in defs)
            e = alts[0] if all(a == alts[0] for a in alts) else ("phi", alts)
            self.memo[l] = e
            return e
        if len(defs) > 1 and not b.partial_writes(l) and self._same_defs(defs):
            # identical hand-over statements (`poll_result = Poll::Ready(move ret)` once per threaded return of an inlined async helper)
            blk, si = defs[0]
            e = self.def_expr(blk, si, depth + 1, stack + (l,))
            self.memo[l] = e
            return e
        e = ("var", b.local_name(l) or "_%d" % l)
        self.memo[l] = e
        return e

    def _same_defs(self, defs):
        b = self.body
        sig = None
        for blk, si in defs:
            if si == "term":
                return False
            rv = b.blocks[blk].stmts[si].rv
            if rv["k"] != "agg" or any(o.is_const() or not o.place.is_local() for o in rv["ops"]):
                return False
            s_ = (rv.get("ak"), rv.get("adt"), rv.get("var"), tuple(o.place.local for o in rv["ops"]))
            if sig is None:
                sig = s_
            elif sig != s_:
                return False
        return sig is not None

    def _live_defs(self, l):
        b = self.body
        live = b.live_blocks()
        return [d for d in b.defs.get(l, []) if d[0] in live]

    def _copy_source(self, l):
        """If every live definition of local l is a plain copy/move of one and the same bare local X (the hand-over blocks that jump
        threading creates for an inlined helper's result), X; else None."""
        b = self.body
        defs = self._live_defs(l)
        if len(defs) < 2 or b.partial_writes(l):
            return None
        src = None
        for blk, si in defs:
            if si == "term":
                return None
            rv = b.blocks[blk].stmts[si].rv
            if rv["k"] != "use" or rv["a"].is_const() or not rv["a"].place.is_local():
                return None
            x = rv["a"].place.local
            if src is None:
                src = x
            elif src != x:
                return None
        return src

    def _variant_def(self, l, variant, hops=0):
        """The unique live definition of local l (through hand-over copies) that constructs enum variant `variant`: a downcast to
        that variant can only observe a value built as that variant."""
        b = self.body
        if hops > 4 or 1 <= l <= b.argc:
            return None
        defs = self._live_defs(l)
        if len(defs) < 2:
            if len(defs) == 1 and defs[0][1] != "term":
                rv = b.blocks[defs[0][0]].stmts[defs[0][1]].rv
                if rv["k"] == "use" and not rv["a"].is_const() and rv["a"].place.is_local():
                    return self._variant_def(rv["a"].place.local, variant, hops + 1)
            return None
        src = self._copy_source(l)
        if src is not None:
            return self._variant_def(src, variant, hops + 1)
        hits = []
        for blk, si in defs:
            if si == "term":
                continue
            rv = b.blocks[blk].stmts[si].rv
            if rv["k"] == "agg" and rv.get("ak") == "enum" and rv.get("var") == variant:
                hits.append((blk, si))
        if len(hits) == 1:
            return hits[0]
        if 2 <= len(hits) <= 4 and b.local_name(l) is None:
            return hits  # several arms build this variant in an unnamed temporary: the caller gets a phi over them
        return None

    def def_expr(self, blk, si, depth=0, stack=()):
        b = self.body
        if si == "term":
            t = b.blocks[blk].term
            return self.call_expr(t, depth, stack)
        st = b.blocks[blk].stmts[si]
        return self.rvalue_expr(st.rv, depth, stack)

    def call_expr(self, t, depth=0, stack=()):
        callee = t.d.get("r") or t.d.get("f") or "<indirect>"
        args = tuple(self.operand_expr(a, depth + 1, stack) for a in t.d["args"])
        if t.d.get("f") in TRANSPARENT_CALLS and len(args) == 1:
            return args[0]
        if t.d.get("f") in ("std::future::Future::poll", "core::future::future::Future::poll", "core::future::Future::poll") and len(args) == 2:
            # `.await` desugaring: poll(Pin::new_unchecked(&mut into_future(X)), cx)
            x = args[0]
            for _ in range(3):
                if x[0] == "call" and len(x[2]) == 1 and (x[1].endswith("Pin::<Ptr>::new_unchecked") or x[1].endswith("::new_unchecked") or x[1].endswith("IntoFuture>::into_future") or x[1].endswith("::into_future")):
                    x = x[2][0]
                if x[0] == "mutated":
                    x = x[1]
            return ("poll", x)
        if self.inline_level < MAX_INLINE:
            summ = self.body.prog.inline_summary(callee, self.inline_level + 1)
            if summ is not None:
                params, ret = summ
                if len(params) == len(args):
                    return ("call", callee, args, subst(ret, dict(zip(params, args))))
        return ("call", callee, args)

    def place_expr(self, p, depth=0, stack=()):
        e = None
        first = next((pr for pr in p.proj if pr != "*"), None)
        if first is not None and first.startswith("@") and p.local not in stack:
            vd = self._variant_def(p.local, first[1:])
            if isinstance(vd, list):
                alts = tuple(self.def_expr(x[0], x[1], depth + 1, stack + (p.local,)) for x in vd)
                e = alts[0] if all(a == alts[0] for a in alts) else ("phi", alts)
            elif vd is not None:
                e = self.def_expr(vd[0], vd[1], depth + 1, stack + (p.local,))
        if e is None:
            e = self.local_expr(p.local, depth, stack)
        return self._project(e, p.proj)

    def _project(self, e, proj):
        for i_, pr in enumerate(proj):
            if pr == "*":
                continue
            if e[0] == "phi" and pr.startswith("@"):
                # a downcast only observes the alternatives built as that variant
                keep = []
                for a in e[1]:
                    if a[0] == "agg" and a[2] != pr[1:]:
                        continue
                    if a[0] == "call" and (a[1] or "").endswith("from_residual") and pr[1:] in ("Ok", "Some"):
                        continue
                    keep.append(self._project(a, (pr,)))
                if not keep:
                    e = ("variant", e, pr[1:])
                else:
                    e = keep[0] if all(k_ == keep[0] for k_ in keep) else ("phi", tuple(keep))
                continue
            if e[0] == "phi" and pr.startswith("."):
                keep = [self._project(a, (pr,)) for a in e[1]]
                e = keep[0] if all(k_ == keep[0] for k_ in keep) else ("phi", tuple(keep))
                continue
            if pr.startswith("."):
                name = pr[1:]
                if name.startswith("^"):
                    e = capture_expr(name[1:])
                elif e[0] == "mutated" and e[1][0] in ("tuple", "agg"):
                    e = ("field", e, name)
                elif e[0] == "tuple" and name.isdigit() and int(name) < len(e[1]):
                    e = e[1][int(name)]
                elif e[0] == "agg" and any(n_ == name for n_, _ in e[3]):
                    e = [x for n_, x in e[3] if n_ == name][0]
                elif e[0] == "awaitv" and name == "0":
                    e = ("await", e[1])
                elif e[0] == "tryv" and name == "0":
                    e = _try_of(e[1])
                elif e[0] == "tryerr" and name == "0":
                    e = ("tryerr", e[1])
                else:
                    e = ("field", e, name)
            elif pr.startswith("@"):
                if e[0] == "poll" and pr[1:] == "Ready":
                    e = ("awaitv", e[1])
                elif e[0] == "call" and len(e[2]) == 1 and e[1].endswith("::Try>::branch") and pr[1:] in ("Continue", "Break"):
                    e = ("tryv" if pr[1:] == "Continue" else "tryerr", e[2][0])
                elif e[0] == "agg" and e[2] == pr[1:]:
                    pass
                elif e[0] == "call" and len(e[2]) == 2 and pr[1:] == "Some" and (e[1] or "").endswith("option::Option::zip"):
                    # (a.zip(b) as Some).0 == ((a as Some).0, (b as Some).0)
                    e = ("agg", "std::option::Option", "Some", (("0", ("tuple", tuple(self._project(x, ("@Some", ".0")) for x in e[2]))),))
                elif e[0] == "var" and self._var_variant(e, pr[1:]) is not None:
                    e = self._var_variant(e, pr[1:])
                elif e[0] == "call" and len(e[2]) == 2 and pr[1:] in ("Some", "Ok") and _MAP_LIKE.search(e[1] or "") and (e[1] or "").endswith("::map") and e[2][1][0] == "closure":
                    # (x.map(|v| f(v)) as Some).0  ==  f((x as Some).0)
                    summ = self.body.prog.inline_summary(e[2][1][1], self.inline_level + 1, closure=True)
                    if summ is not None and len(summ[0]) == 1:
                        inner = ("field", ("variant", e[2][0], pr[1:]), "0") if not (e[2][0][0] == "agg" and e[2][0][2] == pr[1:]) else dict(e[2][0][3]).get("0")
                        e = ("agg", "std::option::Option" if pr[1:] == "Some" else "std::result::Result", pr[1:], (("0", subst(summ[1], {summ[0][0]: inner})),))
                    else:
                        e = ("variant", e, pr[1:])
                else:
                    e = ("variant", e, pr[1:])
            elif pr.startswith("["):
                e = ("index", e)
            else:
                e = ("proj?", e)
        return e

    def _var_variant(self, e, variant):
        """`(v as V)` where v is a variable built as a literal enum value on every path and as V on exactly one (reached through a
        tuple or another projection, so place_expr's own variant lookup did not see it): that construction."""
        key = (e[1], variant)
        memo = self.__dict__.setdefault("_vv_memo", {})
        if key in memo:
            return memo[key]
        memo[key] = None
        b = self.body
        name = e[1]
        locs = [int(name[1:])] if name.startswith("_") and name[1:].isdigit() else b.local_by_name(name)
        out = None
        if len(locs) == 1 and not (1 <= locs[0] <= b.argc):
            vd = self._variant_def(locs[0], variant)
            if vd is not None and not isinstance(vd, list):
                x = self.def_expr(vd[0], vd[1], 1, (locs[0],))
                if x[0] == "agg" and x[2] == variant:
                    out = x
        memo[key] = out
        return out

    def operand_expr(self, o, depth=0, stack=()):
        if o.kind == "const":
            c = o.const
            if "fn" in c:
                return ("fn", c["fn"])
            if "promoted" in c:
                pe = (c.get("pbody") or self.body).promoted_expr(c["promoted"])
                if pe is not None and pe[0] != "var":
                    return pe
            if "v" in c:
                return ("const", c["v"], c.get("def") or c.get("kty"))
            return ("const", None, c.get("def") or c.get("s"))
        return self.place_expr(o.place, depth, stack)

    def rvalue_expr(self, rv, depth=0, stack=()):
        k = rv["k"]
        if k in ("use", "repeat"):
            return self.operand_expr(rv["a"], depth, stack)
        if k in ("ref", "rawptr"):
            return self.place_expr(rv["p"], depth, stack)
        if k == "cast":
            return ("cast", rv["to"], self.operand_expr(rv["a"], depth, stack), rv["from"])
        if k == "bin":
            return ("bin", rv["op"], self.operand_expr(rv["a"], depth, stack), self.operand_expr(rv["b"], depth, stack))
        if k == "un":
            return ("un", rv["op"], self.operand_expr(rv["a"], depth, stack))
        if k == "discr":
            return ("discr", self.place_expr(rv["p"], depth, stack), rv.get("enum"))
        if k == "agg":
            ops = tuple(self.operand_expr(o, depth, stack) for o in rv["ops"])
            ak = rv["ak"]
            if ak in ("enum", "struct"):
                fields = rv.get("fields") or []
                named = tuple((fields[i] if i < len(fields) else str(i), ops[i]) for i in range(len(ops)))
                return ("agg", rv["adt"], rv["var"], named)
            if ak in ("closure", "coroutine", "coroutine_closure"):
                return ("closure", rv["def"], ops)
            return ("tuple", ops)
        return ("other", rv.get("s"))


def _try_of(x):
    """`x?` where x is a phi over the return paths of an inlined helper: the value continues only from the Ok/Some paths."""
    if x[0] == "awaitv":
        x = ("await", x[1])
    inner = x[1] if x[0] == "await" else x
    if inner[0] != "phi":
        return ("try", x)
    out = []
    for a in inner[1]:
        if a[0] == "agg" and a[2] in ("Ok", "Some"):
            out.append(dict(a[3]).get("0"))
        elif a[0] == "agg" and a[2] in ("Err", "None"):
            continue
        elif a[0] == "call" and (a[1] or "").endswith("from_residual"):
            continue
        else:
            out.append(("try", a))
    if not out:
        return ("try", x)
    return out[0] if all(o == out[0] for o in out) else ("phi", tuple(out))


def capture_expr(name):
    """Closure capture names: `_ref__self__time` (edition-2021 precise capture of self.time by
    reference) -> field(capture self, time)."""
    if name.startswith("_ref__"):
        name = name[6:]
    parts = name.split("__")
    e = ("capture", parts[0])
    for f in parts[1:]:
        if f:
            e = ("field", e, f)
    return e


def _expr_size(e):
    n = 0
    stack = [e]
    while stack and n <= 200:
        x = stack.pop()
        if isinstance(x, tuple) and x:
            n += 1
            stack.extend(y for y in x[1:] if isinstance(y, tuple))
    return n


def expr_children(e):
    k = e[0]
    if k in ("field", "variant", "index", "mutated", "proj?", "discr", "poll", "await", "awaitv", "try", "tryv", "tryerr"):
        return (e[1],)
    if k in ("un", "cast"):
        return (e[2],)
    if k == "call":
        return e[2] + ((e[3],) if len(e) > 3 else ())
    if k == "bin":
        return (e[2], e[3])
    if k == "agg":
        return tuple(x for _, x in e[3])
    if k == "closure":
        return e[2]
    if k in ("tuple", "phi"):
        return e[1]
    return ()


def expr_walk(e):
    """Yield every sub-expression (pre-order)."""
    stack = [e]
    while stack:
        x = stack.pop()
        if not isinstance(x, tuple) or not x:
            continue
        yield x
        stack.extend(expr_children(x))


def expr_str(e, depth=0):
    if not isinstance(e, tuple) or not e:
        return str(e)
    if depth > 12:
        return "…"
    k = e[0]
    if k in ("param", "var", "capture"):
        return str(e[1])
    if k == "local":
        return "_%s" % e[1]
    if k == "const":
        if e[1] is not None:
            return str(e[1])
        return "const(%s)" % short(e[2])
    if k == "fn":
        return "fn " + short(e[1])
    if k == "field":
        return "%s.%s" % (expr_str(e[1], depth + 1), e[2])
    if k == "variant":
        return "%s@%s" % (expr_str(e[1], depth + 1), e[2])
    if k == "index":
        return "%s[]" % expr_str(e[1], depth + 1)
    if k == "call":
        return "%s(%s)" % (short(e[1]), ", ".join(expr_str(a, depth + 1) for a in e[2]))
    if k == "bin":
        return "%s(%s, %s)" % (e[1], expr_str(e[2], depth + 1), expr_str(e[3], depth + 1))
    if k == "un":
        return "%s(%s)" % (e[1], expr_str(e[2], depth + 1))
    if k == "cast":
        return "(%s as %s)" % (expr_str(e[2], depth + 1), short(e[1]))
    if k == "discr":
        return "discr(%s)" % expr_str(e[1], depth + 1)
    if k == "agg":
        return "%s::%s{%s}" % (short(e[1]), e[2], ", ".join("%s: %s" % (n_, expr_str(x, depth + 1)) for n_, x in e[3]))
    if k == "closure":
        return "closure %s[%s]" % (short(e[1]), ", ".join(expr_str(x, depth + 1) for x in e[2]))
    if k == "tuple":
        return "(%s)" % ", ".join(expr_str(x, depth + 1) for x in e[1])
    if k == "phi":
        return "phi(%s)" % " | ".join(expr_str(x, depth + 1) for x in e[1])
    if k == "mutated":
        return "mut " + expr_str(e[1], depth + 1)
    if k in ("poll", "await", "awaitv"):
        return "%s(%s)" % (k, expr_str(e[1], depth + 1))
    if k in ("try", "tryv"):
        return "%s?" % expr_str(e[1], depth + 1)
    if k == "tryerr":
        return "err(%s)" % expr_str(e[1], depth + 1)
    return str(e)


def short(path):
    if path is None:
        return "?"
    # keep last two components of a path, drop generic noise
    p = re.sub(r"<([^<>]|<[^<>]*>)*>", "", path)
    parts = [x for x in p.split("::") if x]
    return "::".join(parts[-2:]) if parts else path


def mentions(e, pred):
    for x in expr_walk(e):
        if pred(x):
            return True
    return False


def mentions_field(e, name, base_pred=None):
    def p(x):
        if x[0] == "field" and x[2] == name:
            return base_pred is None or mentions(x[1], base_pred)
        return False

    return mentions(e, p)


def mentions_name(e, name):
    """A param / var / capture called `name`."""
    return mentions(e, lambda x: x[0] in ("param", "var", "capture") and x[1] == name)


def mentions_call(e, regex):
    r = re.compile(regex)
    return mentions(e, lambda x: x[0] == "call" and r.search(x[1] or "") is not None)


def mentions_const(e, value):
    return mentions(e, lambda x: x[0] == "const" and x[1] == value)


def mentions_constdef(e, regex):
    r = re.compile(regex)
    return mentions(e, lambda x: x[0] == "const" and isinstance(x[2], str) and r.search(x[2]) is not None)


# ---------------------------------------------------------------------------------------------
# guards
# ---------------------------------------------------------------------------------------------
NEG = {"Eq": "Ne", "Ne": "Eq", "Lt": "Ge", "Ge": "Lt", "Gt": "Le", "Le": "Gt"}
CALL_REL = [
    (re.compile(r"cmp::PartialEq.*::eq$|::eq$"), "Eq"),
    (re.compile(r"cmp::PartialEq.*::ne$|::ne$"), "Ne"),
    (re.compile(r"cmp::PartialOrd.*::lt$|::lt$"), "Lt"),
    (re.compile(r"cmp::PartialOrd.*::le$|::le$"), "Le"),
    (re.compile(r"cmp::PartialOrd.*::gt$|::gt$"), "Gt"),
    (re.compile(r"cmp::PartialOrd.*::ge$|::ge$"), "Ge"),
]


class Guard:
    """A fact that holds on an edge: kind in
       'rel'   : rel(op, a, b) is true
       'is'    : expr is variant `name` (discriminant switch / is_some / ? ...)
       'isnot' : expr is none of `names`
       'bool'  : expr (a bool valued call etc.) == truth
       'int'   : expr == value / 'intnot'
    """

    __slots__ = ("kind", "op", "a", "b", "name", "truth", "edge", "line", "macros", "enum", "alt")

    def __init__(self, kind, **kw):
        self.kind = kind
        self.op = kw.get("op")
        self.a = kw.get("a")
        self.b = kw.get("b")
        self.name = kw.get("name")
        self.truth = kw.get("truth")
        self.edge = kw.get("edge")
        self.line = kw.get("line")
        self.macros = kw.get("macros", ())
        self.enum = kw.get("enum")
        self.alt = None  # the same edge seen as `helper(..) == truth` when the relation came from an inlined helper

    def exprs(self):
        return [x for x in (self.a, self.b) if x is not None]

    def alts(self):
        """Other spellings of the same fact on the same edge (helper view, enum equality <-> variant test)."""
        x = self.alt
        n = 0
        while x is not None and n < 6:
            yield x
            x = x.alt
            n += 1

    def add_alt(self, g2):
        x = self
        n = 0
        while x.alt is not None and n < 6:
            x = x.alt
            n += 1
        x.alt = g2

    def mentions(self, pred):
        return any(mentions(e, pred) for e in self.exprs())

    def __repr__(self):
        if self.kind == "rel":
            return "%s(%s, %s)" % (self.op, expr_str(self.a), expr_str(self.b))
        if self.kind == "is":
            return "%s is %s" % (expr_str(self.a), self.name)
        if self.kind == "isnot":
            return "%s is-not {%s}" % (expr_str(self.a), ",".join(self.name))
        if self.kind == "bool":
            return "%s == %s" % (expr_str(self.a), self.truth)
        if self.kind == "int":
            return "%s == %s" % (expr_str(self.a), self.name)
        if self.kind == "intnot":
            return "%s not-in %s" % (expr_str(self.a), self.name)
        return self.kind


UNSIGNED = {"u8", "u16", "u32", "u64", "u128", "usize"}
SWAPREL = {"Eq": "Eq", "Ne": "Ne", "Lt": "Gt", "Gt": "Lt", "Le": "Ge", "Ge": "Le"}


def _canon_rel(op, a, b):
    """Boundary forms on unsigned values have one spelling: x<1 == x<=0 == (x==0); x>=1 == x>0 == (x!=0)."""
    def isk(e, k):
        return e[0] == "const" and e[1] == k and len(e) > 2 and e[2] in UNSIGNED
    if a[0] == "const" and b[0] != "const":
        op, a, b = SWAPREL[op], b, a
    if isk(b, 1) and op == "Lt":
        return "Eq", a, ("const", 0, b[2])
    if isk(b, 1) and op == "Ge":
        return "Ne", a, ("const", 0, b[2])
    if isk(b, 0) and op == "Gt":
        return "Ne", a, b
    if isk(b, 0) and op == "Le":
        return "Eq", a, b
    return op, a, b


def _bool_guard(e, truth, **kw):
    """Normalise a boolean expression with a truth value into a Guard."""
    while e[0] == "un" and e[1] == "Not":
        e = e[2]
        truth = not truth
    if e[0] == "bin" and e[1] in NEG:
        op = e[1] if truth else NEG[e[1]]
        op, a, b = _canon_rel(op, e[2], e[3])
        return Guard("rel", op=op, a=a, b=b, **kw)
    if e[0] == "call" and len(e) > 3:
        # a small local helper: try the relation it computes
        g = _bool_guard(e[3], truth, **kw)
        if g.kind in ("rel", "is"):
            g.alt = Guard("bool", a=("call", e[1], e[2]), truth=truth, **kw)
            return g
    if e[0] == "call":
        path = e[1] or ""
        if len(e[2]) == 2:
            for rx, op in CALL_REL:
                if rx.search(path):
                    op2 = op if truth else NEG[op]
                    op2, a, b = _canon_rel(op2, e[2][0], e[2][1])
                    return Guard("rel", op=op2, a=a, b=b, **kw)
        if len(e[2]) == 1:
            tail = path.rsplit("::", 1)[-1]
            m = {"is_some": ("Some", "None"), "is_none": ("None", "Some"), "is_ok": ("Ok", "Err"), "is_err": ("Err", "Ok")}
            if tail in m and ("option::Option" in path or "result::Result" in path):
                name = m[tail][0] if truth else m[tail][1]
                return Guard("is", a=e[2][0], name=name, **kw)
    return Guard("bool", a=e, truth=truth, **kw)


def _fieldless(prog, enum, v):
    a = prog.adts.get(enum)
    if a is None:
        return None
    for x in a["variants"]:
        if x["name"] == v:
            return not x["fields"]
    return None


def _enum_alts(prog, g):
    """`x == Enum::V` (derived PartialEq on a fieldless variant) and `match x { Enum::V => .. }` are one fact: give each guard the
    other spelling as an alternative, so a rule written against one form holds on the other."""
    def unwrap_dv(e):
        if e[0] == "call" and (e[1] or "").endswith("intrinsics::discriminant_value") and len(e[2]) == 1:
            return e[2][0]
        return e
    if g.kind == "rel" and g.op in ("Eq", "Ne"):
        a, b = unwrap_dv(g.a), unwrap_dv(g.b)
        for x, y in ((a, b), (b, a)):
            if y[0] == "agg" and not y[3] and x[0] != "agg" and _fieldless(prog, y[1], y[2]):
                vs = [n_ for _, n_ in prog.enum_variants(y[1])]
                if g.op == "Eq":
                    return [Guard("is", a=x, name=y[2], enum=y[1], edge=g.edge, line=g.line, macros=g.macros)]
                rest = [n_ for n_ in vs if n_ != y[2]]
                if len(rest) == 1:
                    return [Guard("is", a=x, name=rest[0], enum=y[1], edge=g.edge, line=g.line, macros=g.macros)]
                return [Guard("isnot", a=x, name=(y[2],), enum=y[1], edge=g.edge, line=g.line, macros=g.macros)]
    if g.kind == "rel" and g.op == "Eq":
        a, b = unwrap_dv(g.a), unwrap_dv(g.b)
        for x, y in ((a, b), (b, a)):
            if y[0] == "agg" and y[2] == "Some" and len(y[3]) == 1 and x[0] != "agg":
                inner = y[3][0][1]
                out = [Guard("is", a=x, name="Some", enum="std::option::Option", edge=g.edge, line=g.line, macros=g.macros)]
                if inner[0] == "agg" and not inner[3] and _fieldless(prog, inner[1], inner[2]):
                    out.append(Guard("is", a=("field", ("variant", x, "Some"), "0"), name=inner[2], enum=inner[1], edge=g.edge, line=g.line, macros=g.macros))
                return out
    if g.kind == "is" and g.enum == "try" and g.name in ("Continue", "Break") and g.a is not None:
        # `x?` continues exactly when x is Some / Ok (which of the two is fixed by x's type; a rule names the one that applies)
        names = ("Some", "Ok") if g.name == "Continue" else ("None", "Err")
        return [Guard("is", a=g.a, name=n_, enum=None, edge=g.edge, line=g.line, macros=g.macros) for n_ in names]
    if g.kind == "int" and isinstance(g.name, int):
        # `match x { 7 => .. }` and `if x == 7` are one fact
        return [Guard("rel", op="Eq", a=g.a, b=("const", g.name, None), edge=g.edge, line=g.line, macros=g.macros)]
    if g.kind == "intnot" and len(g.name) == 1 and isinstance(g.name[0], int):
        return [Guard("rel", op="Ne", a=g.a, b=("const", g.name[0], None), edge=g.edge, line=g.line, macros=g.macros)]
    if g.kind == "is" and g.name == "Some" and g.a is not None and g.a[0] == "call" and len(g.a[2]) == 2 and (g.a[1] or "").endswith("option::Option::zip"):
        # a.zip(b) is Some  <=>  a is Some and b is Some
        return [Guard("is", a=x, name="Some", enum="std::option::Option", edge=g.edge, line=g.line, macros=g.macros) for x in g.a[2]]
    if g.kind == "is" and g.enum and g.enum != "try" and _fieldless(prog, g.enum, g.name):
        return [Guard("rel", op="Eq", a=g.a, b=("agg", g.enum, g.name, ()), edge=g.edge, line=g.line, macros=g.macros)]
    return []


def switch_guards(body, sym, blk):
    out = _switch_guards(body, sym, blk)
    for _, g in out:
        try:
            for x in [g] + list(g.alts()):
                ex = _enum_alts(body.prog, x)
                if ex:
                    for e2 in ex:
                        g.add_alt(e2)
                    break
        except Exception:
            pass
    return out


def _switch_guards(body, sym, blk):
    """For the switch terminating `blk`: list of (target_block, Guard)."""
    t = body.blocks[blk].term
    if t.kind != "switch":
        return []
    a = t.d["a"]
    e = sym.operand_expr(a)
    ty = t.d["ty"]
    out = []
    kw = dict(line=t.line, macros=t.macros)
    targets = t.d["ts"]
    other = t.d["o"]
    other_live = body.blocks[other].term.kind != "unreachable" or bool(body.blocks[other].stmts)
    if e[0] == "discr":
        enum = e[2]
        inner = e[1]
        # `?` : discr(Try::branch(x)) -> x is Ok/Some on Continue
        names = []
        for v, bb in targets:
            nm = body.prog.variant_name(enum, v) if enum else None
            nm = nm if nm is not None else str(v)
            names.append(nm)
            out.append((bb, _variant_guard(inner, nm, enum, edge=(blk, bb), **kw)))
        if other_live:
            rest = None
            if enum:
                allv = [n_ for _, n_ in body.prog.enum_variants(enum)]
                rest = [n_ for n_ in allv if n_ not in names]
            if rest is not None and len(rest) == 1:
                out.append((other, _variant_guard(inner, rest[0], enum, edge=(blk, other), **kw)))
            else:
                out.append((other, Guard("isnot", a=inner, name=tuple(names), enum=enum, edge=(blk, other), **kw)))
        return out
    if ty == "bool":
        for v, bb in targets:
            out.append((bb, _bool_guard(e, bool(v), edge=(blk, bb), **kw)))
        if other_live:
            vals = [v for v, _ in targets]
            truth = True if vals == [0] else (False if vals == [1] else None)
            if truth is not None:
                out.append((other, _bool_guard(e, truth, edge=(blk, other), **kw)))
        return out
    # integer switch
    vals = []
    for v, bb in targets:
        vals.append(v)
        out.append((bb, Guard("int", a=e, name=v, edge=(blk, bb), **kw)))
    if other_live:
        out.append((other, Guard("intnot", a=e, name=tuple(vals), edge=(blk, other), **kw)))
    return out


_MAP_LIKE = re.compile(r"(option::Option|result::Result)<.*>::(map|copied|cloned|as_ref|as_mut|as_deref|inspect)$|(option::Option|result::Result)::(map|copied|cloned|as_ref|as_mut|as_deref|inspect)$")
_MAP_ERR = re.compile(r"result::Result(<.*>)?::map_err$")
_OK_OR = re.compile(r"option::Option(<.*>)?::(ok_or|ok_or_else)$")
_RES_OK = re.compile(r"result::Result(<.*>)?::ok$")


def _peel_variant(inner, name):
    """`x.map(f)` is Some/Ok exactly when x is; `x.map_err(f)` likewise; `x.ok_or(e)` is Ok/Err when x is Some/None; `r.ok()` is
    Some/None when r is Ok/Err. A variant test on the adapted value is the same test on the original."""
    for _ in range(4):
        if inner[0] != "call" or not inner[2]:
            break
        p_ = inner[1] or ""
        if _MAP_LIKE.search(p_) or _MAP_ERR.search(p_):
            inner = inner[2][0]
        elif _OK_OR.search(p_) and name in ("Ok", "Err"):
            inner, name = inner[2][0], ("Some" if name == "Ok" else "None")
        elif _RES_OK.search(p_) and name in ("Some", "None"):
            inner, name = inner[2][0], ("Ok" if name == "Some" else "Err")
        else:
            break
    return inner, name


def _variant_guard(inner, name, enum, **kw):
    if enum and (enum.endswith("option::Option") or enum.endswith("result::Result")):
        inner, name = _peel_variant(inner, name)
    # normalise `?`: Try::branch(x) is Continue  ==> x is Ok|Some (reported as 'Continue' on x)
    if inner[0] == "call" and inner[1] and inner[1].endswith("Try>::branch") and len(inner[2]) == 1:
        return Guard("is", a=inner[2][0], name="Continue" if name == "Continue" else "Break", enum="try", **kw)
    if inner[0] == "call" and inner[1] and "::Try" in inner[1] and inner[1].endswith("::branch") and len(inner[2]) == 1:
        return Guard("is", a=inner[2][0], name="Continue" if name == "Continue" else "Break", enum="try", **kw)
    return Guard("is", a=inner, name=name, enum=enum, **kw)


class GuardIndex:
    """All guards of a body, and the guards dominating a block."""

    def __init__(self, body, sym=None):
        self.body = body
        self.sym = sym or Sym(body)
        self.by_switch = {}
        live = body.live_blocks()
        for b in body.blocks:
            if b.idx in live and not b.cleanup and b.term.kind == "switch":
                self.by_switch[b.idx] = switch_guards(body, self.sym, b.idx)
        self._dom_cache = {}

    def all_guards(self):
        for blk, lst in self.by_switch.items():
            for tgt, g in lst:
                yield g
                for x in g.alts():
                    yield x

    def dominating(self, block, include_tracing=False, _depth=0):
        """Guards whose edge every path entry->block takes. Bool temporaries defined by
        constant arms (matches!, a && b stored in a let) are resolved through their single
        `true`/`false` definition block."""
        key = (block, include_tracing)
        if key in self._dom_cache:
            return self._dom_cache[key]
        body = self.body
        out = []
        for sblk, lst in self.by_switch.items():
            # group guards per target (several values may share a target)
            per_target = defaultdict(list)
            for tgt, g in lst:
                per_target[tgt].append(g)
            for tgt, gs in per_target.items():
                if not include_tracing and is_tracing(gs[0].macros):
                    continue
                if gs[0].a is not None and gs[0].a[0] == "poll":
                    continue  # `.await` readiness, not a program condition
                if body.edge_dominates((sblk, tgt), block):
                    if len(gs) == 1:
                        out.append(gs[0])
                        out.extend(gs[0].alts())
                        out.extend(self._resolve_bool_temp(gs[0], _depth))
                        out.extend(self._resolve_variant_temp(gs[0], _depth))
                    else:
                        # several values lead here: a disjunction, keep as 'oneof'
                        g0 = gs[0]
                        out.append(Guard("oneof", a=g0.a, name=tuple(str(g.name) for g in gs), edge=g0.edge, line=g0.line, macros=g0.macros, enum=g0.enum))
        self._dom_cache[key] = out
        return out

    def implied(self, g):
        """g together with what it implies: the helper view and, for bool temporaries, the guards of the defining arm(s)."""
        out = [g]
        out.extend(g.alts())
        out.extend(self._resolve_bool_temp(g, 0))
        out.extend(self._resolve_variant_temp(g, 0))
        return out

    def _through_copies(self, l):
        """`let flag = helper();` with `helper` inlined: the user variable is a plain copy of the helper's return slot (possibly through
        the hand-over blocks of return threading); the definitions that matter are the slot's."""
        body = self.body
        live = body.live_blocks()
        for _ in range(5):
            defs = [d for d in body.defs.get(l, []) if d[0] in live]
            if not defs or any(si == "term" for _, si in defs):
                return l
            srcs = set()
            for blk, si in defs:
                rv = body.blocks[blk].stmts[si].rv
                if rv["k"] != "use" or rv["a"].is_const() or not rv["a"].place.is_local():
                    return l
                srcs.add(rv["a"].place.local)
            if len(srcs) != 1:
                return l
            l = srcs.pop()
        return l

    def _tested_local(self, g, locs):
        """Several locals share the guard's variable name (shadowing): the one the guard's switch actually reads."""
        body = self.body
        if not g.edge:
            return locs
        t = body.blocks[g.edge[0]].term
        if t.kind != "switch" or t.d["a"].is_const():
            return locs
        cur = t.d["a"].place.local
        for _ in range(6):
            if cur in locs:
                return [cur]
            defs = body.defs.get(cur, [])
            if len(defs) != 1 or defs[0][1] == "term":
                break
            rv = body.blocks[defs[0][0]].stmts[defs[0][1]].rv
            if rv["k"] == "use" and not rv["a"].is_const() and rv["a"].place.is_local():
                cur = rv["a"].place.local
            elif rv["k"] == "un" and not rv["a"].is_const() and rv["a"].place.is_local():
                cur = rv["a"].place.local
            else:
                break
        return locs

    def _resolve_bool_tuple(self, g, depth):
        """`let (n, flag) = match r { Ok(c) => (c, true), Err(c) => (c, false) }; if flag ..`: the flag is a field of a tuple that every
        arm builds with a constant there; the guards dominating the unique arm that stores this truth value hold."""
        body = self.body
        name, k = g.a[1][1], int(g.a[2])
        locs = [int(name[1:])] if name.startswith("_") and name[1:].isdigit() else body.local_by_name(name)
        extra = []
        live = body.live_blocks()
        for l in locs:
            defs = [d for d in body.defs.get(l, []) if d[0] in live]
            if len(defs) < 2 or body.partial_writes(l):
                continue
            matching = []
            ok = True
            for blk, si in defs:
                if si == "term":
                    ok = False
                    break
                rv = body.blocks[blk].stmts[si].rv
                if rv["k"] != "agg" or rv.get("ak") != "tuple" or k >= len(rv["ops"]) or not rv["ops"][k].is_const() or rv["ops"][k].value() not in (0, 1):
                    ok = False
                    break
                if bool(rv["ops"][k].value()) == g.truth:
                    matching.append(blk)
            if ok and len(matching) == 1:
                extra.extend(self.dominating(matching[0], _depth=depth + 1))
        return extra

    def _leads_trivially(self, frm, to):
        cur = frm
        for _ in range(4):
            if cur == to:
                return True
            b = self.body.blocks[cur]
            if b.stmts or b.term.kind != "goto":
                return False
            cur = b.term.d["t"]
        return cur == to

    def _resolve_variant_temp(self, g, depth):
        """If g is `var is V` for a local that every live definition builds as a literal enum value (`let repeated = match .. { .. =>
        Some(x), _ => None }`) and exactly one of them builds V, the guards dominating that definition hold as well."""
        if depth > 4 or g.kind != "is" or g.a is None or g.a[0] not in ("var", "phi"):
            return []
        body = self.body
        if g.a[0] == "phi":
            # the return slot of an inlined helper (Sym.local_expr gives it as a phi over the helper's return paths)
            locs = [fr["ret"] for fr in getattr(body, "frames", ()) if self.sym.memo.get(fr["ret"]) == g.a]
        else:
            name = g.a[1]
            if name.startswith("_") and name[1:].isdigit():
                locs = [int(name[1:])]
            else:
                locs = body.local_by_name(name)
        extra = []
        live = body.live_blocks()
        locs = [self._through_copies(l) for l in locs]
        for l in locs:
            if 1 <= l <= body.argc or body.partial_writes(l):
                continue
            defs = [d for d in body.defs.get(l, []) if d[0] in live]
            if len(defs) < 2:
                continue
            matching = []
            computed = []
            ok = True
            for blk, si in defs:
                if si == "term":
                    t_ = body.blocks[blk].term
                    if t_.kind == "call" and (t_.d.get("f") or "").endswith("from_residual") and g.name in ("Some", "Ok"):
                        continue  # `?` leaving with None / Err
                    if t_.kind == "call" and not body.blocks[blk].cleanup:
                        computed.append((blk, si))
                        continue
                    ok = False
                    break
                rv = body.blocks[blk].stmts[si].rv
                if rv["k"] == "agg" and rv.get("ak") == "enum":
                    if rv.get("var") == g.name:
                        matching.append(blk)
                elif rv["k"] == "use" and not rv["a"].is_const():
                    computed.append((blk, si))
                else:
                    ok = False
                    break
            if ok and len(matching) == 1 and not computed:
                extra.extend(self.dominating(matching[0], _depth=depth + 1))
            elif ok and not matching and len(computed) == 1:
                # `let m = match s { Some(s) => s.check(..), None => Err(E) }; match m { Ok(()) => ..`: m can only be V through the
                # computed arm, so that arm's guards hold and so does `computed value is V`
                blk, si = computed[0]
                extra.extend(self.dominating(blk, _depth=depth + 1))
                try:
                    e = self.sym.def_expr(blk, si)
                    if e != g.a:
                        g2 = Guard("is", a=e, name=g.name, enum=g.enum, edge=g.edge, line=g.line, macros=g.macros)
                        extra.append(g2)
                        extra.extend(self._resolve_variant_temp(g2, depth + 1))
                except Exception:
                    pass
        return extra

    def _resolve_bool_temp(self, g, depth):
        """If g is `var == truth` for a bool local assigned constants in several blocks, the
        guards dominating the unique block that assigns that truth value also hold."""
        if depth > 4 or g.kind != "bool":
            return []
        if g.a[0] == "field" and g.a[1][0] == "var" and g.a[2].isdigit():
            return self._resolve_bool_tuple(g, depth)
        if g.a[0] not in ("var", "phi"):
            return []
        body = self.body
        # find the local
        if g.a[0] == "phi":
            # the return slot of an inlined helper (Sym.local_expr gives it as a phi over the helper's return paths)
            locs = [fr["ret"] for fr in getattr(body, "frames", ()) if self.sym.memo.get(fr["ret"]) == g.a]
        else:
            name = g.a[1]
            locs = []
            if name.startswith("_") and name[1:].isdigit():
                locs = [int(name[1:])]
            else:
                locs = body.local_by_name(name)
        if len(locs) > 1:
            locs = self._tested_local(g, locs)
        locs = [self._through_copies(l) for l in locs]
        extra = []
        for l in locs:
            defs = [d for d in body.defs.get(l, []) if d[0] in body.live_blocks()]
            matching = []
            computed = []  # arms that store a computed bool (the `b` of a stored `a && b` / `a || b`, a helper's tail expression)
            ok = True
            for blk, si in defs:
                if si == "term":
                    if body.blocks[blk].term.kind == "call" and not body.blocks[blk].cleanup:
                        computed.append((blk, si))
                        continue
                    ok = False
                    break
                rv = body.blocks[blk].stmts[si].rv
                if rv["k"] == "use" and rv["a"].is_const() and rv["a"].value() in (0, 1):
                    if bool(rv["a"].value()) == g.truth:
                        matching.append(blk)
                elif rv["k"] in ("use", "bin", "un"):
                    computed.append((blk, si))
                else:
                    ok = False
                    break
            if ok and not matching and len(computed) == 1 and len(defs) > 1:
                # the only way to hold this truth value is the computed arm: what dominates it holds, and so does `expr == truth`
                blk, si = computed[0]
                # ... and no overriding constant (`if c { flag = false }` after the computed value) was stored since: the branch that
                # stores it was not taken, so the guard of the opposite edge of that two-way branch holds
                U = g.edge[0] if g.edge else None
                if U is not None:
                    for cb, csi in defs:
                        if (cb, csi) == (blk, si):
                            continue
                        for S, lst in self.by_switch.items():
                            if len({t for t, _ in lst}) != 2 or len(lst) != 2:
                                continue
                            for tgt, gg in lst:
                                if self._leads_trivially(tgt, cb) and body.edge_dominates((S, tgt), cb) and body.block_dominates(S, U) and body.block_dominates(blk, S):
                                    for t2, g2 in lst:
                                        if t2 != tgt:
                                            extra.append(g2)
                                            extra.extend(g2.alts())
                extra.extend(self.dominating(blk, _depth=depth + 1))
                try:
                    e = self.sym.def_expr(blk, si)
                    g2 = _bool_guard(e, g.truth, edge=g.edge, line=g.line, macros=g.macros)
                    if g2 is not None and not (g2.kind == "bool" and g2.a == g.a):
                        extra.append(g2)
                        extra.extend(g2.alts())
                        extra.extend(self._resolve_bool_temp(g2, depth + 1))
                except Exception:
                    pass
            elif ok and computed:
                pass  # a disjunction over computed arms: nothing simple holds
            elif ok and len(matching) == 1:
                extra.extend(self.dominating(matching[0], _depth=depth + 1))
            elif ok and len(matching) > 1:
                # several arms assign this truth value: what holds is the disjunction; variant tests on one
                # expression merge into a 'oneof', anything common to all arms is kept as is
                per = [self.dominating(m, _depth=depth + 1) for m in matching]
                first = per[0]
                for g0 in first:
                    if g0.kind in ("is", "oneof"):
                        names = []
                        for lst in per:
                            hit = [x for x in lst if x.kind in ("is", "oneof") and x.a == g0.a]
                            if not hit:
                                names = None
                                break
                            # the most specific (innermost) test on that expression in this arm
                            x = hit[-1]
                            names.extend([x.name] if x.kind == "is" else list(x.name))
                        if names:
                            uniq = tuple(sorted(set(str(n_) for n_ in names)))
                            if len(uniq) == 1:
                                extra.append(Guard("is", a=g0.a, name=uniq[0], edge=g.edge, line=g.line, macros=g.macros, enum=g0.enum))
                            else:
                                extra.append(Guard("oneof", a=g0.a, name=uniq, edge=g.edge, line=g.line, macros=g.macros, enum=g0.enum))
                    elif all(any(repr(x) == repr(g0) for x in lst) for lst in per[1:]):
                        extra.append(g0)
        return extra


def fmt_guards(gs):
    return [repr(g) for g in gs]
