"""C19 — master scheduling: requests first and in order, polls on period, one at a time."""
from engine import *
from mir import *

EXPLANATION = (
    "AssociationMap::next_task consults every association's user queue (priority_task) before any automatic/poll work; within an "
    "association the order is automatic tasks, polls, link status. The request queue is used only through push_back / pop_front / len "
    "(FIFO). Both `Now` returns of next_task rotate the serviced association to the back. A poll's next due time is now + period taken at "
    "completion (success or failure), demand sets it to now, and a poll is due only when next <= now. A keep-alive is due only when "
    "now >= deadline, and the deadline is re-armed from keep_alive_timeout on every received fragment or link message. Only send_request, "
    "the two confirms and the link status task transmit, and the session awaits run_task to completion before asking for the next task."
)
ASSUMPTIONS = ["cadence, fairness, non-starvation and absence of busy-waiting over unbounded schedules are not decided"]
TRUSTED = ["rustc nightly MIR", "facts driver", "rules/mir.py"]


def r1(ctx):
    prog = ctx.prog
    bd = prog.body("master::association::AssociationMap::next_task")
    pr = call_sites(bd, r"Association::priority_task$")
    nt = call_sites(bd, r"Association::next_task$")
    if len(pr) != 1 or len(nt) != 1:
        raise AnchorError("AssociationMap::next_task: sites")
    ctx.check(not bd.can_reach(nt[0].idx, pr[0].idx), "user-queue-first", "the user-request pass precedes the automatic/poll pass and is never re-entered from it", bd.where(nt[0].idx))
    # the second loop is reached only when the first loop's iterator is exhausted
    firsts = [g for g in ctx.gi(bd).all_guards() if g.kind == "is" and g.name == "None" and mentions_call(g.a, r"::next$") and bd.can_reach(g.edge[1], nt[0].idx) and not bd.can_reach(nt[0].idx, g.edge[0])]
    ctx.check(bool(firsts) and bd.edge_dominates(firsts[0].edge, nt[0].idx), "auto-pass-after-queues-empty", "automatic work is considered only after every association's queue was polled", bd.where(nt[0].idx), bad_detail="Association::next_task is reachable before all user queues were consulted")
    pt = prog.body("master::association::Association::priority_task")
    ctx.check(bool(call_sites(pt, r"VecDeque.*::pop_front$")) and bool(call_sites(pt, r"Task::start$")), "priority_task:pop_front", "priority_task pops the oldest request", pt.where(line=pt.line))
    gb = prog.body("master::association::Association::get_next_task")
    nx = call_sites(gb, r"TaskStates::next$")
    pl = call_sites(gb, r"PollMap::next$")
    ls = call_sites(gb, r"Association::next_link_status_task$")
    ctx.check(len(nx) == 1 and len(pl) == 1 and len(ls) >= 1 and gb.block_dominates(nx[0].idx, pl[0].idx) and all(gb.block_dominates(pl[0].idx, x.idx) for x in ls), "association-order", "auto, then polls, then link status", gb.where(line=gb.line))
    for b, si, st, e in ret_sites(gb, ctx.sym(gb)):
        if variant_name(e) == "Now" and mentions(e, lambda s: s[0] == "agg" and s[2] == "PeriodicPoll"):
            ctx.require_guards(gb, b.idx, [("polls.next(now) is Now", g_is(lambda x: mentions_call(x, r"PollMap::next$"), "Now"))], "poll-now", "running a poll")


def r2(ctx):
    prog = ctx.prog
    methods = {}
    for bd in prog.bodies.values():
        if "::tests::" in bd.path or not bd.path.startswith("dnp3::master::"):
            continue
        sym = None
        for b in bd.calls():
            t = b.term
            if not t.d["args"]:
                continue
            a0 = t.d["args"][0]
            if a0.kind == "const":
                continue
            sym = sym or ctx.sym(bd)
            e = sym.operand_expr(a0)
            if e[0] == "field" and e[2] == "request_queue":
                methods.setdefault((t.callee or t.declared).split("::")[-1], []).append((bd, b))
    allowed = {"push_back", "pop_front", "len"}
    for m, sites in methods.items():
        ctx.check(m in allowed, "queue-method:%s" % m, "request_queue.%s (%d sites)" % (m, len(sites)), sites[0][0].where(sites[0][1].idx), bad_detail="request_queue.%s breaks FIFO order of user requests" % m)
    ctx.check({"push_back", "pop_front"} <= set(methods), "queue-methods:fifo", "the queue is filled at the back and drained from the front", "")


def r3(ctx):
    prog = ctx.prog
    bd = prog.body("master::association::AssociationMap::next_task")
    sym = ctx.sym(bd)
    nows = [(b, e) for b, si, st, e in ret_sites(bd, sym) if variant_name(e) == "Now"]
    ctx.check(len(nows) == 2, "two-Now-returns", "two `Now` returns (user request / automatic work)", bd.where(line=bd.line))
    rm = {b.idx for b in call_sites(bd, r"VecDeque.*::remove$")}
    pb = {b.idx for b in call_sites(bd, r"VecDeque.*::push_back$")}
    k = 0
    for b, e in nows:
        k += 1
        # the rotation is conditional on remove() returning Some; require the remove on every path and the push_back on the Some edge
        ok = bool(rm) and not bd.can_reach(0, b.idx, removed_blocks=rm)
        ctx.check(ok, "rotate#%d:remove" % k, "the serviced association is removed from its priority slot before returning", bd.where(b.idx), bad_detail="a `Now` return is reachable without rotating the association: one association can starve the others")
        somes = [g for g in ctx.gi(bd).all_guards() if g.kind == "is" and g.name == "Some" and mentions_call(g.a, r"VecDeque.*::remove$")]
        ok2 = any(any(p in region_of(bd, g) for p in pb) and bd.can_reach(g.edge[1], b.idx) for g in somes)
        ctx.check(ok2, "rotate#%d:push_back" % k, "…and appended at the back", bd.where(b.idx))
    for c in call_sites(bd, r"VecDeque.*::remove$"):
        e = sym.call_expr(c.term)
        ctx.check(mentions_field(e[2][0], "priority") and mentions(e[2][1], lambda s: s[0] == "call" and "enumerate" in (s[1] or "").lower() or s[0] == "var" or s[0] == "field"), "rotate:index@%d" % (c.term.line - bd.line), "priority.remove(index of the serviced association)", bd.where(c.idx))


def r4(ctx):
    prog = ctx.prog
    rb = prog.body("master::poll::Poll::reset_next")
    rs = ctx.sym(rb)
    ws = field_writes(rb, "next")
    ok = len(ws) == 1 and mentions_call(rs.rvalue_expr(ws[0][2].rv), r"Instant::now$") and mentions_call(rs.rvalue_expr(ws[0][2].rv), r"Instant::checked_add$") and mentions_field(rs.rvalue_expr(ws[0][2].rv), "period")
    ctx.check(ok, "reset_next:now+period", "next = Instant::now().checked_add(period)", rb.where(line=rb.line), bad_detail="Poll::reset_next = %s" % (expr_str(rs.rvalue_expr(ws[0][2].rv)) if ws else None))
    db = prog.body("master::poll::Poll::demand")
    ws = field_writes(db, "next")
    ok = len(ws) == 1 and mentions_call(ctx.sym(db).rvalue_expr(ws[0][2].rv), r"Instant::now$") and not mentions_field(ctx.sym(db).rvalue_expr(ws[0][2].rv), "period")
    ctx.check(ok, "demand:now", "demand sets next = now", db.where(line=db.line))
    if ws:
        dv = ctx.sym(db).rvalue_expr(ws[0][2].rv)
        exact = dv[0] == "agg" and dv[2] == "Some" and dv[3][0][1][0] == "call" and (dv[3][0][1][1] or "").endswith("Instant::now")
        ctx.check(exact, "demand:exactly-now", "demand sets next = Some(Instant::now()) unconditionally (%s)" % expr_str(dv)[:60], db.where(line=db.line), bad_detail="Poll::demand sets next = `%s`: a poll with no scheduled execution (next == None) cannot be demanded" % expr_str(dv)[:80])
    ib = prog.body("master::poll::Poll::is_ready")
    isym = ctx.sym(ib)
    trues = [(b, e) for b, si, st, e in ret_sites(ib, isym)]
    txt = " ".join(expr_str(e) for _, e in trues) + " | " + " ".join(repr(g) for g in ctx.gi(ib).all_guards())
    ok = any((e[0] == "call" and re.search(r"PartialOrd.*::le$|::le$", e[1]) and mentions_name(e[2][1], "now")) or (e[0] == "bin" and e[1] == "Le") for _, e in trues) or "Le(" in txt
    ctx.check(ok, "is_ready:next<=now", "a poll is ready only when next <= now (%s)" % txt[:120], ib.where(line=ib.line))
    ctx.check(any(const_value(prog, e) == 0 for _, e in trues), "is_ready:none=false", "a poll without a due time is not ready", ib.where(line=ib.line))
    nb = prog.body("master::poll::PollMap::next")
    for b, si, st, e in ret_sites(nb, ctx.sym(nb)):
        if variant_name(e) == "Now":
            def found_ready(g):
                # the same selection written as polls.values().find(|p| p.is_ready(now)): a poll found by that predicate is ready
                if g.kind != "is" or g.name != "Some" or not mentions_call(g.a, r"Iterator::find$|::find$"):
                    return False
                for x in expr_walk(g.a):
                    if x[0] == "closure":
                        cb_ = prog.bodies.get(x[1])
                        if cb_ is not None and call_sites(cb_, r"Poll::is_ready$"):
                            return True
                return False
            ctx.require_guards(nb, b.idx, [("poll.is_ready(now)", g_any(g_bool(lambda x: mentions_call(x, r"Poll::is_ready$"), True), found_ready))], "PollMap::next:Now", "returning a poll to run")
    cb = prog.body("master::poll::PollMap::complete")
    ctx.check(bool(call_sites(cb, r"Poll::reset_next$")), "PollMap::complete", "complete reschedules from now", cb.where(line=cb.line))
    # a failed periodic poll is rescheduled whatever the failure was (an IIN2 rejection included)
    eb_ = prog.body("master::tasks::ReadTask::on_task_error")
    parm = arm_edges(ctx, eb_, g_is(lambda x: x == ("param", "self"), "PeriodicPoll"))
    if len(parm) != 1:
        raise AnchorError("ReadTask::on_task_error: PeriodicPoll arm")
    reg_ = region_of(eb_, parm[0])
    cps = [c for c in call_sites(eb_, r"Association::complete_poll$") if c.idx in reg_]
    gs_extra = []
    for c in cps:
        gs_extra += [g for g in ctx.guards_at(eb_, c.idx) if not (g.kind == "is" and (g.a == ("param", "self") or g.a == ("param", "association")))]
    ctx.check(len(cps) == 1 and not gs_extra, "poll-failure:always-rescheduled", "a failed periodic poll is rescheduled under no condition other than 'the association exists'", eb_.where(parm[0].edge[1]), bad_detail="rescheduling a failed periodic poll also depends on %s: for the excluded failures the poll stays due and is re-issued back to back" % [repr(g)[:60] for g in gs_extra])
    # both completion and failure of a periodic poll reschedule it
    for fn_ in ("master::tasks::ReadTask::complete", "master::tasks::ReadTask::on_task_error"):
        bd = prog.body(fn_)
        arms = arm_edges(ctx, bd, g_is(lambda x: x == ("param", "self"), "PeriodicPoll"))
        if len(arms) != 1:
            raise AnchorError("%s: PeriodicPoll arm" % fn_)
        hits = calls_in_blocks(prog, bd, region_of(bd, arms[0]), r"Association::complete_poll$")
        ctx.check(bool(hits), "reschedule@%s" % fn_.split("::")[-1], "a periodic poll is rescheduled on %s" % fn_.split("::")[-1], bd.where(arms[0].edge[1]), bad_detail="a periodic poll is not rescheduled on %s: it either never runs again or runs continuously" % fn_.split("::")[-1])
    ab = prog.body("master::association::Association::complete_poll")
    ctx.check(bool(call_sites(ab, r"PollMap::complete$")), "complete_poll->PollMap::complete", "Association::complete_poll forwards", ab.where(line=ab.line))
    pm = prog.body("master::association::Association::process_poll_message")
    dm = call_sites(pm, r"PollMap::demand$")
    ctx.check(len(dm) == 1, "demand:routed", "PollMsg::Demand reaches PollMap::demand", pm.where(line=pm.line))
    for c in dm:
        ctx.require_guards(pm, c.idx, [("msg is Demand", g_is(lambda x: x == ("param", "msg"), "Demand"))], "demand:arm", "PollMap::demand")


def r5(ctx):
    prog = ctx.prog
    bd = prog.body("master::association::Association::next_link_status_task")
    sym = ctx.sym(bd)
    for b, si, st, e in ret_sites(bd, sym):
        v = variant_name(e)
        if v == "Now":
            ctx.require_guards(bd, b.idx, [("deadline is Some", g_is("next_link_status_deadline", "Some")), ("now >= deadline", g_rel("Ge", lambda x: x == ("param", "now"), lambda x: mentions_field(x, "next_link_status_deadline")))], "keepalive:Now", "sending a keep-alive")
            ctx.check(mentions(e, lambda s: s[0] == "agg" and s[2] == "LinkStatus"), "keepalive:task", "the task is Task::LinkStatus", bd.where(b.idx))
        elif v == "NotBefore":
            ctx.check(mentions_field(e, "next_link_status_deadline"), "keepalive:NotBefore", "otherwise wait until the deadline", bd.where(b.idx))
    ob = prog.body("master::association::Association::on_link_activity")
    ws = field_writes(ob, "next_link_status_deadline")
    ok = len(ws) == 1 and mentions_field(ctx.sym(ob).rvalue_expr(ws[0][2].rv), "keep_alive_timeout")
    ctx.check(ok, "keepalive:rearm", "on_link_activity re-arms from config.keep_alive_timeout", ob.where(line=ob.line))
    cl = list(prog.children(ob))
    # the mapping closure may have become a nested fn `fn deadline_after(..)` handed to `map` by name
    for b_, si_, st_ in ob.assigns():
        pass
    for x_ in ob.calls():
        for a_ in ctx.sym(ob).call_expr(x_.term)[2] if ctx.sym(ob).call_expr(x_.term)[0] == "call" else ():
            if a_[0] == "fn" and a_[1] in prog.bodies and a_[1].startswith(ob.path + "::"):
                cl.append(prog.bodies[a_[1]])
    ok = any(any(mentions_call(ctx.sym(c).call_expr(x.term), r"Instant::now$") or (x.term.callee or "").endswith("Instant::now") for x in c.calls()) for c in cl)
    ctx.check(ok, "keepalive:rearm:now+timeout", "deadline = now + timeout", ob.where(line=ob.line))
    # called on every received fragment / link message path
    nb = prog.body("master::task::MasterSession::notify_link_activity")
    ctx.check(bool(call_sites(nb, r"Association::on_link_activity$")), "notify_link_activity", "notify_link_activity forwards to the association", nb.where(line=nb.line))
    for fn_ in ("idle_forever", "idle_until", "run_single_non_read_task", "execute_read_task", "run_link_status_task"):
        b2 = prog.abody("master::task::MasterSession::" + fn_)
        pops = call_sites(b2, r"TransportReader::pop_response$")
        notes = call_sites(b2, r"MasterSession::notify_link_activity$")
        ctx.check(len(pops) == 1 and len(notes) >= 2, "link-activity@%s" % fn_, "%s notes link activity for fragments and link messages (%d sites)" % (fn_, len(notes)), b2.where(line=b2.line), bad_detail="%s does not re-arm the keep-alive timer on received traffic" % fn_)
        for n_ in notes:
            gs = ctx.guards_at(b2, n_.idx)
            ctx.check(any(g.kind == "is" and g.name in ("Response", "LinkLayerMessage") for g in gs), "link-activity@%s:arm#%d" % (fn_, notes.index(n_)), "in a Response / LinkLayerMessage arm", b2.where(n_.idx))


def r6(ctx):
    prog = ctx.prog
    cg = prog.callgraph
    allowed = {prog.abody("master::task::MasterSession::" + f).path for f in ("send_request", "confirm_solicited", "confirm_unsolicited", "run_link_status_task")}
    n = 0
    for path, blk, callee, how in cg.callers_of(lambda c: re.search(r"transport::writer::TransportWriter::(write|send_link_status_request)$", c) is not None):
        if not path.startswith("dnp3::master::") or "::tests::" in path:
            continue
        n += 1
        ctx.check(path in allowed, "tx-site@%s" % short(path), "%s transmits via %s" % (short(path), short(callee)), prog.bodies[path].where(blk), bad_detail="%s transmits outside the four sending functions" % path)
    ctx.check(n == 4, "tx-sites:count", "four transmit sites in the master (%d)" % n, "")
    # who calls send_request
    sr = {p for p, blk, c, how in cg.callers_of(lambda c: c.endswith("MasterSession::send_request"))}
    want = {prog.abody("master::task::MasterSession::run_single_non_read_task").path, prog.abody("master::task::MasterSession::execute_read_task").path}
    ctx.check(sr == want, "send_request-callers", "requests are sent only by the two task runners (%s)" % sorted(short(x) for x in sr), "")
    run = prog.abody("master::task::MasterSession::run")
    gt = call_sites(run, r"MasterSession::get_next_task$")
    rt = call_sites(run, r"MasterSession::run_task$")
    ctx.check(len(gt) == 1 and len(rt) == 1, "session-loop:sites", "one get_next_task and one run_task in the session loop", run.where(line=run.line))
    if gt and rt:
        # run_task's future is awaited in this coroutine before the loop can come back to get_next_task
        sym = ctx.sym(run)
        e = sym.call_expr(rt[0].term)
        awaited = any(mentions(sym.call_expr(b.term) if b.term.kind == "call" else ("other", None), lambda s: s == e) and (b.term.declared or "").endswith("Future::poll") for b in run.calls()) or any((b.term.declared or "").endswith("Future::poll") for b in run.calls())
        ctx.check(awaited, "session-loop:awaits-run_task", "run_task is awaited inside the session coroutine (no spawn)", run.where(rt[0].idx))
        ctx.check(not calls_in_blocks(prog, run, run.live_blocks(), r"tokio::task::spawn$|tokio::spawn$"), "session-loop:no-spawn", "tasks are not spawned concurrently", run.where(line=run.line))
        ctx.require_guards(run, rt[0].idx, [("get_next_task() is Now", g_is(lambda x: mentions_call(x, r"get_next_task$"), "Now"))], "session-loop:run-only-Now", "run_task")
    # NotBefore -> idle_until(time); None -> idle_forever
    for c in call_sites(run, r"MasterSession::idle_until$"):
        ctx.require_guards(run, c.idx, [("NotBefore", g_is(lambda x: mentions_call(x, r"get_next_task$"), "NotBefore"))], "session-loop:idle_until", "idle_until")
        e = ctx.sym(run).call_expr(c.term)
        ctx.check(mentions(e[2][1], lambda s: s[0] == "variant" and s[2] == "NotBefore"), "session-loop:idle_until:time", "sleeps until the earliest deadline", run.where(c.idx))
    for c in call_sites(run, r"MasterSession::idle_forever$"):
        ctx.require_guards(run, c.idx, [("None", g_is(lambda x: mentions_call(x, r"get_next_task$"), "None"))], "session-loop:idle_forever", "idle_forever")
    iu = prog.abody("master::task::MasterSession::idle_until")
    ctx.check(bool(calls_in_blocks(prog, iu, iu.live_blocks(), r"tokio::time::sleep_until$|time::sleep::sleep_until$")), "idle_until:sleeps", "idle_until sleeps on a timer", iu.where(line=iu.line))


def r_plumb(ctx):
    namesake_plumbing(ctx, ctx.prog, r"^(<)?dnp3::master::", 40, "plumbing")
    arg_namesakes(ctx, ctx.prog)


def r_activity(ctx):
    """'a keep-alive link status request is sent only after the configured silence': the silence of an association ends when a
    fragment FROM IT arrives - link activity is credited to the address popped with the fragment, never to the destination of the
    task that happens to be waiting (multi-drop: F16). Shared code with C15.R8 (address plumbing)."""
    import c15
    c15.r8(ctx)


def r9(ctx):
    """'when nothing is due the master sleeps until the EARLIEST deadline': where an association has both a next-poll time and a
    keep-alive time, the NotBefore it reports is their minimum. 'User requests are executed in the order submitted and ahead of
    periodic polls': a queued request that cancels itself at its pre-send step does not hide the requests queued behind it - the
    queue is drained until one starts or it is empty."""
    prog = ctx.prog
    gb = prog.body("master::association::Association::get_next_task")
    gs = ctx.sym(gb)
    ls = lambda x: mentions_call(x, r"Association::next_link_status_task$")
    nt = lambda x: mentions_call(x, r"Association::next_task$|TaskStates::next$|Association::next_\w+$") and not ls(x)
    both = 0
    for b, si, st, e in ret_sites(gb, gs):
        if not (e[0] == "agg" and e[2] == "NotBefore"):
            continue
        gds = ctx.guards_at(gb, b.idx)
        poll_nb = any(g.kind == "is" and g.name == "NotBefore" and not ls(g.a) for g in gds)
        link_nb = any(g.kind == "is" and g.name == "NotBefore" and ls(g.a) for g in gds)
        if poll_nb and link_nb:
            both += 1
            v = agg_field(e, "0")
            ctx.check(mentions_call(v, r"::min$") and mentions(v, lambda x: x[0] == "field" and ls(x)) and mentions(v, lambda x: x[0] == "field" and not ls(x) and x[1][0] == "variant"), "not-before:min-of-both", "NotBefore(min(next poll, next keep-alive)): %s" % expr_str(v)[:90], gb.where(b.idx), bad_detail="with both a next poll and a next keep-alive pending get_next_task reports NotBefore(%s): the master can sleep past the earlier deadline" % expr_str(v)[:80])
    ctx.check(both >= 1, "not-before:both-pending-arm", "get_next_task has an arm for 'poll later AND keep-alive later'", gb.where(line=gb.line), bad_detail="get_next_task never distinguishes the case where both the next poll and the next keep-alive lie in the future: it cannot be returning the earlier of the two")
    pb = prog.body("master::association::Association::priority_task")
    ps = ctx.sym(pb)
    pops = call_sites(pb, r"VecDeque<.*>::pop_front$|::pop_front$")
    if len(pops) != 1:
        raise AnchorError("priority_task: pop_front sites %d" % len(pops))
    lp = innermost_loop(pb, pops[0].idx)
    ctx.check(lp is not None, "priority_task:drains", "priority_task pops in a loop", pb.where(pops[0].idx), bad_detail="priority_task pops a single request: if it cancels itself at start() the requests queued behind it are treated as absent (polls overtake them, or the master idles with work pending)")
    empty = g_is(lambda x: mentions_call(x, r"pop_front$"), "None")
    for b, si, st, e in ret_sites(pb, ps):
        if e[0] == "agg" and e[2] == "None" or (e[0] == "const"):
            ctx.require_guards(pb, b.idx, [("queue is empty", empty)], "priority_task:None-only-when-empty", "returning None")
        elif e[0] not in ("agg",) and not mentions(e, lambda x: x[0] == "variant" and x[2] == "Some"):
            # `task.start(self)` returned as is: a None from start() would end the search with requests still queued
            ctx.check(False, "priority_task:None-only-when-empty", "", pb.where(b.idx), bad_detail="priority_task returns `%s` directly: a request that cancels itself ends the search although others are queued" % expr_str(e)[:60])


RULES = [
    ("C19.R1", "T2-order", "user queue before automatic work; auto, polls, link status inside an association", r1),
    ("C19.R2", "T5", "the request queue is used FIFO only", r2),
    ("C19.R3", "T3", "both Now returns rotate the serviced association", r3),
    ("C19.R4", "T8/T5", "poll rescheduling from completion; demand; readiness test", r4),
    ("C19.R5", "T2/T5", "keep-alive only after the deadline; re-armed on all received traffic", r5),
    ("C19.R6", "T5/T3", "single writer of requests; tasks are awaited one at a time", r6),
    ("C19.R7", "T8-namesake", "the master's scheduling configuration (keep-alive, poll periods) is plumbed field-to-namesake", r_plumb),
    ("C19.R8", "T8", "link activity is credited to the sender of the fragment (address plumbing, shared with C15.R8)", r_activity),
    ("C19.R9", "T8/T2-loop", "NotBefore is the earlier of next poll and next keep-alive; the user queue is drained until a request starts", r9),
]


def r10(ctx):
    """'polls and keep-alives are not starved': a failed or rejected automatic task is re-armed through ITS OWN failure hook with a
    back-off (never left Pending with no delay, which re-issues it back-to-back and gates everything behind it) - the hook table and
    the back-off arithmetic are rule C17.R5 (shared code)."""
    import c17
    c17.r5(ctx)


RULES.append(("C19.R10", "T4-namesake/T8", "a rejected automatic task backs off through its own failure hook (shared with C17.R5)", r10))
