"""C18 — time synchronisation sets the outstation's clock to the master's."""
from engine import *
from mir import *

EXPLANATION = (
    "The failure clause in full: report_success in both final steps is dominated by an empty response and a cleared NEED_TIME bit, and every "
    "other return of the time-sync handlers passes report_error; in the non-LAN procedure the transition to WRITE is dominated by a "
    "non-negative round trip, a single g52v2, round-trip >= reported delay (checked_sub), an available system time and a 48-bit-safe "
    "checked_add, each failing edge reporting the namesake error. Provenance: the written time derives from get_system_time(), the measured "
    "interval and the outstation's delay, and the propagation delay passes through a halving; on the outstation the written time derives from "
    "the request's time plus (now - last_recorded_time), each step guarded, and the recorded instant is consumed before the application call "
    "and set only by RECORD_CURRENT_TIME."
)
ASSUMPTIONS = ["the accuracy bounds themselves (arithmetic over delays) are not decided", "interleaved unrelated traffic is covered structurally by C15.R1"]
TRUSTED = ["rustc nightly MIR", "facts driver", "rules/mir.py"]

T = "master::tasks::time::TimeSyncTask::"


def top_call(rx):
    r = re.compile(rx)
    return lambda x: x[0] == "call" and r.search(x[1] or "") is not None



def r1(ctx):
    prog = ctx.prog
    for fn_ in ("handle_write_absolute_time", "handle_write_last_recorded_time"):
        bd = prog.body(T + fn_)
        sym = ctx.sym(bd)
        ok_s = call_sites(bd, r"TimeSyncTask::report_success$")
        ctx.check(len(ok_s) == 1, "%s:one-success" % fn_, "one report_success", bd.where(line=bd.line))
        for c in ok_s:
            ctx.require_guards(bd, c.idx, [
                ("response has no objects", g_bool(lambda x: mentions_field(x, "raw_objects") and mentions_call(x, r"::is_empty$"), True)),
                ("NEED_TIME cleared", g_bool(lambda x: mentions_call(x, r"Iin1::get_need_time$") and mentions_name(x, "response"), False)),
            ], "%s:success" % fn_, "report_success")
        outcome = {b.idx for b in call_sites(bd, r"TimeSyncTask::report_(success|error)$")}
        for b, si, st, e in ret_sites(bd, sym):
            ctx.check(not bd.can_reach(0, b.idx, removed_blocks=outcome), "%s:every-return-reports" % fn_, "return `%s` is preceded by a report" % expr_str(e)[:30], bd.where(b.idx))
        errs = call_sites(bd, r"TimeSyncTask::report_error$")
        kinds = set()
        for c in errs:
            e = sym.call_expr(c.term)
            for s_ in expr_walk(e[2][2]):
                if s_[0] == "agg" and "TimeSyncError" in (s_[1] or ""):
                    kinds.add(s_[2])
        ctx.check("StillNeedsTime" in kinds, "%s:StillNeedsTime" % fn_, "a still-set NEED_TIME is reported as StillNeedsTime", bd.where(line=bd.line))
        for c in errs:
            e = sym.call_expr(c.term)
            if mentions(e[2][2], lambda s: s[0] == "agg" and s[2] == "StillNeedsTime"):
                ctx.require_guards(bd, c.idx, [("NEED_TIME still set", g_bool(lambda x: mentions_call(x, r"Iin1::get_need_time$"), True))], "%s:StillNeedsTime:guard" % fn_, "StillNeedsTime")
        # Ok(None) only after success
        for b, si, st, e in ret_sites(bd, sym):
            if e[0] == "agg" and e[2] == "Ok":
                ctx.check(any(bd.block_dominates(c.idx, b.idx) for c in ok_s), "%s:Ok-after-success" % fn_, "Ok(None) only after report_success", bd.where(b.idx))
    rs = prog.body(T + "report_success")
    ctx.check(bool(call_sites(rs, r"Association::on_time_sync_success$")) and bool(call_sites(rs, r"Promise::complete$")), "report_success:targets", "report_success informs the association or the promise", rs.where(line=rs.line))
    for c in call_sites(rs, r"Promise::complete$"):
        e = ctx.sym(rs).call_expr(c.term)
        ctx.check(variant_name(e[2][1]) == "Ok", "report_success:Ok", "the promise is completed with Ok", rs.where(c.idx))
    re_ = prog.body(T + "report_error")
    for c in call_sites(re_, r"Promise::complete$"):
        e = ctx.sym(re_).call_expr(c.term)
        ctx.check(variant_name(e[2][1]) == "Err" and mentions_name(e[2][1], "error"), "report_error:Err", "the promise is completed with Err(error)", re_.where(c.idx))


def r2(ctx):
    prog = ctx.prog
    bd = prog.body(T + "handle_delay_measure")
    sym = ctx.sym(bd)
    cs = call_sites(bd, r"TimeSyncTask::change_state$")
    if len(cs) != 1:
        raise AnchorError("handle_delay_measure: change_state")
    c = cs[0]
    ctx.require_guards(bd, c.idx, [
        ("round trip measurable (checked_duration_since is Some)", g_is(top_call(r"Instant::checked_duration_since$"), "Some")),
        ("a single object header", g_is(lambda x: mentions_call(x, r"Response.*::get_only_object_header$"), "Ok")),
        ("delay object present", g_is(lambda x: x[0] == "var" and x[1] == "delay_ms", "Some")),
        ("round trip >= reported delay (checked_sub is Some)", g_is(top_call(r"Duration::checked_sub$"), "Some")),
        ("system time available", g_is(top_call(r"Association::get_system_time$"), "Some")),
        ("timestamp fits 48 bits", g_is(lambda x: mentions_call(x, r"TimeSyncTask::get_timestamp$"), "Ok")),
    ], "delay-measure:write", "moving on to WRITE absolute time")
    e = sym.call_expr(c.term)
    ctx.check(mentions(e[2][1], lambda s: s[0] == "agg" and s[2] == "WriteAbsoluteTime"), "delay-measure:next-state", "next state = WriteAbsoluteTime", bd.where(c.idx))
    # delay_ms comes from a single g52v2
    dl = bd.local_by_name("delay_ms")
    defs = [(blk, si) for l in dl for blk, si in bd.defs.get(l, [])]
    some_defs = [(blk, si) for blk, si in defs if not (sym.def_expr(blk, si)[0] == "agg" and sym.def_expr(blk, si)[2] == "None")]
    ok = any(any(g.kind == "is" and g.name == "Group52Var2" for g in ctx.guards_at(bd, blk)) for blk, si in some_defs)
    ctx.check(ok, "delay-measure:g52v2", "the delay is taken from a Group52Var2 object only", bd.where(line=bd.line))
    ctx.check(any(mentions_call(sym.def_expr(blk, si), r"CountSequence.*::single$") for blk, si in some_defs), "delay-measure:single", "…and only if it is the single object", bd.where(line=bd.line))
    # namesake errors on each failing edge
    want = [
        (g_is(top_call(r"Instant::checked_duration_since$"), "None"), "ClockRollback"),
        (g_is(top_call(r"Duration::checked_sub$"), "None"), "BadOutstationTimeDelay"),
        (g_is(top_call(r"Association::get_system_time$"), "None"), "SystemTimeNotAvailable"),
    ]
    for pred, err in want:
        arms = arm_edges(ctx, bd, pred)
        if len(arms) != 1:
            ctx.bad("delay-measure:%s:arm" % err, "failing edge for %s not found" % err, bd.where(line=bd.line))
            continue
        region = region_of(bd, arms[0])
        after = bd.reachable(arms[0].edge[1])
        allreps = call_sites(bd, r"TimeSyncTask::report_error$")
        reps = [x for x in allreps if x.idx in region]
        if reps:
            ok = len(reps) == 1 and mentions(sym.call_expr(reps[0].term)[2][2], lambda s: s[0] == "agg" and s[2] == err)
        else:
            # the error is built on the failing edge and reported at a shared site behind it (a helper returning the error to report):
            # built here, every way out passes the report, and what is reported can be this error
            built = any(st.rv["k"] == "agg" and st.rv.get("var") == err for b_ in region for st in bd.blocks[b_].stmts if st.kind == "assign")
            shared = [x for x in allreps if x.idx in after]
            passes = bool(shared) and all(must_pass(bd, arms[0].edge[1], r_, {x.idx for x in shared}) for r_ in return_blocks(bd) if r_ in after)
            vals = [v for x in shared for v in resolve_defs(bd, sym, sym.call_expr(x.term)[2][2], depth=3)]
            ok = built and passes and any(mentions(v, lambda s: s[0] == "agg" and s[2] == err) for v in vals)
            reps = shared
        ctx.check(ok, "delay-measure:%s" % err, "the failing edge reports TimeSyncError::%s" % err, bd.where(arms[0].edge[1]), bad_detail="the failing edge reports %s" % ([expr_str(sym.call_expr(x.term)[2][2])[:60] for x in reps]))
        rets = [(b, e2) for b, si, st, e2 in ret_sites(bd, sym) if b.idx in after]
        ctx.check(bool(rets) and all(e2[0] == "agg" and e2[2] == "Err" for _, e2 in rets) and c.idx not in after, "delay-measure:%s:fails" % err, "…and fails the task without writing a time", bd.where(arms[0].edge[1]))
    outcome = {b.idx for b in call_sites(bd, r"TimeSyncTask::report_error$|TimeSyncTask::change_state$")}
    for b, si, st, e2 in ret_sites(bd, sym):
        ctx.check(not bd.can_reach(0, b.idx, removed_blocks=outcome), "delay-measure:every-return-reports", "every return reports or continues", bd.where(b.idx))
    gt = prog.body(T + "get_timestamp")
    for b, si, st, e2 in ret_sites(gt, ctx.sym(gt)):
        if e2[0] == "agg" and e2[2] == "Err":
            ctx.check(mentions(e2, lambda s: s[0] == "agg" and s[2] == "Overflow"), "get_timestamp:Overflow", "a time that does not fit reports Overflow", gt.where(b.idx))
            ctx.require_guards(gt, b.idx, [("checked_add is None", g_is(lambda x: mentions_call(x, r"Timestamp::checked_add$"), "None"))], "get_timestamp:Overflow:guard", "Err(Overflow)")


def r3(ctx):
    prog = ctx.prog
    bd = prog.body(T + "handle_delay_measure")
    sym = ctx.sym(bd)
    c = call_sites(bd, r"TimeSyncTask::change_state$")[0]
    e = sym.call_expr(c.term)
    ts = e[2][1]
    ctx.check(mentions_call(ts, r"TimeSyncTask::get_timestamp$"), "written-time:get_timestamp", "the written time comes from get_timestamp(..)", bd.where(c.idx))
    gts = call_sites(bd, r"TimeSyncTask::get_timestamp$")
    for g in gts:
        ge = sym.call_expr(g.term)
        now_e, prop = ge[2][0], ge[2][1]
        ctx.check(mentions_call(now_e, r"Association::get_system_time$"), "written-time:system-time", "base = association.get_system_time()", bd.where(g.idx))
        ctx.check(mentions_call(prop, r"Duration::checked_sub$") and mentions_call(prop, r"Instant::checked_duration_since$"), "written-time:interval", "correction derives from the measured round trip", bd.where(g.idx), bad_detail="propagation delay = %s" % expr_str(prop)[:140])
        ctx.check(mentions_name(prop, "delay_ms") or mentions_call(prop, r"Duration::from_millis$"), "written-time:outstation-delay", "…minus the outstation's reported processing delay", bd.where(g.idx), bad_detail="the reported processing delay does not enter the correction: %s" % expr_str(prop)[:140])
        fm = [s for s in expr_walk(prop) if s[0] == "call" and (s[1] or "").endswith("Duration::from_millis")]
        ctx.check(len(fm) == 1 and strip_passthrough(fm[0][2][0]) == ("var", "delay_ms"), "written-time:outstation-delay:unmodified", "the reported delay enters unmodified (from_millis(delay_ms))", bd.where(g.idx), bad_detail="the reported delay is altered before use: %s" % (expr_str(fm[0][2][0]) if fm else None))
        halved = mentions(prop, lambda s: (s[0] == "call" and re.search(r"Div.*::div$|checked_div$|::div_f64$|::mul_f64$", s[1] or "") is not None and (mentions_const(s, 2) or mentions(s, lambda z: z[0] == "const"))) or (s[0] == "bin" and s[1] in ("Div", "Shr")))
        ctx.check(halved, "written-time:halved", "the round-trip remainder is halved (one-way delay)", bd.where(g.idx), bad_detail="the propagation delay is not halved: %s" % expr_str(prop)[:140])
    gt = prog.body(T + "get_timestamp")
    for c2 in call_sites(gt, r"Timestamp::checked_add$"):
        e2 = ctx.sym(gt).call_expr(c2.term)
        ctx.check(e2[2][0] == ("param", "now") and e2[2][1] == ("param", "propagation_delay"), "get_timestamp:sum", "timestamp = now + propagation_delay", gt.where(c2.idx))
    # the request interval starts when the request is sent
    sb = prog.body(T + "start")
    ok = any(mentions_call(ctx.sym(sb).call_expr(x.term), r"Instant::now$") for x in call_sites(sb, r"Option.*::replace$"))
    ctx.check(ok, "interval:start", "the send instant is recorded in start()", sb.where(line=sb.line))
    # what is written
    wb = prog.body(T + "write")
    ws = ctx.sym(wb)
    for b, si, st in agg_sites(wb, r"variations::Group50Var1$"):
        e = ws.rvalue_expr(st.rv)
        ctx.check(mentions(agg_field(e, "time"), lambda s: s[0] == "variant" and s[2] == "WriteAbsoluteTime"), "write:g50v1", "g50v1.time = the computed timestamp", wb.where(b.idx))
    for b, si, st in agg_sites(wb, r"variations::Group50Var3$"):
        e = ws.rvalue_expr(st.rv)
        ctx.check(mentions(agg_field(e, "time"), lambda s: s[0] == "variant" and s[2] == "WriteLastRecordedTime"), "write:g50v3", "g50v3.time = the time recorded at RECORD_CURRENT_TIME", wb.where(b.idx))
    rb = prog.body(T + "handle_record_current_time")
    for c2 in call_sites(rb, r"TimeSyncTask::change_state$"):
        e = ctx.sym(rb).call_expr(c2.term)
        ctx.check(mentions(e[2][1], lambda s: s[0] == "agg" and s[2] == "WriteLastRecordedTime") and mentions_name(e[2][1], "recorded_time"), "lan:next-state", "LAN: the recorded time is what gets written", rb.where(c2.idx))
    # LAN: recorded time is taken when the request is sent
    ok = any(mentions_call(ctx.sym(sb).rvalue_expr(st.rv), r"Association::get_system_time$") for b, si, st in sb.assigns() if any(g.kind == "is" and g.name == "RecordCurrentTime" for g in ctx.guards_at(sb, b.idx)))
    ctx.check(ok, "lan:recorded-at-send", "LAN: the master records its clock when RECORD_CURRENT_TIME is sent", sb.where(line=sb.line))


def r4(ctx):
    prog = ctx.prog
    bd = prog.body("OutstationSession::handle_write_at_last_recorded_time")
    sym = ctx.sym(bd)
    cs = call_sites(bd, r"OutstationApplication::write_absolute_time$")
    if len(cs) != 1:
        raise AnchorError("handle_write_at_last_recorded_time: application call")
    c = cs[0]
    ctx.require_guards(bd, c.idx, [
        ("single g50v3", g_is(lambda x: mentions_call(x, r"CountSequence.*::single$"), "Some")),
        ("a RECORD_CURRENT_TIME preceded", g_is(lambda x: mentions_field(x, "last_recorded_time"), "Some")),
        ("elapsed measurable", g_is(lambda x: mentions_call(x, r"Instant::checked_duration_since$"), "Some")),
        ("fits 48 bits", g_is(lambda x: mentions_call(x, r"Timestamp::checked_add$"), "Some")),
    ], "outstation:lan-write", "write_absolute_time (LAN procedure)")
    e = sym.call_expr(c.term)
    t = e[2][1]
    ctx.check(mentions_call(t, r"Timestamp::checked_add$") and mentions_field(t, "time") and mentions_call(t, r"CountSequence.*::single$"), "outstation:lan-time:request", "written time derives from the request's time", bd.where(c.idx))
    ctx.check(mentions_call(t, r"Instant::checked_duration_since$") and mentions_call(t, r"Instant::now$") and mentions_field(t, "last_recorded_time"), "outstation:lan-time:elapsed", "…plus (now - last_recorded_time)", bd.where(c.idx), bad_detail="written time = %s" % expr_str(t)[:160])
    ca = [s for s in expr_walk(t) if s[0] == "call" and (s[1] or "").endswith("Timestamp::checked_add")]
    ok = len(ca) == 1 and strip_passthrough(ca[0][2][1])[0] == "call" and strip_passthrough(ca[0][2][1])[1].endswith("Instant::checked_duration_since")
    ctx.check(ok, "outstation:lan-time:elapsed:unmodified", "the elapsed time is added unmodified", bd.where(c.idx), bad_detail="the elapsed time is altered before it is added: %s" % (expr_str(ca[0][2][1])[:100] if ca else None))
    clr = [b for b, si, st in field_writes(bd, "last_recorded_time") if variant_name(sym.rvalue_expr(st.rv)) == "None"]
    ctx.check(len(clr) == 1 and bd.block_dominates(clr[0].idx, c.idx), "outstation:lan-consumes-recorded", "the recorded instant is consumed before the application call", bd.where(c.idx), bad_detail="last_recorded_time is not cleared before use: a later WRITE re-uses a stale RECORD_CURRENT_TIME")
    # each failing step answers PARAMETER_ERROR
    for b, si, st, e2 in ret_sites(bd, sym):
        if not bd.block_dominates(c.idx, b.idx):
            ctx.check(mentions_constdef(e2, r"Iin2::PARAMETER_ERROR$"), "outstation:lan-reject#%d" % (b.term.line - bd.line if False else ret_sites(bd, sym).index((b, si, st, e2))), "a failing step answers PARAMETER_ERROR", bd.where(b.idx))
    n = 0
    for b2 in prog.bodies_matching(r"outstation::session::"):
        if "::tests::" in b2.path:
            continue
        for b, si, st in field_writes(b2, "last_recorded_time"):
            v = variant_name(ctx.sym(b2).rvalue_expr(st.rv))
            if v == "Some":
                n += 1
                ctx.check(b2.path.endswith("OutstationSession::handle_record_current_time"), "recorded-set@%s" % short(b2.path), "last_recorded_time is set in %s" % short(b2.path), b2.where(b.idx))
                ctx.check(mentions_call(ctx.sym(b2).rvalue_expr(st.rv), r"Instant::now$"), "recorded-set:now", "…to Instant::now()", b2.where(b.idx))
    ctx.check(n == 1, "recorded-set:once", "one setter", "")
    # master-side Timestamp bound is C10.R5; here: the outstation WRITE of g50v1 hands the request's time through
    ab = prog.body("OutstationSession::handle_write_abs_time")
    for c2 in call_sites(ab, r"OutstationApplication::write_absolute_time$"):
        e2 = ctx.sym(ab).call_expr(c2.term)
        ctx.check(mentions_field(e2[2][1], "time") and mentions_call(e2[2][1], r"CountSequence.*::single$"), "outstation:abs-time", "WRITE g50v1 hands the request's time to the application", ab.where(c2.idx))
        ctx.require_guards(ab, c2.idx, [("single g50v1", g_is(lambda x: mentions_call(x, r"CountSequence.*::single$"), "Some"))], "outstation:abs-time:single", "write_absolute_time")
    dm = prog.body("OutstationSession::handle_delay_measure")
    for b, si, st in agg_sites(dm, r"variations::Group52Var2$"):
        e2 = ctx.sym(dm).rvalue_expr(st.rv)
        ctx.check(mentions_call(agg_field(e2, "time"), r"OutstationApplication::get_processing_delay_ms$"), "outstation:delay-measure", "the reported delay is the application's processing delay", dm.where(b.idx))


def r5(ctx):
    """LAN procedure: the time written with g50v3 is the master clock captured WHEN RECORD_CURRENT_TIME WAS SENT (the value start()
    stored in the state), not a clock read when the response arrives - the outstation adds its own elapsed time from its recording
    instant, so a later reading makes the outstation run ahead by the turnaround."""
    prog = ctx.prog
    bd = prog.body("master::tasks::time::TimeSyncTask::handle_record_current_time")
    sym = ctx.sym(bd)
    n = 0
    for b, si, st in agg_sites(bd, r"time::State$", "WriteLastRecordedTime"):
        n += 1
        e = sym.rvalue_expr(st.rv)
        v = agg_field(e, "0")
        clock = mentions_call(v, r"get_system_time$|get_current_time$|Instant::now$|SystemTime::now$")
        ctx.check(mentions_name(v, "recorded_time") and not clock, "lan:write-recorded-time", "WriteLastRecordedTime(%s)" % expr_str(v)[:80], bd.where(b.idx), bad_detail="the LAN procedure writes `%s`: a clock read at response time instead of the instant recorded when the request was sent" % expr_str(v)[:80])
    if n != 1:
        raise AnchorError("handle_record_current_time: WriteLastRecordedTime constructions %d" % n)
    # the recorded time itself is taken in start(), from the association clock, in the RecordCurrentTime arm
    sb = prog.body("master::tasks::time::TimeSyncTask::start")
    ss = ctx.sym(sb)
    k = 0
    for b, si, st in sb.assigns():
        base = ss.local_expr(st.dest.local) if st.dest.proj else None
        if "@RecordCurrentTime" in st.dest.proj or (base is not None and mentions(base, lambda x: x[0] == "variant" and x[2] == "RecordCurrentTime")):
            k += 1
            v = ss.rvalue_expr(st.rv)
            ctx.check(mentions_call(v, r"get_system_time$"), "lan:record-at-start", "RecordCurrentTime(%s)" % expr_str(v)[:80], sb.where(b.idx))
    for b in sb.calls():
        if "@RecordCurrentTime" in b.term.d["d"].proj:
            k += 1
            v = ss.call_expr(b.term)
            ctx.check(mentions_call(v, r"get_system_time$"), "lan:record-at-start", "RecordCurrentTime(%s)" % expr_str(v)[:80], sb.where(b.idx))
    ctx.check(k >= 1, "lan:record-at-start:site", "start() stores the clock reading in the state", sb.where(line=sb.line))


def r6(ctx):
    """'unrelated traffic (unsolicited responses, wrong-sequence replies) interleaved at any step' must not complete a step: the
    acceptance conjuncts of validate_non_read_response are rule C15.R1 (shared code)."""
    import c15
    c15.r1(ctx)

RULES = [
    ("C18.R1", "T2/T3", "success only on an empty response with NEED_TIME cleared; every other return reports an error", r1),
    ("C18.R2", "T2", "non-LAN: every stated failure condition blocks the write and reports its namesake error", r2),
    ("C18.R3", "T8", "provenance of the written time on the master (system time, interval, delay, halving)", r3),
    ("C18.R4", "T8/T2", "provenance and guards of the written time on the outstation", r4),
    ("C18.R5", "T8", "LAN: the time written is the clock recorded when the request was sent", r5),
    ("C18.R6", "T2", "a time-sync step is completed only by the matching reply of the addressed outstation (shared with C15.R1)", r6),
]


def r7(ctx):
    """'the time handed to the outstation application': the LAN procedure writes the clock recorded at the RECORD_CURRENT_TIME of THE
    master that is being served - fragments (broadcasts included) from any other link address are discarded before they reach the
    session when a master address is required (C07.R5, shared code); a foreign broadcast RECORD_CURRENT_TIME between the two steps
    would otherwise overwrite the recorded time."""
    import c07
    c07.r5(ctx)


RULES.append(("C18.R7", "T2", "requests from a foreign master cannot disturb the recorded time: the source filter covers every request kind (shared with C07.R5)", r7))
