"""C03 — no event is lost, invented, or released before a confirmed response carried it."""
from engine import *
from mir import *

EXPLANATION = (
    "Census: records leave EventBuffer::events only in clear_written and insert; clear_written is reachable only through "
    "DatabaseHandle::clear_written_events, called from exactly two sites, each dominated by a sequence-matched confirm "
    "(UnsolicitedResult::Confirmed / Confirm::Yes, themselves constructed only under seq equality in the matching confirm arm). "
    "Must-pass: every end of a response series without confirmation (solicited timeout/new request, unsolicited timeout/return-to-idle, "
    "session exit) returns written events to the pool (DatabaseHandle::reset) before another response can be built; write_unsolicited "
    "resets before selecting. The removal predicate is state==Written and tells the application; overflow removal is of the same type, only "
    "at capacity, and is reported; both counters are maintained on every removal; Written is set only after a successful write."
)
ASSUMPTIONS = [
    "oldest-first order, bit-exact contents and 'keeps being offered' are runtime-content clauses and are not decided",
    "loss across Disable/shutdown and cancellation at await points are not modelled",
]
TRUSTED = ["rustc nightly MIR + Instance::try_resolve", "facts driver", "rules/mir.py dominance + symbolic expressions"]


def r1(ctx):
    prog = ctx.prog
    cg = prog.callgraph
    # who removes from a VecList
    rem = cg.callers_of(lambda c: re.search(r"event::list::VecList::(remove_all|remove_first|remove_at)$", c) is not None)
    allowed = {prog.body("EventBuffer::clear_written").path, prog.body("EventBuffer::insert").path}
    internal = re.compile(r"event::list::VecList::")
    n = 0
    for path, blk, callee, how in rem:
        if internal.search(path) or "::tests::" in path:
            continue
        n += 1
        bd = prog.bodies[path]
        ctx.check(path in allowed, "remover@%s" % short(path), "%s calls %s" % (path, short(callee)), bd.where(blk))
    if n < 2:
        raise AnchorError("expected >= 2 removal call sites, found %d" % n)
    chain = [
        (r"EventBuffer::clear_written$", {prog.body("details::database::Database::clear_written_events").path}),
        (r"details::database::Database::clear_written_events$", {prog.abody("DatabaseHandle::clear_written_events").path}),
        (r"DatabaseHandle::clear_written_events$", {prog.abody("OutstationSession::check_unsolicited").path, prog.abody("OutstationSession::sol_confirm_wait").path}),
    ]
    for rx, allowed_callers in chain:
        cs = [c for c in cg.callers_of(lambda c: re.search(rx, c) is not None) if "::tests::" not in c[0]]
        seen = set()
        for path, blk, callee, how in cs:
            bd = prog.bodies[path]
            seen.add(path)
            ctx.check(path in allowed_callers, "caller-of-%s@%s" % (rx.split("::")[-1].rstrip("$"), short(path)), "%s calls %s" % (path, short(callee)), bd.where(blk))
        for a in allowed_callers - seen:
            ctx.bad("caller-missing:%s@%s" % (rx, short(a)), "expected call site disappeared")
    # exactly one call in each of the two session bodies
    for fn_ in ("OutstationSession::check_unsolicited", "OutstationSession::sol_confirm_wait"):
        bd = prog.abody(fn_)
        k = len(call_sites(bd, r"DatabaseHandle::clear_written_events$"))
        ctx.check(k == 1, "one-clear@%s" % fn_.split("::")[-1], "%d clear_written_events call(s)" % k, bd.where(line=bd.line))


def r2(ctx):
    prog = ctx.prog
    # the two release sites
    bd = prog.abody("OutstationSession::check_unsolicited")
    for b in call_sites(bd, r"DatabaseHandle::clear_written_events$"):
        ctx.require_guards(bd, b.idx, [
            ("unsolicited support enabled", g_any(g_bool("is_disabled", False), g_bool("is_enabled", True))),
            ("maybe_perform_unsolicited(..) is Some", g_is(lambda x: mentions_call(x, r"maybe_perform_unsolicited$"), "Some")),
            ("result is Confirmed", g_is(lambda x: mentions_call(x, r"maybe_perform_unsolicited$"), "Confirmed")),
        ], "release@check_unsolicited", "clear_written_events in check_unsolicited")
    bd = prog.abody("OutstationSession::sol_confirm_wait")
    for b in call_sites(bd, r"DatabaseHandle::clear_written_events$"):
        ctx.require_guards(bd, b.idx, [("wait_for_sol_confirm(..) is Yes", g_is(lambda x: mentions_call(x, r"wait_for_sol_confirm$"), "Yes"))], "release@sol_confirm_wait", "clear_written_events in sol_confirm_wait")
    # the ecsn handed to the wait is the series' own
    for b in call_sites(bd, r"OutstationSession::wait_for_sol_confirm$"):
        e = ctx.sym(bd).call_expr(b.term)
        ctx.check(mentions_field(e[2][4], "ecsn") and mentions_name(e[2][4], "series"), "ecsn-src@sol_confirm_wait", "ecsn = %s" % expr_str(e[2][4]), bd.where(b.idx))
    # constructions
    bd = prog.abody("OutstationSession::wait_for_sol_confirm")
    sites = agg_sites(bd, r"session::Confirm$", "Yes")
    if not sites:
        raise AnchorError("Confirm::Yes not constructed")
    for b, si, st in sites:
        ctx.require_guards(bd, b.idx, [("expect_sol_confirm(..) is Confirmed", g_is(lambda x: mentions_call(x, r"expect_sol_confirm$"), "Confirmed"))], "Confirm::Yes", "construction of Confirm::Yes")
    for b in call_sites(bd, r"OutstationSession::expect_sol_confirm$"):
        e = ctx.sym(bd).call_expr(b.term)
        ctx.check(e[2][1] in (("capture", "ecsn"), ("param", "ecsn")), "ecsn-src@wait_for_sol_confirm", "ecsn = %s" % expr_str(e[2][1]), bd.where(b.idx))
    bd = prog.body("OutstationSession::expect_sol_confirm")
    sites = agg_sites(bd, r"session::ConfirmAction$", "Confirmed")
    if not sites:
        raise AnchorError("ConfirmAction::Confirmed not constructed")
    cl = lambda x: mentions_call(x, r"OutstationSession::classify$")
    for b, si, st in sites:
        ctx.require_guards(bd, b.idx, [
            ("classify(..) is SolicitedConfirm", g_is(cl, "SolicitedConfirm")),
            ("Eq(confirm seq, ecsn)", g_rel("Eq", lambda x: mentions(x, lambda s: s[0] == "variant" and s[2] == "SolicitedConfirm"), lambda x: mentions_name(x, "ecsn"))),
        ], "ConfirmAction::Confirmed", "construction of ConfirmAction::Confirmed")
    bd = prog.abody("OutstationSession::wait_for_unsolicited_confirm")
    sites = agg_sites(bd, r"session::UnsolicitedResult$", "Confirmed")
    if not sites:
        raise AnchorError("UnsolicitedResult::Confirmed not constructed")
    for b, si, st in sites:
        ctx.require_guards(bd, b.idx, [
            ("classify(..) is UnsolicitedConfirm", g_is(cl, "UnsolicitedConfirm")),
            ("Eq(confirm seq, uns_ecsn)", g_rel("Eq", lambda x: mentions(x, lambda s: s[0] == "variant" and s[2] == "UnsolicitedConfirm"), lambda x: mentions_name(x, "uns_ecsn"))),
        ], "UnsolicitedResult::Confirmed", "construction of UnsolicitedResult::Confirmed")
    # no other body constructs Confirmed
    for bd2 in prog.bodies.values():
        if "::tests::" in bd2.path:
            continue
        for b, si, st in agg_sites(bd2, r"session::UnsolicitedResult$", "Confirmed"):
            ctx.check(bd2.path == bd.path, "UnsolicitedResult::Confirmed-site@%s" % short(bd2.path), "constructed in %s" % bd2.path, bd2.where(b.idx))
    # classify splits confirms by the UNS bit
    cb = prog.body("OutstationSession::classify")
    for var, truth in (("UnsolicitedConfirm", True), ("SolicitedConfirm", False)):
        for b, si, st in agg_sites(cb, r"session::FragmentType$", var):
            e = ctx.sym(cb).rvalue_expr(st.rv)
            ctx.require_guards(cb, b.idx, [
                ("function == Confirm", g_rel("Eq", "function", lambda x: mentions(x, lambda s: s[0] == "agg" and s[2] == "Confirm"))),
                ("uns == %s" % truth, g_bool("uns", truth)),
            ], "classify:%s" % var, "FragmentType::%s" % var)
            ctx.check(mentions_field(agg_field(e, "0"), "seq") and mentions_name(agg_field(e, "0"), "request"), "classify:%s:seq" % var, "carries request.header.control.seq", cb.where(b.idx))
    # the unsolicited ecsn is the sequence of the response actually written
    sb = prog.abody("OutstationSession::perform_unsolicited_response_series")
    for b in call_sites(sb, r"OutstationSession::wait_for_unsolicited_confirm$"):
        e = ctx.sym(sb).call_expr(b.term)
        ctx.check(mentions_call(e[2][1], r"Response::seq$") and mentions_call(e[2][1], r"OutstationSession::write_unsolicited$"), "uns_ecsn-src", "uns_ecsn = %s" % expr_str(e[2][1])[:160], sb.where(b.idx))


def _abort_arm(ctx, body, pred, key, what):
    """Every normal path from the arm's entry to a return passes DatabaseHandle::reset."""
    arms = arm_edges(ctx, body, pred)
    if not arms:
        raise AnchorError("%s: arm not found" % key)
    resets = {b.idx for b in call_sites(body, r"DatabaseHandle::reset$|database::Database::reset$")}
    rets = return_blocks(body)
    for g in arms:
        entry = g.edge[1]
        bad = [r for r in rets if body.can_reach(entry, r, removed_blocks=resets)]
        ctx.check(not bad, "%s:%s" % (key, g.name) if isinstance(g.name, str) else key, "%s passes DatabaseHandle::reset before returning" % what, body.where(entry), bad_detail="%s ends the response series without confirmation and returns without DatabaseHandle::reset: events it wrote stay `Written` and are released by the next confirmed response that never carried them" % what)


def r3(ctx):
    prog = ctx.prog
    sw = prog.abody("OutstationSession::sol_confirm_wait")
    wf = lambda x: mentions_call(x, r"wait_for_sol_confirm$")
    _abort_arm(ctx, sw, g_is(wf, "Timeout"), "abort:sol", "Confirm::Timeout arm of sol_confirm_wait")
    _abort_arm(ctx, sw, g_is(wf, "NewRequest"), "abort:sol", "Confirm::NewRequest arm of sol_confirm_wait")
    cu = prog.abody("OutstationSession::check_unsolicited")
    mp = lambda x: mentions_call(x, r"maybe_perform_unsolicited$")
    arms = arm_edges(ctx, cu, lambda g: (g.kind == "is" and g.name in ("Timeout", "ReturnToIdle") and mp(g.a)) or (g.kind == "oneof" and set(g.name) <= {"Timeout", "ReturnToIdle"} and mp(g.a)))
    # the match lowers Timeout|ReturnToIdle to two switch values sharing a target
    _abort_arm(ctx, cu, lambda g: g.kind == "is" and g.name in ("Timeout", "ReturnToIdle") and mp(g.a), "abort:unsol", "data unsolicited Timeout/ReturnToIdle arm of check_unsolicited")
    # session exit: the events written into an unconfirmed response must not stay Written across sessions
    run = prog.abody("OutstationSession::run")
    resets = {b.idx for b in call_sites(run, r"DatabaseHandle::reset$")}
    rets = return_blocks(run)
    bad = [r for r in rets if run.can_reach(0, r, removed_blocks=resets)]
    ctx.check(not bad, "abort:session-exit", "every exit of OutstationSession::run passes DatabaseHandle::reset", run.where(line=run.line), bad_detail="OutstationSession::run returns (link error / disable in the middle of a confirm wait) without DatabaseHandle::reset: events written into the unconfirmed response stay `Written` across the reconnect and are released by the next confirmed response")


def r4(ctx):
    prog = ctx.prog
    bd = prog.body("DatabaseHandle::write_unsolicited")
    rs = call_sites(bd, r"database::Database::reset$")
    sel = call_sites(bd, r"Database::select_event_classes$")
    if not sel:
        raise AnchorError("select_event_classes not called in write_unsolicited")
    for s_ in sel:
        ok = any(bd.block_dominates(r.idx, s_.idx) for r in rs)
        ctx.check(ok, "write_unsolicited:reset-dominates-select", "reset() dominates select_event_classes", bd.where(s_.idx), bad_detail="select_event_classes is reachable without a preceding reset(): events left `Written`/`Selected` by an aborted series are not re-offered")
    # Database::reset resets the event buffer, which un-writes every record and zeroes `written`
    db = prog.body("details::database::Database::reset")
    ctx.check(bool(call_sites(db, r"EventBuffer::reset$")), "Database::reset->EventBuffer::reset", "Database::reset calls EventBuffer::reset", db.where(line=db.line))
    eb = prog.body("EventBuffer::reset")
    sym = ctx.sym(eb)
    sets = [b for b in call_sites(eb, r"Cell::set$") if mentions(sym.call_expr(b.term), lambda s: s[0] == "agg" and s[2] == "Unselected")]
    for ch in prog.children(eb):  # the same loop written as events.iter().for_each(|..| ..)
        sets += [b for b in call_sites(ch, r"Cell::set$") if mentions(ctx.sym(ch).call_expr(b.term), lambda s: s[0] == "agg" and s[2] == "Unselected")]
    ctx.check(bool(sets), "EventBuffer::reset:unselect", "every record is set to Unselected", eb.where(line=eb.line))
    # ... every record: the store is conditional on nothing but the iteration itself, and the loop is left only when the iterator is
    # exhausted (selections need not be a prefix of the buffer: a READ of one class, of one type, a limited count)
    for b in [b for b in sets if b in eb.calls()]:
        extra = [g for g in ctx.guards_at(eb, b.idx) if not (g.kind == "is" and g.name in ("Some", "Continue") and g.a is not None and mentions_call(g.a, r"::next$"))]
        ctx.check(not extra, "EventBuffer::reset:unconditional", "the Unselected store is conditional on nothing but the iteration", eb.where(b.idx), bad_detail="the store is gated by %s: records the condition skips keep their Selected/Written state after an aborted series" % fmt_guards(extra)[:3])
        okx = loop_exits_only_when_exhausted(ctx, eb, b.idx)
        if okx is not None:
            exits = [1]
            ctx.check(okx and bool(exits), "EventBuffer::reset:whole-buffer", "the un-select loop ends only when the iterator is exhausted", eb.where(b.idx), bad_detail="the un-select loop can be left before the iterator is exhausted: records behind that point keep their Selected/Written state after an aborted series (never offered again, then released by an unrelated confirm)")
    z = [b for b in call_sites(eb, r"Counters::zero$") if mentions_field(sym.call_expr(b.term), "written")]
    ret = return_blocks(eb)
    ctx.check(bool(z) and all(eb.block_dominates(z[0].idx, r) for r in ret), "EventBuffer::reset:zero-written", "written counters are zeroed on every path", eb.where(line=eb.line))


def r5(ctx):
    prog = ctx.prog
    cw = prog.body("EventBuffer::clear_written")
    clos = user_children(prog, cw)
    if len(clos) != 1:
        raise AnchorError("clear_written: expected one closure")
    cl = clos[0]
    sym = ctx.sym(cl)
    trues = [(b, e) for b, si, st, e in ret_sites(cl, sym) if e[0] == "const" and e[1] == 1]
    if not trues:
        raise AnchorError("clear_written predicate never returns true")
    for b, e in trues:
        ctx.require_guards(cl, b.idx, [("state == Written", g_rel("Eq", lambda x: mentions_field(x, "state"), lambda x: mentions(x, lambda s: s[0] == "agg" and s[2] == "Written")))], "clear_written:true", "`true` (remove) in the clear_written predicate")
        for rx, nm in ((r"OutstationApplication::event_cleared$", "event_cleared"), (r"Counters::decrement$", "total.decrement")):
            cs = call_sites(cl, rx)
            ok = bool(cs) and any(cl.block_dominates(c.idx, b.idx) for c in cs)
            ctx.check(ok, "clear_written:true-passes-%s" % nm, "removal is preceded by %s" % nm, cl.where(b.idx))
    for c in call_sites(cl, r"OutstationApplication::event_cleared$"):
        e = sym.call_expr(c.term)
        ctx.check(mentions_field(e[2][1], "id"), "event_cleared:id", "event_cleared(%s)" % expr_str(e[2][1]), cl.where(c.idx))
    # begin_confirm / end_confirm bracket
    h = prog.abody("DatabaseHandle::clear_written_events")
    bc = call_sites(h, r"OutstationApplication::begin_confirm$")
    cc = call_sites(h, r"Database::clear_written_events$")
    ec = call_sites(h, r"OutstationApplication::end_confirm$")
    ok = bool(bc and cc and ec) and h.block_dominates(bc[0].idx, cc[0].idx) and h.block_dominates(cc[0].idx, ec[0].idx) and all(must_pass(h, 0, r, {ec[0].idx}) for r in return_blocks(h))
    ctx.check(ok, "confirm-bracket", "begin_confirm -> clear -> end_confirm on every path", h.where(line=h.line))


def r6(ctx):
    prog = ctx.prog
    bd = prog.body("EventBuffer::insert")
    sym = ctx.sym(bd)
    rf = call_sites(bd, r"VecList::remove_first$")
    if len(rf) != 1:
        raise AnchorError("insert: expected one remove_first")
    ctx.require_guards(bd, rf[0].idx, [("type count == max", g_rel("Eq", lambda x: mentions_call(x, r"get_type_count$") and mentions_field(x, "total"), lambda x: mentions_call(x, r"get_max$")))], "insert:remove_first", "remove_first in insert")
    e = sym.call_expr(rf[0].term)
    ctx.check(e[2][1][0] == "fn" and e[2][1][1].endswith("Insertable::is_type"), "insert:same-type", "displaced record chosen by %s" % expr_str(e[2][1]), bd.where(rf[0].idx))
    some = g_is(lambda x: x[0] == "call" and re.search(r"remove_first$", x[1] or "") is not None, "Some")
    ovs = agg_sites(bd, r"buffer::InsertError$", "Overflow")
    ctx.check(len(ovs) == 1, "insert:overflow-reported", "Overflow constructed once", bd.where(ovs[0][0].idx) if ovs else "")
    for b, si, st in ovs:
        ctx.require_guards(bd, b.idx, [("remove_first is Some", some)], "insert:Overflow", "InsertError::Overflow")
        ev = sym.rvalue_expr(st.rv)
        ctx.check(mentions_call(agg_field(ev, "discarded"), r"remove_first$") and mentions_field(agg_field(ev, "discarded"), "id"), "insert:Overflow:discarded", "discarded = %s" % expr_str(agg_field(ev, "discarded")), bd.where(b.idx))
    # on the Some arm overflow is flagged and returned
    arms = arm_edges(ctx, bd, some)
    if len(arms) != 1:
        raise AnchorError("insert: Some arm")
    region = region_of(bd, arms[0])
    flagged = [b for b, si, st in field_writes(bd, "is_overflown") if b.idx in region and st.rv["k"] == "use" and st.rv["a"].value() == 1]
    ctx.check(bool(flagged), "insert:is_overflown", "is_overflown = true on the displaced-record arm", bd.where(arms[0].edge[1]))
    others = [b for b, si, st in field_writes(bd, "is_overflown") if b.idx not in region]
    ctx.check(not others, "insert:is_overflown-only-there", "is_overflown is not written elsewhere in insert", bd.where(line=bd.line))
    # the new record is always added
    adds = call_sites(bd, r"VecList::add$")
    okret = [b for b, si, st, e in ret_sites(bd, sym) if not (e[0] == "agg" and e[2] == "Err" and mentions(e, lambda s: s[0] == "agg" and s[2] == "TypeMaxIsZero"))]
    ctx.check(bool(adds) and all(bd.block_dominates(adds[0].idx, b.idx) for b in okret), "insert:always-adds", "every non-TypeMaxIsZero return is dominated by events.add", bd.where(adds[0].idx) if adds else "")


def _removed_class(ctx):
    """On removal the per-class counters are decremented with the class OF THE RECORD REMOVED (overflow displaces the oldest record
    of the type, whose class may differ from the class of the event being inserted)."""
    prog = ctx.prog
    ib = prog.body("EventBuffer::insert")
    isym = ctx.sym(ib)
    n = 0
    for c in call_sites(ib, r"ClassCounter::decrement$"):
        n += 1
        a = isym.call_expr(c.term)[2][1]
        ok = mentions_call(a, r"VecList<.*>::remove_first$|::remove_first$") and mentions_field(a, "class") and a != ("param", "class")
        ctx.check(ok, "insert:decrements-removed-class#%d" % n, "classes.decrement(%s)" % expr_str(a)[-50:], ib.where(c.idx), bad_detail="EventBuffer::insert decrements the class counter with `%s`, not with the class of the record it removed: the class totals (events-available bits) no longer match the buffer" % expr_str(a)[:60])
    if n < 1:
        raise AnchorError("EventBuffer::insert: ClassCounter::decrement sites")


def r7(ctx):
    """Counter discipline: a body that removes records maintains both `total` and `written`."""
    _removed_class(ctx)
    prog = ctx.prog
    for fn_ in ("EventBuffer::insert", "EventBuffer::clear_written"):
        bd = prog.body(fn_)
        name = fn_.split("::")[-1]
        bodies = [bd] + prog.children(bd)
        tot = wr = False
        for x in bodies:
            sym = ctx.sym(x)
            for c in call_sites(x, r"(Counters|ClassCounter|TypeCounter|Count)::(decrement|zero)$|Insertable::decrement_type$"):
                e = sym.call_expr(c.term)
                recv = e[2][0] if e[2] else ("other", None)
                if mentions_field(recv, "total") or mentions_name(recv, "total") or mentions(recv, lambda s: s[0] == "capture" and "total" in s[1]):
                    tot = True
                if mentions_field(recv, "written") or mentions(recv, lambda s: s[0] == "capture" and "written" in s[1]):
                    wr = True
        ctx.check(tot, "counters:%s:total" % name, "%s maintains `total` on removal" % name, bd.where(line=bd.line))
        ctx.check(wr, "counters:%s:written" % name, "%s maintains `written` on removal" % name, bd.where(line=bd.line), bad_detail="%s removes a record but never adjusts the `written` counters: when the displaced record was `Written`, total - written underflows in unwritten_classes (panic in debug, wrong class IIN bits in release)" % name)


def r8(ctx):
    prog = ctx.prog
    n = 0
    for bd in prog.bodies_matching(r"event::buffer::"):
        if "::tests::" in bd.path:
            continue
        sym = ctx.sym(bd)
        for c in call_sites(bd, r"Cell::set$"):
            e = sym.call_expr(c.term)
            if not mentions(e, lambda s: s[0] == "agg" and s[2] == "Written" and "EventState" in (s[1] or "")):
                continue
            n += 1
            ok = bd.path.endswith("EventBuffer::write_events")
            ctx.check(ok, "Written-set@%s" % short(bd.path), "EventState::Written set in %s" % bd.path, bd.where(c.idx))
            if ok:
                ctx.require_guards(bd, c.idx, [("Event::write(..) is Ok", g_is(lambda x: mentions_call(x, r"buffer::Event::write$"), "Ok"))], "Written-after-write", "state.set(Written)")
    if n == 0:
        raise AnchorError("EventState::Written is never set")
    # selection only picks Unselected records; writing only Selected ones
    sel = prog.body("EventBuffer::select")
    cl = prog.children(sel)
    ok = any(mentions(ctx.sym(c).rvalue_expr(st.rv), lambda s: s[0] == "agg" and s[2] == "Unselected") or any(mentions(ctx.sym(c).call_expr(b.term), lambda s: s[0] == "agg" and s[2] == "Unselected") for b in c.calls()) for c in cl for _, _, st in c.assigns())
    ctx.check(ok, "select:only-Unselected", "EventBuffer::select filters on state == Unselected", sel.where(line=sel.line))
    si_ = prog.body("EventBuffer::selected_iter")
    cl = prog.children(si_)
    ok = any(any(mentions(ctx.sym(c).call_expr(b.term), lambda s: s[0] == "agg" and s[2] == "Selected") for b in c.calls()) for c in cl)
    ctx.check(ok, "selected_iter:only-Selected", "selected_iter filters on state == Selected", si_.where(line=si_.line))


def r9(ctx):
    """Relative-time event variations (g2v3/g4v3): the 16-bit offset written is `event time - CTO`, computed only when
    it is representable (CTO <= time, difference <= 0xFFFF, same time quality); otherwise a new CTO header is started."""
    prog = ctx.prog
    bd = prog.body("event::write_fn::write_cto")
    sym = ctx.sym(bd)
    is_time = lambda x: mentions_call(x, r"ToVariationCto::get_time$")
    is_cto = lambda x: mentions(x, lambda s: s[0] in ("param", "var") and s[1] == "cto")
    sites = call_sites(bd, r"ToVariationCto::to_cto_variation$")
    if len(sites) != 1:
        raise AnchorError("write_cto: expected one to_cto_variation call, found %d" % len(sites))
    b = sites[0]
    e = sym.call_expr(b.term)
    off = e[2][1]
    subs = [x for x in expr_walk(off) if (x[0] == "bin" and x[1] in ("Sub", "SubWithOverflow", "SubUnchecked")) or (x[0] == "call" and re.search(r"::(checked|wrapping|saturating|overflowing)_sub$", x[1] or ""))]
    def operands(x):
        return (x[2], x[3]) if x[0] == "bin" else (x[2][0], x[2][1])
    good = [x for x in subs if is_time(operands(x)[0]) and not is_cto(operands(x)[0]) and is_cto(operands(x)[1]) and not is_time(operands(x)[1])]
    ctx.check(len(good) == 1 and len(subs) == 1, "cto-offset:data", "offset = %s" % expr_str(off)[:160], bd.where(b.idx), bad_detail="the relative time written is not `event time - cto`: %s" % expr_str(off)[:200])
    checked = any(x[0] == "call" and x[1].endswith("checked_sub") for x in good)
    ts = lambda f: (lambda x: f(x) and mentions_call(x, r"Time::timestamp$"))
    want = [("time quality equal", g_rel("Eq", lambda x: is_time(x) and mentions_call(x, r"Time::is_synchronized$"), lambda x: is_cto(x) and mentions_call(x, r"Time::is_synchronized$")))]
    if checked:
        want.append(("checked_sub is Some", g_is(lambda x: mentions_call(x, r"checked_sub$"), "Some")))
    else:
        want.append(("cto <= time", g_rel(("Le", "Eq"), ts(lambda x: is_cto(x) and not is_time(x)), ts(lambda x: is_time(x) and not is_cto(x)))))
    ctx.require_guards(bd, b.idx, want, "cto-offset", "relative time offset")
    narrow = [("difference <= u16::MAX", lambda g: (g.kind == "rel" and g.op in ("Le", "Lt") and any(x in subs for x in expr_walk(g.a)) and (mentions_const(g.b, 65535) or (g.op == "Lt" and mentions_const(g.b, 65536)))) or (g.kind == "is" and g.name == "Ok" and mentions_call(g.a, r"try_from$|try_into$") and any(x in subs for x in expr_walk(g.a))))]
    ctx.require_guards(bd, b.idx, narrow, "cto-offset:fits", "relative time offset")
    # and the variation built from it carries that offset and the event's own flags
    for path in ("BinaryInput", "DoubleBitBinaryInput"):
        im = [x for x in prog.bodies_matching(r"ToVariationCto<.*>>::to_cto_variation$") if path in x.path and ("for %s" % path in x.path or "<%s as" % path in x.path.replace("app::measurement::", "").replace("dnp3::", ""))]
        for x in im:
            sx = ctx.sym(x)
            for blk, si, st in agg_sites(x, r"Group[24]Var3$"):
                ex = sx.rvalue_expr(st.rv)
                f = dict(ex[3])
                ok = f.get("time") is not None and f["time"][0] == "param" and f.get("flags") is not None and mentions_call(f["flags"], r"get_wire_flags$") and mentions(f["flags"], lambda s_: s_[0] == "param" and s_[1] == "self")
                ctx.check(ok, "cto-variation:%s" % path, "g2v3/g4v3 built from (self flags, given offset): %s" % expr_str(ex)[:120], x.where(blk.idx))

def r10(ctx):
    """The storage under the event buffer. (a) The shared list is sized as the sum of ALL per-type limits (each max_* field of
    EventBufferConfig exactly once): a type left out makes `events.add` fail silently while `insert` reports Created. (b) Unlinking a
    record from the doubly linked VecList rewrites the predecessor's `next` whenever there is a predecessor and the successor's `prev`
    whenever there is a successor - each under its own test only - so a released record is never left reachable (released or
    reported twice) and no live record is cut off."""
    prog = ctx.prog
    mb = prog.body("database::EventBufferConfig::max_events")
    ms = ctx.sym(mb)
    adt = prog.adt("outstation::database::EventBufferConfig")
    fields = [f[0] for f in adt["variants"][0]["fields"] if f[0].startswith("max_")]
    if len(fields) < 8:
        raise AnchorError("EventBufferConfig max_* fields: %s" % fields)
    rets = [e for _, _, _, e in ret_sites(mb, ms)]
    if len(rets) != 1:
        raise AnchorError("max_events: return")
    used = [x[2] for x in expr_walk(rets[0]) if x[0] == "field" and x[1] == ("param", "self")]
    for f in fields:
        ctx.check(used.count(f) == 1, "max_events:%s" % f, "max_events() counts %s once" % f, mb.where(line=mb.line), bad_detail="max_events() counts %s %d times: the shared event list is mis-sized for that type" % (f, used.count(f)))
    ctx.check(all(x[1] in ("Add", "AddWithOverflow") for x in expr_walk(rets[0]) if x[0] == "bin"), "max_events:sum", "max_events() is a plain sum", mb.where(line=mb.line))
    # (b)
    rb = prog.body("event::list::VecList::remove_at")
    rs = ctx.sym(rb)
    sides = {"next": "prev", "prev": "next"}   # written field -> the neighbour through which the node is reached
    found = set()
    for b, si, st in rb.assigns():
        if len(st.dest.proj) < 2 or st.dest.proj[-1] not in (".next", ".prev") or ".metadata" not in st.dest.proj:
            continue
        if not any(pr.startswith("[") for pr in st.dest.proj) and not mentions_call(rs.local_expr(st.dest.local), r"IndexMut<.*>>::index_mut$|::index_mut$|::get_mut$"):
            continue
        if mentions_name(rs.local_expr(st.dest.local), "index") and not mentions_field(rs.local_expr(st.dest.local), "prev") and not mentions_field(rs.local_expr(st.dest.local), "next"):
            continue  # the removed node itself
        w = st.dest.proj[-1][1:]
        via = sides[w]
        found.add(w)
        gs = [g for g in ctx.guards_at(rb, b.idx) if g.kind == "is" and g.a[0] == "field" and g.a[2] in ("prev", "next") and mentions_field(g.a, "metadata") is not None]
        own = [g for g in gs if g.a[2] == via and g.name == "Some"]
        other = [g for g in gs if g.a[2] == w]
        ctx.check(bool(own) and not other, "unlink:neighbour.%s" % w, "the %s neighbour's `%s` is rewritten exactly when there is a %s neighbour" % (via, w, via), rb.where(b.idx), bad_detail="VecList::remove_at rewrites the %s neighbour's `%s` under %s: removing a record with no %s neighbour leaves its %s neighbour pointing at the freed slot" % (via, w, [repr(g) for g in gs], w, via))
        v = rs.rvalue_expr(st.rv)
        ctx.check(v[0] == "field" and v[2] == w and not any(x[0] == "agg" for x in expr_walk(v)), "unlink:neighbour.%s:value" % w, "it receives the removed record's own `%s` link (%s)" % (w, expr_str(v)[:50]), rb.where(b.idx))
    ctx.check(found == {"next", "prev"}, "unlink:both-sides", "remove_at splices both neighbours (%s)" % sorted(found), rb.where(line=rb.line))


def r11(ctx):
    """'nothing is released merely because ... the connection dropped': see engine.session_start_resets."""
    session_start_resets(ctx)

def r12(ctx):
    """'unless displaced by an overflow that it reports': the overflow flag is dropped only when no event type is still at capacity;
    that test covers every type (C13.R5, shared code)."""
    import c13
    c13.r5(ctx)

_SNAKE = lambda v: re.sub(r"(?<!^)(?=[A-Z])", "_", v).lower()
_TYPE_FIELD = {"BinaryInput": "num_binary", "DoubleBitBinaryInput": "num_double_binary", "BinaryOutputStatus": "num_binary_output_status", "Counter": "num_counter",
               "FrozenCounter": "num_frozen_counter", "AnalogInput": "num_analog", "AnalogOutputStatus": "num_analog_output_status", "OctetString": "num_octet_string"}


def r13(ctx):
    """The per-type / per-class event counters are tables keyed by event type and class: in every arm on an `Event` or `EventClass`
    variant the counter touched is the namesake (`Event::BinaryOutputStatus` -> `num_binary_output_status`, `Class2` -> `num_class_2`),
    and each `Insertable` impl touches only the counter of its own type. A cross-wired counter makes `insert` admit an event the
    list has no room for (silently lost, no overflow flagged) or report a type full that is not."""
    prog = ctx.prog
    n = 0
    for bd in prog.bodies.values():
        if "event::buffer" not in bd.path or "::tests" in bd.path or "fmt::" in bd.path or "PartialEq" in bd.path:
            continue
        m = re.search(r"<dnp3::app::measurement::(\w+) as .*Insertable>::(\w+)$", bd.path)
        if m:
            want = _TYPE_FIELD.get(m.group(1))
            for blk, p, rw in bd.places():
                for pr in p.proj:
                    if pr.startswith(".num_"):
                        n += 1
                        ctx.check(pr[1:] == want, "counter-namesake@%s::%s" % (m.group(1), m.group(2)), "%s touches %s" % (m.group(1), pr[1:]), bd.where(blk), bad_detail="<%s as Insertable>::%s touches the counter `%s`, expected `%s`" % (m.group(1), m.group(2), pr[1:], want))
            continue
        gi = ctx.gi(bd)
        for blk, p, rw in bd.places():
            fld = [pr[1:] for pr in p.proj if pr.startswith(".num_")]
            if not fld:
                continue
            gs = [g for g in gi.dominating(blk) if g.kind == "is" and g.enum and re.search(r"(event::buffer::Event|database::config::EventClass|EventClass)$", g.enum)]
            if not gs:
                continue
            g = gs[-1]
            want = "num_" + (_SNAKE(g.name).replace("double_bit_binary", "double_binary") if not g.name.startswith("Class") else "class_" + g.name[5:])
            n += 1
            ctx.check(fld[0] == want, "counter-namesake@%s:%s" % (short(bd.path), g.name), "%s arm touches %s" % (g.name, fld[0]), bd.where(blk), bad_detail="in %s the arm for %s touches the counter `%s`, expected `%s`" % (short(bd.path), g.name, fld[0], want))
    if n < 30:
        raise AnchorError("counter namesake sites: %d" % n)


def r14(ctx):
    """'keeps being offered ... until a response containing it has been confirmed': an event response sent with CON is followed by
    the confirm wait only if its series state is recorded (C11.R9, shared code); otherwise its events stay Written without anybody
    waiting for the confirm."""
    import c11
    c11.r9(ctx)


RULES = [
    ("C03.R1", "T5", "records are removed only by clear_written/insert; clear_written only via the two confirm sites", r1),
    ("C03.R2", "T2", "release sites dominated by sequence-matched confirms", r2),
    ("C03.R3", "T3", "series-abort pairing: unconfirmed series end passes DatabaseHandle::reset", r3),
    ("C03.R4", "T2", "write_unsolicited resets before selecting; reset un-writes records", r4),
    ("C03.R5", "T2+T3", "removal predicate = Written, tells the application; begin/end_confirm bracket", r5),
    ("C03.R6", "T2", "overflow displaces same type, only at capacity, and is reported", r6),
    ("C03.R7", "T3", "counter discipline on removal (total and written)", r7),
    ("C03.R8", "T2+T5", "Written set only after a successful write; selection/iteration state filters", r8),
    ("C03.R9", "T8+T2", "relative-time events: offset = time - CTO, only when representable and of equal time quality", r9),
    ("C03.R10", "T8/T2", "event storage: list sized over all types; unlinking splices both neighbours, each under its own test", r10),
    ("C03.R11", "T2", "the selection is reset before a session's first await (a pre-empted session is dropped without clean-up)", r11),
    ("C03.R12", "T2+T4", "an overflow that displaces an event stays reported until no type is full (shared with C13.R5)", r12),
    ("C03.R13", "T4-namesake", "per-type and per-class event counters are touched only under their namesake variant / type", r13),
    ("C03.R14", "T8", "READ responses are recorded with their series state (shared with C11.R9)", r14),
]


def r15(ctx):
    """'reported ... with the value it had': an event written under the header of one variation with the bytes of another of the same
    size arrives with a different value. The namesake rule is C09.R15 (shared code)."""
    import c09
    c09.r15(ctx)


RULES.append(("C03.R15", "T4-namesake", "an event variation arm writes the object type of its own name (shared with C09.R15)", r15))


def r16(ctx):
    """'reported oldest first': events are written into a fragment in buffer order and the first one that does not fit ends the
    fragment - after a failed Event::write the write loop is left, so no younger (smaller) event can overtake an older one that did
    not fit. (EventWriter also latches Full; this is the buffer-side half, sufficient on its own.)"""
    prog = ctx.prog
    bd = prog.abody("EventBuffer::write_events")
    ws = call_sites(bd, r"event::buffer::Event::write$")
    bodies = [(bd, w) for w in ws]
    for ch in prog.children(bd):  # the same loop written with iterator combinators
        bodies += [(ch, w) for w in call_sites(ch, r"event::buffer::Event::write$")]
    if len(bodies) != 1:
        raise AnchorError("write_events: Event::write sites %d" % len(bodies))
    body, w = bodies[0]
    fails = arm_edges(ctx, body, g_is(lambda x: mentions_call(x, r"event::buffer::Event::write$"), "Err"))
    ctx.check(bool(fails), "write_events:fail-edge", "the failure of Event::write is tested", body.where(w.idx))
    for g in fails:
        again = w.idx in body.reachable(g.edge[1])
        ctx.check(not again, "write_events:stop-at-first-failure", "after a failed write no further event is written into this fragment", body.where(g.edge[0]), bad_detail="after an event failed to fit the loop goes on to the next one: a younger, smaller event is transmitted (and released) before the older one")


RULES.append(("C03.R16", "T2-loop", "the fragment ends at the first event that does not fit (oldest first)", r16))


def r17(ctx):
    """'released only by the confirmation of the response that carried it': each fragment of a solicited series is confirmed under its
    own sequence number - the next fragment carries series.ecsn AFTER the increment (C11.R4, shared code); reusing the old number lets a
    repeated confirm of fragment n release the events of fragment n+1."""
    import c11
    c11.r4(ctx)


RULES.append(("C03.R17", "T2", "each fragment of a series has its own confirm sequence number (shared with C11.R4)", r17))


def r18(ctx):
    """'every event is offered': a READ with a count limit selects the first N MATCHING events - in EventBuffer::select the limit
    (`take`) is applied to the filtered iterator, not in front of the filter (which would bound how many records are looked at)."""
    prog = ctx.prog
    bd = prog.body("event::buffer::EventBuffer::select")
    sym = ctx.sym(bd)
    tk = call_sites(bd, r"Iterator::take$|::take$")
    fl = call_sites(bd, r"Iterator::filter$|::filter$")
    if len(tk) != 1 or len(fl) != 1:
        raise AnchorError("EventBuffer::select: take %d filter %d" % (len(tk), len(fl)))
    te = sym.call_expr(tk[0].term)
    fe = sym.call_expr(fl[0].term)
    ctx.check(mentions_call(te[2][0], r"::filter$") and not mentions_call(fe[2][0], r"::take$"), "select:limit-after-filter", "take(limit) is applied to the filtered records", bd.where(tk[0].idx), bad_detail="EventBuffer::select applies the count limit before the filter: events queued behind `limit` older records of another class / type are never offered to a limited READ")


RULES.append(("C03.R18", "T6", "a READ count limit bounds the matching events, not the records examined", r18))
