"""C17 — master start-up and restart handling runs in order and gates unsolicited data."""
from engine import *
from mir import *

EXPLANATION = (
    "TaskStates::next consults the automatic tasks in the fixed order clear-restart-IIN, disable unsolicited, integrity scan, time sync, "
    "enable unsolicited, event scan (each return sits under its own is_pending test, and each test is reached only on the not-pending/ "
    "not-configured edges of all earlier ones), building the namesake task with the namesake configuration; Association::get_next_task "
    "returns an automatic task before consulting polls or the link status timer. A restart indication demands exactly {clear restart, "
    "integrity scan, enable unsolicited} and re-closes the unsolicited gate; process_iin routes RESTART / NEED_TIME / OVERFLOW through the "
    "namesake getters and is called on every accepted response path before the handler. A session reset re-arms the start-up tasks, the "
    "integrity gate and the duplicate filter, and every exit of MasterSession::run passes it. Data-bearing unsolicited responses are "
    "accepted only after the integrity scan completed. Back-off: first delay = min_delay, then checked_mul(2) clamped by max_delay; every "
    "failure hook re-arms through AutoTaskState::failure."
)
ASSUMPTIONS = ["the temporal 'only then / before periodic polls resume' over arbitrary failure interleavings is decided only as the priority order", "the numeric doubling sequence is not decided beyond its provenance"]
TRUSTED = ["rustc nightly MIR", "facts driver", "rules/mir.py"]

ORDER = ["clear_restart_iin", "disable_unsolicited", "integrity_scan", "time_sync", "enabled_unsolicited", "event_scan"]
CONFIG = {"disable_unsolicited": "disable_unsol_classes", "integrity_scan": "startup_integrity_classes", "enabled_unsolicited": "enable_unsol_classes", "time_sync": "auto_time_sync", "event_scan": "event_scan_on_events_available"}
TASKS = {"clear_restart_iin": "ClearRestartBit", "disable_unsolicited": "DisableUnsolicited", "integrity_scan": "StartupIntegrity", "time_sync": "TimeSync", "enabled_unsolicited": "EnableUnsolicited", "event_scan": "EventScan"}


def r1(ctx):
    prog = ctx.prog
    bd = prog.body("master::association::TaskStates::next")
    sym = ctx.sym(bd)
    cs = call_sites(bd, r"AutoTaskState::create_next_task$")
    if len(cs) != 6:
        raise AnchorError("TaskStates::next: expected 6 create_next_task sites, found %d" % len(cs))
    site = {}
    for c in cs:
        e = sym.call_expr(c.term)
        f = [s[2] for s in expr_walk(e[2][0]) if s[0] == "field" and s[2] in ORDER]
        if not f:
            ctx.bad("next:unknown-state", "create_next_task on %s" % expr_str(e[2][0]), bd.where(c.idx))
            continue
        site[f[0]] = (c, e)
    for f in ORDER:
        if f not in site:
            ctx.bad("next:%s:missing" % f, "no create_next_task for %s" % f, bd.where(line=bd.line))
    pend = lambda f: g_bool(lambda x: mentions_call(x, r"AutoTaskState::is_pending$") and mentions_field(x, f), True)
    notpend = lambda f: (lambda g: (g.kind == "bool" and g.truth is False and mentions_call(g.a, r"AutoTaskState::is_pending$") and mentions_field(g.a, f)))
    for i, f in enumerate(ORDER):
        if f not in site:
            continue
        c, e = site[f]
        if f != "event_scan":
            ctx.require_guards(bd, c.idx, [("%s.is_pending()" % f, pend(f))], "next:%s:own-test" % f, "scheduling %s" % f)
        if f in CONFIG and f != "time_sync":
            cfgf = CONFIG[f]
            ctx.require_guards(bd, c.idx, [("config.%s.any()" % cfgf, lambda g, cfgf=cfgf: g.kind == "bool" and g.truth is True and mentions_call(g.a, r"::any$") and (mentions_field(g.a, cfgf)))], "next:%s:configured" % f, "scheduling %s" % f)
        if f == "time_sync":
            ctx.require_guards(bd, c.idx, [("config.auto_time_sync is Some", g_is(lambda x: mentions_field(x, "auto_time_sync"), "Some"))], "next:time_sync:configured", "scheduling time sync")
        # order: unreachable from the pending-and-configured edges of every earlier task
        for j in range(i):
            pf = ORDER[j]
            if pf not in site:
                continue
            pc, _ = site[pf]
            ctx.check(not bd.can_reach(pc.idx, c.idx), "order:%s-before-%s" % (pf, f), "%s is decided before %s (scheduling %s returns)" % (pf, f, pf), bd.where(c.idx), bad_detail="%s can be scheduled after the %s branch was taken" % (f, pf))
            # and the earlier test dominates the later site
            tests = [g.edge[0] for g in ctx.gi(bd).all_guards() if g.a is not None and ((g.kind == "bool" and mentions_call(g.a, r"AutoTaskState::is_pending$") and mentions_field(g.a, pf)) or (pf in CONFIG and mentions_field(g.a, CONFIG[pf])))]
            ctx.check(bool(tests) and any(bd.block_dominates(t, c.idx) for t in tests), "order:%s-test-dominates-%s" % (pf, f), "the %s test is on every path to %s" % (pf, f), bd.where(c.idx), bad_detail="%s can be scheduled without consulting %s first" % (f, pf))
        # the builder closure builds the namesake task from the namesake config
        clo = e[2][1]
        cdef = clo[1] if clo[0] in ("closure", "fn") else None  # a non-capturing builder may be a nested fn passed by name
        cb = prog.bodies.get(cdef) if cdef else None
        if cb is None:
            ctx.bad("next:%s:builder" % f, "builder closure not found", bd.where(c.idx))
            continue
        csym = ctx.sym(cb)
        built = set()
        for b_, si_, st_ in cb.assigns():
            if st_.rv["k"] == "agg" and st_.rv.get("ak") == "enum":
                built.add(st_.rv["var"])
        for b_ in cb.calls():
            m = re.search(r"TimeSyncTask::get_procedure$", b_.term.callee or "")
            if m:
                built.add("TimeSync")
        ctx.check(TASKS[f] in built, "next:%s:task" % f, "%s builds %s (%s)" % (f, TASKS[f], sorted(built)), cb.where(line=cb.line), bad_detail="the %s slot builds %s" % (f, sorted(built)))
        if f in CONFIG and f not in ("time_sync", "event_scan"):
            txt = " ".join(expr_str(csym.rvalue_expr(st_.rv)) for _, _, st_ in cb.assigns() if st_.rv["k"] == "agg")
            ctx.check(CONFIG[f] in txt, "next:%s:task-config" % f, "built from config.%s" % CONFIG[f], cb.where(line=cb.line), bad_detail="the %s task is built from `%s`" % (f, txt[:100]))
    # Association::get_next_task: automatic tasks first
    gb = prog.body("master::association::Association::get_next_task")
    gs_ = ctx.sym(gb)
    nx = call_sites(gb, r"TaskStates::next$")
    pl = call_sites(gb, r"PollMap::next$")
    ls = call_sites(gb, r"Association::next_link_status_task$")
    if not (len(nx) == 1 and len(pl) == 1 and ls):
        raise AnchorError("get_next_task: sites")
    ctx.check(gb.block_dominates(nx[0].idx, pl[0].idx) and all(gb.block_dominates(pl[0].idx, x.idx) for x in ls), "get_next_task:order", "automatic tasks, then polls, then link status", gb.where(line=gb.line))
    none_guard = lambda g: g.kind in ("is", "bool") and mentions_call(g.a, r"TaskStates::next$")
    ctx.check(any(g.kind == "is" and g.name == "None" and mentions_call(g.a, r"TaskStates::next$") for g in ctx.guards_at(gb, pl[0].idx)) or any(none_guard(g) for g in ctx.guards_at(gb, pl[0].idx)), "get_next_task:polls-only-if-no-auto", "polls are consulted only when no automatic task is due or waiting", gb.where(pl[0].idx), bad_detail="polls are consulted while an automatic task is pending")


def r2(ctx):
    prog = ctx.prog
    bd_c = prog.find_bodies("master::association::TaskStates::on_restart_iin")
    # (the three demands may also sit directly in Association::on_restart_iin_observed, the helper's only caller)
    bd = bd_c[0] if len(bd_c) == 1 else prog.body("master::association::Association::on_restart_iin_observed")
    sym = ctx.sym(bd)
    demanded = set()
    for c in call_sites(bd, r"AutoTaskState::demand$"):
        e = sym.call_expr(c.term)
        a_ = strip_passthrough(e[2][0])
        demanded |= ({a_[2]} if a_[0] == "field" else {s[2] for s in expr_walk(a_) if s[0] == "field"})
    ctx.check(demanded == {"clear_restart_iin", "integrity_scan", "enabled_unsolicited"}, "restart:demands", "a restart demands %s" % sorted(demanded), bd.where(line=bd.line), bad_detail="on_restart_iin demands %s, expected clear_restart_iin, integrity_scan, enabled_unsolicited" % sorted(demanded))
    ds_ = call_sites(bd, r"AutoTaskState::demand$")
    ctx.check(len({repr(ctx.guards_at(bd, c.idx)) for c in ds_}) <= 1, "restart:unconditional", "all three are demanded under one and the same condition", bd.where(line=bd.line))
    ob = prog.body("master::association::Association::on_restart_iin_observed")
    cs = call_sites(ob, r"TaskStates::on_restart_iin$")
    if not cs and bd is ob:
        cs = call_sites(ob, r"AutoTaskState::demand$")[:1]
    ws = [(b, st) for b, si, st in field_writes(ob, "startup_integrity_done")]
    ctx.check(len(cs) == 1 and len(ws) == 1 and ws[0][1].rv["k"] == "use" and ws[0][1].rv["a"].value() == 0, "restart:closes-gate", "a restart also clears startup_integrity_done", ob.where(line=ob.line), bad_detail="on_restart_iin_observed does not clear startup_integrity_done: unsolicited data is accepted before the repeated integrity poll")
    if cs and ws:
        gs1 = {repr(g) for g in ctx.guards_at(ob, cs[0].idx)}
        gs2 = {repr(g) for g in ctx.guards_at(ob, ws[0][0].idx)}
        ctx.check(gs1 == gs2, "restart:same-condition", "both happen under the same condition", ob.where(line=ob.line))
    pb = prog.body("master::association::Association::process_iin")
    ps = ctx.sym(pb)
    route = {"on_restart_iin_observed": "get_device_restart", "on_need_time_observed": "get_need_time", "on_event_buffer_overflow_observed": "get_event_buffer_overflow"}
    for h, getter in route.items():
        hs = call_sites(pb, r"Association::%s$" % h)
        ctx.check(len(hs) == 1, "process_iin:%s:site" % h, "%s is called" % h, pb.where(line=pb.line))
        for c in hs:
            ctx.require_guards(pb, c.idx, [("iin.%s()" % getter, g_bool(lambda x, getter=getter: mentions_call(x, r"::%s$" % getter), True))], "process_iin:%s" % h, h)
            ctx.check(len({g.edge for g in ctx.guards_at(pb, c.idx)}) == 1, "process_iin:%s:only-that" % h, "no other condition", pb.where(c.idx))
    for k in (1, 2, 3):
        ws = field_writes(pb, "class%d" % k)
        ok = len(ws) == 1 and mentions_call(ps.rvalue_expr(ws[0][2].rv), r"::get_class_%d_events$" % k)
        ctx.check(ok, "process_iin:class%d" % k, "events_available.class%d <- iin1.get_class_%d_events()" % (k, k), pb.where(line=pb.line))
    # process_iin on every accepted response path, before the handler
    for fn_, handler in (("master::task::MasterSession::run_single_non_read_task", r"NonReadTask::handle_response$"), ("master::task::MasterSession::process_read_response", r"ReadTask::process_response$"), ("master::task::MasterSession::handle_unsolicited", r"Association::handle_unsolicited_response$")):
        bd2 = prog.abody(fn_)
        pi = call_sites(bd2, r"Association::process_iin$")
        hd = call_sites(bd2, handler)
        ok = len(pi) >= 1 and len(hd) >= 1 and all(any(bd2.block_dominates(p.idx, h.idx) for p in pi) for h in hd)
        ctx.check(ok, "process_iin-before-handler@%s" % fn_.split("::")[-1], "process_iin dominates %s" % handler.rstrip("$"), bd2.where(line=bd2.line), bad_detail="%s hands a response to its handler without process_iin: a restart / need-time / overflow indication is missed" % fn_.split("::")[-1])
        for p in pi:
            e = ctx.sym(bd2).call_expr(p.term)
            ctx.check(mentions_field(e[2][1], "iin") and (mentions_name(e[2][1], "response") or mentions_call(e[2][1], r"validate_non_read_response$")), "process_iin:arg@%s" % fn_.split("::")[-1], "process_iin(response.header.iin)", bd2.where(p.idx))
    eb = prog.body("master::association::Association::on_event_buffer_overflow_observed")
    for c in call_sites(eb, r"AutoTaskState::demand$"):
        e = ctx.sym(eb).call_expr(c.term)
        ctx.check(mentions_field(e[2][0], "integrity_scan"), "overflow:demands-integrity", "overflow demands the integrity scan", eb.where(c.idx))
        ctx.require_guards(eb, c.idx, [("config.auto_integrity_scan_on_buffer_overflow", g_bool("auto_integrity_scan_on_buffer_overflow", True))], "overflow:configured", "demanding an integrity scan on overflow")
    nb = prog.body("master::association::Association::on_need_time_observed")
    for c in call_sites(nb, r"AutoTaskState::demand$"):
        ctx.check(mentions_field(ctx.sym(nb).call_expr(c.term)[2][0], "time_sync"), "need-time:demands-time-sync", "NEED_TIME demands the time sync task", nb.where(c.idx))


def r3(ctx):
    prog = ctx.prog
    rb = prog.body("master::association::Association::reset")
    rs = ctx.sym(rb)
    ctx.check(len(call_sites(rb, r"TaskStates::reset$")) == 1, "reset:auto_tasks", "Association::reset re-arms the automatic tasks", rb.where(line=rb.line), bad_detail="Association::reset does not reset auto_tasks: after a reconnect the start-up sequence is skipped")
    ws = field_writes(rb, "startup_integrity_done")
    ctx.check(len(ws) == 1 and ws[0][2].rv["a"].value() == 0, "reset:integrity-gate", "startup_integrity_done = false", rb.where(line=rb.line))
    ws = field_writes(rb, "last_unsol_frag")
    ctx.check(len(ws) == 1 and variant_name(rs.rvalue_expr(ws[0][2].rv)) == "None", "reset:duplicate-filter", "last_unsol_frag = None", rb.where(line=rb.line))
    rets = return_blocks(rb)
    for rx, nm in ((r"TaskStates::reset$", "auto_tasks"),):
        blocks = {b.idx for b in call_sites(rb, rx)}
        ctx.check(all(must_pass(rb, 0, r, blocks) for r in rets), "reset:%s:every-path" % nm, "on every path", rb.where(line=rb.line))
    tb = prog.body("master::association::TaskStates::reset")
    ctx.check(bool(call_sites(tb, r"TaskStates::new$")), "TaskStates::reset->new", "TaskStates::reset = new()", tb.where(line=tb.line))
    nb = prog.body("master::association::TaskStates::new")
    for b, si, st in agg_sites(nb, r"association::TaskStates$"):
        e = ctx.sym(nb).rvalue_expr(st.rv)
        init = {n_: variant_name(x) for n_, x in e[3]}
        want = {"disable_unsolicited": "Pending", "integrity_scan": "Pending", "enabled_unsolicited": "Pending", "clear_restart_iin": "Idle", "time_sync": "Idle", "event_scan": "Idle"}
        ctx.check(init == want, "TaskStates::new", "initial states %s" % init, nb.where(b.idx), bad_detail="TaskStates::new = %s, expected %s" % (init, want))
    mb = prog.body("master::association::AssociationMap::reset")
    ctx.check(bool(call_sites(mb, r"Association::reset$")), "AssociationMap::reset", "every association is reset", mb.where(line=mb.line))
    sb = prog.body("master::task::MasterSession::reset")
    ctx.check(bool(call_sites(sb, r"AssociationMap::reset$")), "MasterSession::reset", "MasterSession::reset resets the associations", sb.where(line=sb.line))
    run = prog.abody("master::task::MasterSession::run")
    resets = {b.idx for b in call_sites(run, r"MasterSession::reset$")}
    ok = bool(resets) and all(not run.can_reach(0, r, removed_blocks=resets) for r in return_blocks(run))
    ctx.check(ok, "MasterSession::run:exit-resets", "every exit of MasterSession::run passes reset", run.where(line=run.line), bad_detail="MasterSession::run can return without reset: the next connection skips the start-up sequence")
    ab = prog.body("master::association::Association::new")
    for b, si, st in agg_sites(ab, r"association::Association$"):
        e = ctx.sym(ab).rvalue_expr(st.rv)
        ctx.check(const_value(prog, agg_field(e, "startup_integrity_done")) == 0 and mentions_call(agg_field(e, "auto_tasks"), r"TaskStates::new$"), "Association::new", "a new association starts with the gate closed and start-up tasks pending", ab.where(b.idx))


def r4(ctx):
    prog = ctx.prog
    bd = prog.abody("master::association::Association::handle_unsolicited_response")
    sym = ctx.sym(bd)
    gate = [
        ("is_integrity_complete()", g_bool(lambda x: mentions_call(x, r"Association::is_integrity_complete$"), True)),
        ("raw_objects.is_empty()", g_bool(lambda x: mentions_field(x, "raw_objects") and mentions_call(x, r"::is_empty$"), True)),
    ]
    ex = call_sites(bd, r"master::extract::extract_measurements$")
    for c in ex:
        require_cut(ctx, bd, c.idx, gate, "unsol:deliver", "delivering an unsolicited response")
    k = 0
    for b, si, st, e in ret_sites(bd, sym):
        if const_value(prog, e) == 1:
            k += 1
            require_cut(ctx, bd, b.idx, gate, "unsol:confirm#%d" % k, "accepting (confirming) an unsolicited response")
    fl = [b for b, si, st, e in ret_sites(bd, sym) if const_value(prog, e) == 0]
    ctx.check(len(fl) == 1, "unsol:reject-exists", "data before the integrity poll is rejected (false)", bd.where(line=bd.line))
    ib = prog.body("master::association::Association::is_integrity_complete")
    e = [x for _, _, _, x in ret_sites(ib, ctx.sym(ib))]
    txt = " ".join(expr_str(x) for x in e) + " " + " ".join(repr(g) for g in ctx.gi(ib).all_guards())
    ctx.check("startup_integrity_done" in txt and "startup_integrity_classes" in txt, "is_integrity_complete", "= !config.startup_integrity_classes.any() || startup_integrity_done", ib.where(line=ib.line))
    # the gate opens only when the start-up integrity scan completes
    n = 0
    for b2 in prog.bodies_matching(r"master::association::"):
        if "::tests::" in b2.path:
            continue
        for b, si, st in field_writes(b2, "startup_integrity_done"):
            if st.rv["k"] == "use" and st.rv["a"].value() == 1:
                n += 1
                ctx.check(b2.path.endswith("Association::on_integrity_scan_complete"), "gate-opens@%s" % short(b2.path), "startup_integrity_done = true in %s" % b2.path, b2.where(b.idx))
    ctx.check(n == 1, "gate-opens:once", "one place opens the gate", "")
    cg = prog.callgraph
    callers = {p for p, blk, c, how in cg.callers_of(lambda c: c.endswith("Association::on_integrity_scan_complete")) if "::tests::" not in p}
    ctx.check(callers == {prog.body("master::tasks::ReadTask::complete").path}, "gate-opens:caller", "only ReadTask::complete calls it (%s)" % sorted(short(x) for x in callers), "")
    cb = prog.body("master::tasks::ReadTask::complete")
    for c in call_sites(cb, r"Association::on_integrity_scan_complete$"):
        ctx.require_guards(cb, c.idx, [("task is StartupIntegrity", g_is(lambda x: x == ("param", "self"), "StartupIntegrity"))], "gate-opens:startup-integrity", "opening the gate")


def r5(ctx):
    prog = ctx.prog
    bd = prog.body("app::retry::ExponentialBackOff::on_failure")
    sym = ctx.sym(bd)
    arms = []
    for b0, si0, st0, e0 in ret_sites(bd, sym):
        arms.extend((gs_, e_, bd.blocks[blk_]) for gs_, e_, blk_ in value_arms(ctx, bd, sym, e0, b0.idx))
    for gs, e, b in arms:
        # a local `max_delay` bound to self.strategy.max_delay is the same thing
        e = resolve_defs(bd, sym, e, depth=1)[0] if mentions(e, lambda x: x[0] == "var") and len(resolve_defs(bd, sym, e, depth=1)) == 1 else e
        first = any(g.kind == "is" and g.name == "None" and mentions_field(g.a, "last") for g in gs)
        if first:
            ctx.check(e == ("field", ("field", ("param", "self"), "strategy"), "min_delay"), "backoff:first=min_delay", "first delay = strategy.min_delay (%s)" % expr_str(e), bd.where(b.idx))
        else:
            ok = mentions_call(e, r"Duration::checked_mul$") and mentions_const(e, 2) and mentions_call(e, r"::min$") and mentions_field(e, "max_delay") and mentions_field(e, "last")
            ctx.check(ok, "backoff:double-and-clamp", "later delays = min(last.checked_mul(2), max_delay): %s" % expr_str(e)[:120], bd.where(b.idx), bad_detail="later delay = %s" % expr_str(e)[:140])
            # the clamp is the LAST operation: the doubled value is what gets limited, not the value before doubling
            is_max = lambda x: x[0] == "field" and x[2] == "max_delay"
            r_ = strip_passthrough(e)
            clamp_last = (r_[0] == "call" and re.search(r"::(min|clamp)$", r_[1] or "") and any(is_max(strip_passthrough(a)) for a in r_[2]) and any(mentions_call(a, r"checked_mul$|saturating_mul$|::mul$") for a in r_[2])) or is_max(r_) \
                or any(g.kind == "rel" and g.op in ("Le", "Lt") and mentions_field(g.b, "max_delay") and mentions_call(g.a, r"mul$") for g in gs)
            ctx.check(clamp_last, "backoff:clamp-after-double", "the limit max_delay is applied to the doubled delay", bd.where(b.idx), bad_detail="the delay returned is `%s`: max_delay is not applied to the doubled value, so a retry delay can exceed the configured maximum" % expr_str(e)[:140])
    ws = field_writes(bd, "last")
    rets_ = return_blocks(bd)
    stored = bool(ws) and all(must_pass(bd, 0, r_, {w[0].idx for w in ws}) for r_ in rets_)
    ctx.check(stored, "backoff:stores-last", "every path stores the delay in `last` (%d site(s))" % len(ws), bd.where(line=bd.line))
    fb = prog.body("master::association::AutoTaskState::failure")
    fs = ctx.sym(fb)
    ons = call_sites(fb, r"ExponentialBackOff::on_failure$")
    frets = return_blocks(fb)
    ctx.check(bool(ons) and all(must_pass(fb, 0, r_, {c.idx for c in ons}) for r_ in frets), "failure:both-arms", "every path of AutoTaskState::failure goes through on_failure (%d site(s))" % len(ons), fb.where(line=fb.line))
    # ...applied to the back-off that is kept (self's own, or the named local that is stored afterwards), not to a temporary copy
    for c_ in ons:
        a0 = c_.term.args[0]
        cur = None if a0.is_const() else a0.place.local
        root = None
        for _ in range(8):
            if cur is None:
                break
            if cur == 1 or fb.local_name(cur):
                root = cur
                break
            ds = fb.defs.get(cur, [])
            if len(ds) != 1 or ds[0][1] == "term":
                break
            rv = fb.blocks[ds[0][0]].stmts[ds[0][1]].rv
            if rv["k"] in ("ref", "rawptr"):
                cur = rv["p"].local
            elif rv["k"] == "use" and not rv["a"].is_const():
                cur = rv["a"].place.local
            else:
                break
        ctx.check(root is not None, "failure:advances-kept-backoff", "on_failure advances the stored back-off (receiver rooted at %s)" % (fb.local_name(root) if root else "?"), fb.where(c_.idx), bad_detail="on_failure is applied to a temporary (%s): the stored back-off never advances, retries stop doubling" % expr_str(fs.call_expr(c_.term)[2][0])[:60])
    n = 0
    for b, si, st in agg_sites(fb, r"association::AutoTaskState$", "Failed"):
        e = fs.rvalue_expr(st.rv)
        n += 1
        when = agg_field(e, "1")
        ctx.check(mentions_call(when, r"Instant::now$") and mentions_call(when, r"on_failure$"), "failure:deadline#%d" % n, "retry at now + delay", fb.where(b.idx))
    for c in call_sites(fb, r"ExponentialBackOff::new$"):
        ctx.check(mentions_field(fs.call_expr(c.term)[2][0], "auto_tasks_retry_strategy"), "failure:strategy", "back-off uses config.auto_tasks_retry_strategy", fb.where(c.idx))
    # every failure hook re-arms its own task
    hooks = {"on_integrity_scan_failure": "integrity_scan", "on_event_scan_failure": "event_scan", "on_clear_restart_iin_failure": "clear_restart_iin", "on_time_sync_failure": "time_sync", "on_enable_unsolicited_failure": "enabled_unsolicited", "on_disable_unsolicited_failure": "disable_unsolicited"}
    for h, f in hooks.items():
        hb = prog.body("master::association::Association::" + h)
        cs = call_sites(hb, r"AutoTaskState::failure$")
        ok = len(cs) == 1 and mentions_field(ctx.sym(hb).call_expr(cs[0].term)[2][0], f)
        ctx.check(ok, "hook:%s" % h, "%s -> %s.failure(&config)" % (h, f), hb.where(line=hb.line))
    # and their success counterparts mark the namesake done
    dones = {"on_integrity_scan_complete": "integrity_scan", "on_event_scan_complete": "event_scan", "on_time_sync_success": "time_sync", "on_enable_unsolicited_response": "enabled_unsolicited", "on_disable_unsolicited_response": "disable_unsolicited"}
    for h, f in dones.items():
        hb = prog.body("master::association::Association::" + h)
        cs = call_sites(hb, r"AutoTaskState::done$")
        ok = len(cs) == 1 and mentions_field(ctx.sym(hb).call_expr(cs[0].term)[2][0], f)
        ctx.check(ok, "done:%s" % h, "%s -> %s.done()" % (h, f), hb.where(line=hb.line))
    cb = prog.body("master::association::Association::on_clear_restart_iin_response")
    for c in call_sites(cb, r"AutoTaskState::done$"):
        ctx.require_guards(cb, c.idx, [("restart bit cleared", g_bool(lambda x: mentions_call(x, r"::get_device_restart$"), False))], "clear-restart:done", "clear_restart_iin.done()")
    # AutoTask::on_task_error -> namesake failure hook
    ab = prog.body("master::tasks::auto::AutoTask::on_task_error")
    want = {"ClearRestartBit": "clear_restart_iin", "EnableUnsolicited": "enable_unsolicited", "DisableUnsolicited": "disable_unsolicited"}
    k = 0
    for c in ab.calls():
        cal = (c.term.callee or "").split("::")[-1]
        if not cal.startswith("on_"):
            continue
        gs_all = ctx.guards_at(ab, c.idx)
        gs = [g for g in gs_all if g.kind == "is" and g.a == ("param", "self")]
        v = gs[0].name if gs else "?"
        rejected = any(g.kind == "is" and g.name == "RejectedByIin2" for g in gs_all)
        k += 1
        ok = want.get(v, "?") in cal and (cal.endswith("_response") if rejected else cal.endswith("_failure"))
        ctx.check(ok, "auto:on_task_error:%s:%s" % (v, "iin2" if rejected else "failure"), "%s -> %s" % (v, cal), ab.where(c.idx), bad_detail="AutoTask::%s (%s) is reported to %s" % (v, "IIN2 rejection" if rejected else "failure", cal))
    ctx.check(k == 6, "auto:on_task_error:arms", "three variants x (IIN2 rejection | failure) = %d hooks" % k, ab.where(line=ab.line))
    hb2 = prog.body("master::tasks::auto::AutoTask::handle")
    for c in hb2.calls():
        cal = (c.term.callee or "").split("::")[-1]
        if not cal.startswith("on_"):
            continue
        gs = [g for g in ctx.guards_at(hb2, c.idx) if g.kind == "is" and g.a == ("param", "self")]
        v = gs[0].name if gs else "?"
        ctx.check(want.get(v, "?") in cal and cal.endswith("_response"), "auto:handle:%s" % v, "%s -> %s" % (v, cal), hb2.where(c.idx), bad_detail="AutoTask::%s response is reported to %s" % (v, cal))
    cn = prog.body("master::association::AutoTaskState::create_next_task")
    for b, si, st, e in ret_sites(cn, ctx.sym(cn)):
        v = variant_name(e)
        gs = ctx.guards_at(cn, b.idx)
        if v == "Now" and any(g.kind == "is" and g.name == "Failed" for g in gs):
            ctx.require_guards(cn, b.idx, [("now >= retry time", g_rel("Ge", lambda x: mentions_call(x, r"Instant::now$"), lambda x: mentions(x, lambda s: s[0] == "variant" and s[2] == "Failed")))], "create_next_task:retry-not-early", "retrying a failed automatic task")


def r_plumb(ctx):
    namesake_plumbing(ctx, ctx.prog, r"^(<)?dnp3::master::", 40, "plumbing")
    arg_namesakes(ctx, ctx.prog)


def r7(ctx):
    """'a failing automatic task is retried after delays that start at the configured minimum, double each time': the back-off
    only advances if the failure is REPORTED; a task handler that returns an error without completing / reporting (C16.R7) leaves the
    task Pending and it is re-issued at once, forever. Shared code."""
    import c16
    c16.r7(ctx)

RULES = [
    ("C17.R1", "T2-order", "priority order of the automatic tasks; namesake tasks; auto before polls", r1),
    ("C17.R2", "T5/T2", "what a restart indication re-arms; process_iin routing and placement", r2),
    ("C17.R3", "T5/T3", "a session reset re-arms start-up; every exit of the master session resets", r3),
    ("C17.R4", "T2-cut", "unsolicited data gated by integrity completion; who opens the gate", r4),
    ("C17.R5", "T8/T11", "back-off provenance and clamping; failure/success hooks are namesakes", r5),
    ("C17.R6", "T8-namesake", "the master's association configuration is plumbed field-to-namesake", r_plumb),
    ("C17.R7", "T3", "every failure path of an automatic task reports to its failure hook (shared with C16.R7)", r7),
]


def r8(ctx):
    """'a rejected start-up task is retried with back-off and keeps unsolicited gated': whether an integrity poll / auto task counts as
    rejected is Iin::has_bad_request_error() - all three IIN2 rejection bits (C16.R10, shared code)."""
    import c16
    c16.r10(ctx)


RULES.append(("C17.R8", "T4", "a response is a rejection when any of the three IIN2 rejection bits is set (shared with C16.R10)", r8))


def r9(ctx):
    """'start-up in order; a rejected or MALFORMED start-up poll is retried and keeps unsolicited gated': whether the integrity poll
    succeeded is the READ acceptance test of the master (C15.R2: unparsable objects fail the task); whether an integrity poll is
    configured at all is Classes::any, which consults class0 and the event classes (C14.R12). Shared code."""
    import c15, c14
    c15.r2(ctx)
    c14.r12(ctx)


RULES.append(("C17.R9", "T2/T4-total", "a malformed integrity reply fails the poll (C15.R2); Classes::any sees class 0 and the event classes (C14.R12)", r9))
