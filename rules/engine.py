"""Rule engine: contexts, instances, floors, known findings, evidence, helpers for rules."""
import json
import os
import re
import time
import traceback

from mir import (AnchorError, Guard, GuardIndex, Program, Sym, expr_str, expr_walk, fmt_guards,
                 is_tracing, mentions, mentions_call, mentions_const, mentions_constdef, mentions_field, mentions_name, short)

VERIF = os.path.dirname(os.path.dirname(os.path.abspath(__file__)))


class Inst:
    __slots__ = ("rule", "key", "status", "detail", "where", "nontrivial")

    def __init__(self, rule, key, status, detail, where, nontrivial=True):
        self.rule = rule
        self.key = key
        self.status = status  # ok | violation | known
        self.detail = detail
        self.where = where
        self.nontrivial = nontrivial

    def as_dict(self):
        return {"rule": self.rule, "key": self.key, "status": self.status, "detail": self.detail, "where": self.where}


class Ctx:
    def __init__(self, prop, facts_dir, tier="quick"):
        self.prop = prop
        self.facts_dir = facts_dir
        self.tier = tier
        self._progs = {}
        self.insts = []
        self.rule_meta = {}
        self.cur_rule = None
        self._gi = {}
        self.notes = []

    # --- programs --------------------------------------------------------------------------
    def program(self, crate="dnp3"):
        if crate not in self._progs:
            p = os.path.join(self.facts_dir, crate + ".json")
            if not os.path.exists(p):
                raise AnchorError("facts for crate %s missing at %s" % (crate, p))
            self._progs[crate] = Program(p)
        return self._progs[crate]

    @property
    def prog(self):
        return self.program("dnp3")

    @property
    def ffi(self):
        return self.program("dnp3_ffi")

    def gi(self, body):
        k = body.path
        if k not in self._gi:
            self._gi[k] = GuardIndex(body)
        return self._gi[k]

    def sym(self, body):
        return self.gi(body).sym

    # --- recording -------------------------------------------------------------------------
    def ok(self, key, detail="", where="", nontrivial=True):
        self.insts.append(Inst(self.cur_rule, key, "ok", detail, where, nontrivial))

    def bad(self, key, detail="", where=""):
        self.insts.append(Inst(self.cur_rule, key, "violation", detail, where))

    def check(self, cond, key, detail="", where="", bad_detail=None):
        if cond:
            self.ok(key, detail, where)
        else:
            self.bad(key, bad_detail or detail, where)
        return cond

    def note(self, text):
        self.notes.append("%s: %s" % (self.cur_rule, text))

    # --- guard requirements ----------------------------------------------------------------
    def guards_at(self, body, block):
        return self.gi(body).dominating(block)

    def require_guards(self, body, block, reqs, key, what=""):
        """reqs: list of (label, predicate(Guard)->bool). One instance per requirement."""
        gs = self.guards_at(body, block)
        allok = True
        for label, pred in reqs:
            hit = [g for g in gs if pred(g)]
            k = "%s|%s" % (key, label)
            if hit:
                self.ok(k, "%s dominated by %s" % (what, hit[0]), body.where(block))
            else:
                allok = False
                self.bad(k, "%s is NOT dominated by a guard `%s`; dominating guards: %s" % (what, label, "; ".join(fmt_guards(gs)) or "none"), body.where(block))
        return allok


# ---------------------------------------------------------------------------------------------
# guard predicates
# ---------------------------------------------------------------------------------------------
SWAP = {"Eq": "Eq", "Ne": "Ne", "Lt": "Gt", "Gt": "Lt", "Le": "Ge", "Ge": "Le"}


def _as_pred(x):
    """A side spec: callable(expr)->bool, or a string meaning 'mentions a field/param/var/call of that name'."""
    if callable(x):
        return x
    if x is None:
        return lambda e: True
    name = x

    def p(e):
        return mentions(e, lambda s: (s[0] == "field" and s[2] == name) or (s[0] in ("param", "var", "capture") and s[1] == name) or (s[0] == "call" and (s[1] or "").endswith("::" + name)) or (s[0] == "const" and isinstance(s[2], str) and s[2].endswith("::" + name)))

    return p


def g_rel(op, a=None, b=None):
    """Guard `op(a, b)` (or the swapped form) holds. op may be a set/list of acceptable ops."""
    ops = {op} if isinstance(op, str) else set(op)
    pa, pb = _as_pred(a), _as_pred(b)

    def pred(g):
        if g.kind != "rel":
            return False
        if g.op in ops and pa(g.a) and pb(g.b):
            return True
        if SWAP[g.op] in ops and pa(g.b) and pb(g.a):
            return True
        return False

    return pred


def g_is(a, name):
    """Guard `a is Variant name` (name may be a set)."""
    names = {name} if isinstance(name, str) else set(name)
    pa = _as_pred(a)

    def pred(g):
        return g.kind == "is" and g.name in names and pa(g.a)

    return pred


def g_oneof(a, names):
    names = set(names)
    pa = _as_pred(a)

    def pred(g):
        if g.kind == "is":
            return g.name in names and pa(g.a)
        if g.kind == "oneof":
            return set(g.name) <= names and pa(g.a)
        return False

    return pred


def g_bool(a, truth):
    pa = _as_pred(a)

    def pred(g):
        return g.kind == "bool" and g.truth == truth and pa(g.a)

    return pred


def g_ok(a):
    """`a` went through `?` (Continue) or was matched as Ok/Some."""
    pa = _as_pred(a)

    def pred(g):
        return g.kind == "is" and g.name in ("Continue", "Ok", "Some") and pa(g.a)

    return pred


def g_any(*preds):
    def pred(g):
        return any(p(g) for p in preds)

    return pred


def g_int(a, value):
    pa = _as_pred(a)

    def pred(g):
        return g.kind == "int" and g.name == value and pa(g.a)

    return pred


# ---------------------------------------------------------------------------------------------
# site finders
# ---------------------------------------------------------------------------------------------
def call_sites(body, regex, skip_tracing=True):
    r = re.compile(regex)
    out = []
    for b in body.calls():
        t = b.term
        if skip_tracing and is_tracing(t.macros):
            continue
        c = t.callee or ""
        f = t.declared or ""
        if r.search(c) or r.search(f):
            out.append(b)
    return out


def agg_sites(body, adt_regex, variant=None):
    """(block, stmt_index, stmt) constructing adt (variant)."""
    r = re.compile(adt_regex)
    out = []
    for b, si, st in body.assigns():
        rv = st.rv
        if rv["k"] == "agg" and rv.get("adt") and r.search(rv["adt"]):
            if variant is None or rv["var"] == variant or (not isinstance(variant, str) and rv["var"] in variant):
                out.append((b, si, st))
    return out


def field_writes(body, field, skip_tracing=True):
    """Assignments whose destination path ends in field `field`."""
    out = []
    for b, si, st in body.assigns():
        fs = st.dest.fields()
        if st.dest.proj and st.dest.proj[-1] == "." + field:
            out.append((b, si, st))
    return out


def _return_aliases(body):
    """Locals that stand for the return value in a body with inlined frames (mir.Body._inline_new_fns): `full` = the return local of
    an inlined helper whose result the caller returns as is; `err` = one whose result goes through `?` (its Err values leave the
    caller). Fixpoint over nested frames."""
    frames = getattr(body, "frames", None)
    if not frames:
        return {0}, set(), set()
    full, err, copies = {0}, set(), set()
    changed = True
    while changed:
        changed = False
        for fr in frames:
            d = fr["dest"]
            if not d.is_local():
                continue
            D = d.local
            Ds = fr.get("aliases") if fr.get("async") else {D}
            if Ds & full and fr["ret"] not in full:
                full.add(fr["ret"]); changed = True
            # `return helper(..)` / helper call in tail position: the hand-over to the return local follows the call directly
            # (a result parked in a local and returned later keeps its own, later, return site - as before the extraction)
            chain, cur = [], fr["target"]
            for _ in range(5):
                chain.append(cur)
                tb = body.blocks[cur]
                if tb.term.kind != "goto" and not (fr.get("async") and tb.term.kind == "drop"):
                    break
                cur = tb.term.d["t"]
            for bi in chain:
                for si, st in enumerate(body.blocks[bi].stmts):
                    if st.kind == "assign" and st.dest.is_local() and st.dest.local in full and st.rv["k"] == "use" and not st.rv["a"].is_const() and st.rv["a"].place.is_local() and st.rv["a"].place.local in Ds:
                        copies.add((bi, si))
                        if fr["ret"] not in full:
                            full.add(fr["ret"]); changed = True
            for b in body.calls(live_only=False):
                c = b.term.callee or b.term.declared or ""
                if (c.endswith("::Try>::branch") or (b.term.declared or "").endswith("Try::branch")) and b.term.args and not b.term.args[0].is_const() and b.term.args[0].place.is_local() and b.term.args[0].place.local in Ds:
                    if fr["ret"] not in err and fr["ret"] not in full:
                        err.add(fr["ret"]); changed = True
            if Ds & err and fr["ret"] not in err and fr["ret"] not in full:
                err.add(fr["ret"]); changed = True
    for fr in frames:
        # the statement that hands a frame's return local to its destination is plumbing, not a return site
        for b, si, st in body.assigns():
            if st.rv["k"] == "use" and not st.rv["a"].is_const() and st.rv["a"].place.is_local() and st.rv["a"].place.local == fr["ret"] and st.dest == fr["dest"]:
                copies.add((b.idx, si))
            if fr.get("async") and st.dest.is_local() and st.dest.local in fr["aliases"]:
                copies.add((b.idx, si))
    return full, err, copies


def ret_sites(body, sym, pred=None):
    """Assignments to _0 (return value); pred on the expression. In a body with inlined helper frames, also the assignments to the
    return local of a helper whose result is returned as is, and the Err(..) values of a helper whose result is propagated by `?`."""
    out = []
    full, err, copies = _return_aliases(body)
    for b, si, st in body.assigns():
        if not st.dest.is_local() or (b.idx, si) in copies:
            continue
        l = st.dest.local
        if l in full:
            e = sym.rvalue_expr(st.rv)
            if pred is None or pred(e):
                out.append((b, si, st, e))
        elif l in err:
            e = sym.rvalue_expr(st.rv)
            if (e[0] == "agg" and e[2] == "Err") or (e[0] == "call" and (e[1] or "").endswith("from_residual")):
                if pred is None or pred(e):
                    out.append((b, si, st, e))
    for b in body.calls():
        t = b.term
        if t.d["d"].is_local() and t.d["d"].local in full:
            e = sym.call_expr(t)
            if pred is None or pred(e):
                out.append((b, "term", None, e))
        elif t.d["d"].is_local() and t.d["d"].local in err:
            e = sym.call_expr(t)
            if (e[1] or "").endswith("from_residual") and (pred is None or pred(e)):
                out.append((b, "term", None, e))
    return out


def is_agg(e, adt_regex, variant=None):
    if e[0] != "agg":
        return False
    if not re.search(adt_regex, e[1] or ""):
        return False
    return variant is None or e[2] == variant


def agg_field(e, name):
    if e[0] != "agg":
        return None
    for n_, x in e[3]:
        if n_ == name:
            return x
    return None


def unwrap_ok(e):
    """Ok(x)/Some(x) -> x"""
    while e[0] == "agg" and e[2] in ("Ok", "Some") and len(e[3]) == 1:
        e = e[3][0][1]
    return e


# ---------------------------------------------------------------------------------------------
# running, findings, evidence
# ---------------------------------------------------------------------------------------------
def load_json(path, default):
    try:
        with open(path) as f:
            return json.load(f)
    except FileNotFoundError:
        return default


LAST_EVIDENCE = None


def run_property(prop, module, facts_dir, tier, seed, extra=None, write_evidence=True, crates=None):
    """module.RULES: list of (rule_id, template, title, fn(ctx)). Returns exit code."""
    t0 = time.time()
    ctx = Ctx(prop, facts_dir, tier)
    ctx.sweep = bool(extra and extra.get("sweep"))
    floors = {} if ctx.sweep else load_json(os.path.join(VERIF, "tables", "floors.json"), {})
    known = load_json(os.path.join(VERIF, "known_findings.json"), {"findings": []})
    rules_out = []
    for rid, template, title, fn in module.RULES:
        ctx.cur_rule = rid
        n0 = len(ctx.insts)
        try:
            fn(ctx)
        except AnchorError as e:
            ctx.bad("anchor", "anchor missing (fail closed): %s" % e)
        except Exception as e:  # a crashing rule must not pass silently
            ctx.bad("rule-crash", "rule raised %s: %s\n%s" % (type(e).__name__, e, traceback.format_exc()[-1500:]))
        n = len(ctx.insts) - n0
        fl = floors.get(rid)
        if fl is not None and n < fl:
            ctx.bad("floor", "rule enumerated %d instances, fewer than the confirmed floor %d (anchors moved? rule would pass vacuously)" % (n, fl))
        elif fl is None and not ctx.sweep:
            ctx.note("no floor recorded for %s (instances=%d)" % (rid, n))
        rules_out.append({"rule": rid, "template": template, "title": title, "instances": n})

    # known findings
    open_known = {}
    for f in known.get("findings", []):
        if f.get("property") == prop and f.get("status") == "open":
            open_known[(f["rule"], f["key"])] = f
    violations = []
    known_hits = []
    for i in ctx.insts:
        if i.status == "violation":
            kf = open_known.get((i.rule, i.key))
            if kf is not None:
                i.status = "known"
                known_hits.append((i, kf))
            else:
                violations.append(i)

    for i, kf in known_hits:
        print("KNOWN-FINDING: property=%s %s [%s %s] %s" % (prop, kf.get("what", ""), i.rule, i.key, i.where))

    out_dir = os.path.join(VERIF, "out", prop)
    os.makedirs(out_dir, exist_ok=True)
    for i in violations:
        fn_ = re.sub(r"[^A-Za-z0-9_.-]+", "_", "%s__%s" % (i.rule, i.key))[:180] + ".json"
        rp = os.path.join(out_dir, fn_)
        with open(rp, "w") as f:
            json.dump({"property": prop, **i.as_dict()}, f, indent=1)
        print("VIOLATION property=%s replay=%s" % (prop, rp))
        print("  rule=%s key=%s at %s\n  %s" % (i.rule, i.key, i.where, i.detail))

    # evidence
    per_rule = {}
    for r in rules_out:
        per_rule[r["rule"]] = dict(r, ok=0, known=0, violation=0)
    for i in ctx.insts:
        per_rule.setdefault(i.rule, {"rule": i.rule, "instances": 0, "ok": 0, "known": 0, "violation": 0})
        per_rule[i.rule][i.status] += 1
    distinct = len({(i.rule, i.key) for i in ctx.insts if i.nontrivial})
    samples = []
    seen_rules = set()
    for i in ctx.insts:
        if i.rule not in seen_rules or i.status != "ok":
            seen_rules.add(i.rule)
            if len(samples) < 40:
                samples.append(i.as_dict())
    progs = ctx._progs
    cov = {
        "explanation": module.EXPLANATION,
        "evaluations": len(ctx.insts),
        "distinct_nontrivial": distinct,
        "rule": "one instance per (rule, site/arm/table row) enumerated from the resolved MIR of the current tree; non-trivial = the obligation examined at least one path, arm or operand (anchor-only lookups are not counted)",
        "obligations": len(ctx.insts),
        "discharged": sum(1 for i in ctx.insts if i.status == "ok"),
        "known_findings": len(known_hits),
        "checker_cmd": "./check %s --tier %s" % (prop, tier),
        "trusted_base": module.TRUSTED if hasattr(module, "TRUSTED") else [],
        "rules": list(per_rule.values()),
        "samples": samples,
        "facts": {c: {"bodies": p.n_bodies, "rustc": p.rustc} for c, p in progs.items()},
        "notes": ctx.notes[:50],
        "exhaustive": False,
    }
    if extra:
        cov.update(extra)
    ev = {
        "property_id": prop,
        "tier": tier,
        "seed": seed,
        "level": "other",
        "coverage": cov,
        "assumptions": getattr(module, "ASSUMPTIONS", []),
        "wall_s": round(time.time() - t0, 2),
        "violations": len(violations),
    }
    if write_evidence and not os.environ.get("VERIF_NO_EVIDENCE"):
        os.makedirs(os.path.join(VERIF, "evidence"), exist_ok=True)
        with open(os.path.join(VERIF, "evidence", prop + ".json"), "w") as f:
            json.dump(ev, f, indent=1)
    global LAST_EVIDENCE
    LAST_EVIDENCE = ev
    total = len(ctx.insts)
    print("%s: %d rule instances, %d ok, %d known findings, %d violations (%.1fs)" % (prop, total, cov["discharged"], len(known_hits), len(violations), time.time() - t0))
    for r in per_rule.values():
        print("  %-10s %-14s n=%-4d ok=%-4d known=%d viol=%d  %s" % (r["rule"], r.get("template", ""), r.get("instances", 0), r["ok"], r["known"], r["violation"], r.get("title", "")))
    return 1 if violations else 0


# ---------------------------------------------------------------------------------------------
# regions
# ---------------------------------------------------------------------------------------------
def arm_edges(ctx, body, pred):
    """Guards (with their edges) of `body` satisfying pred."""
    gi = ctx.gi(body)
    return [g for g in gi.all_guards() if pred(g) and not is_tracing(g.macros)]


def region_of(body, g):
    return body.region_of_edge(g.edge)


def calls_in_blocks(prog, body, blocks, regex, follow_closures=True, _seen=None):
    """Call blocks in `blocks` of body (and in closures created there) whose callee matches."""
    r = re.compile(regex)
    out = []
    _seen = _seen if _seen is not None else set()
    for bi in sorted(blocks):
        b = body.blocks[bi]
        if b.cleanup:
            continue
        t = b.term
        if t.kind == "call" and not is_tracing(t.macros):
            c = t.callee or ""
            f = t.declared or ""
            if r.search(c) or r.search(f):
                out.append((body, bi, c or f))
        if follow_closures:
            for st in b.stmts:
                if st.kind == "assign" and st.rv["k"] == "agg" and st.rv.get("def"):
                    ch = prog.bodies.get(st.rv["def"])
                    if ch is not None and ch.path not in _seen:
                        _seen.add(ch.path)
                        out.extend(calls_in_blocks(prog, ch, ch.live_blocks(), regex, True, _seen))
    return out


def return_blocks(body):
    live = body.live_blocks()
    return [b.idx for b in body.blocks if b.term.kind == "return" and b.idx in live and not b.cleanup]


def must_pass(body, frm, to, via_blocks, removed_edges=()):
    """True iff every normal path frm -> to passes one of via_blocks."""
    if frm in via_blocks:
        return True
    return not body.can_reach(frm, to, removed_blocks=set(via_blocks), removed_edges=removed_edges)


def error_exit_blocks(body):
    """Blocks that set the return value to an error (`?` residual or an explicit Err)."""
    out = set()
    live = body.live_blocks()
    full, err, _ = _return_aliases(body)  # with inlined helper frames: also the helper's own error exits when its result is returned / `?`-ed
    rl = full | err
    for b in body.blocks:
        if b.idx not in live or b.cleanup:
            continue
        for st in b.stmts:
            if st.kind == "assign" and st.dest.is_local() and st.dest.local in rl and st.rv["k"] == "agg" and st.rv.get("var") == "Err":
                out.add(b.idx)
        t = b.term
        if t.kind == "call" and t.d["d"].is_local() and t.d["d"].local in rl and re.search(r"FromResidual.*::from_residual$", t.callee or t.declared or ""):
            out.add(b.idx)
    return out


def dest_writes(ctx, body, field):
    """Assignments whose destination, seen through reference temporaries, lies at or under a field `field`
    (e.g. `last.response = x` with `last = &mut self.state.last_valid_request@Some.0`)."""
    sym = ctx.sym(body)
    out = []
    for b, si, st in body.assigns():
        if not st.dest.proj:
            continue
        if is_tracing(st.macros):
            continue
        if field in st.dest.fields():
            out.append((b, si, st))
            continue
        e = sym.place_expr(st.dest)
        if mentions_field(e, field):
            out.append((b, si, st))
    return out


def require_cut(ctx, body, block, preds, key, what=""):
    """Every path entry -> block takes at least one edge whose guard satisfies one of `preds`
    (a disjunctive guard: accepted-by-A or accepted-by-B ...). Each pred must match >= 1 guard."""
    gi = ctx.gi(body)
    edges = []
    ok = True
    for label, pred in preds:
        gs = [g for g in gi.all_guards() if not is_tracing(g.macros) and any(pred(x) for x in gi.implied(g))]
        if not gs:
            ctx.bad("%s|%s" % (key, label), "%s: no guard `%s` exists in %s" % (what, label, short(body.path)), body.where(block))
            ok = False
        edges.extend(g.edge for g in gs)
    if not ok:
        return False
    reach = block in body.reachable(0, removed_edges=edges)
    labels = " | ".join(l for l, _ in preds)
    ctx.check(not reach, "%s|cut(%s)" % (key, labels), "%s: every path passes one of {%s}" % (what, labels), body.where(block), bad_detail="%s is reachable on a path that passes none of {%s}" % (what, labels))
    return not reach


def reachable_from_edge(body, g):
    """Blocks reachable from the target of guard g's edge."""
    return body.reachable(g.edge[1])


# ---------------------------------------------------------------------------------------------
# decision tables (T4)
# ---------------------------------------------------------------------------------------------
def extract_table(ctx, body, subject=None):
    """Rows of a `match`-like function: [(keys, value_expr, block)], keys = frozenset of
    ('int', v) / ('variant', name) / ('other',) taken from the guards on `subject` (a predicate on
    the guard's expression; default: any param) dominating each return-value assignment."""
    sym = ctx.sym(body)
    rows = []
    subj = subject or (lambda e: e[0] == "param" or (e[0] == "field" and e[1][0] == "param") or e[0] == "capture")
    for b, si, st, e in ret_sites(body, sym):
        gs = ctx.guards_at(body, b.idx)
        keys = []
        for g in gs:
            if g.a is None or not subj(g.a):
                continue
            if g.kind == "int":
                keys.append(("int", g.name))
            elif g.kind == "is":
                keys.append(("variant", g.name))
            elif g.kind == "oneof":
                for nm in g.name:
                    keys.append(("variant", nm) if not str(nm).lstrip("-").isdigit() else ("int", int(nm)))
            elif g.kind in ("intnot", "isnot"):
                keys.append(("other",))
        rows.append((tuple(keys), e, b.idx))
    return rows


def const_value(prog, e):
    """Integer value of a constant expression (literal, named const, cast of one)."""
    while e[0] == "cast":
        e = e[2]
    if e[0] == "const" and isinstance(e[1], int):
        return e[1]
    return None


def variant_name(e):
    """Variant name of an aggregate, no unwrapping."""
    return e[2] if e is not None and e[0] == "agg" else None


def variant_of(e):
    """Variant name of an enum aggregate expression (through Some/Ok wrappers)."""
    e = unwrap_ok(e)
    if e[0] == "agg":
        return e[2]
    return None


def spine_calls(ctx, body, regex):
    """Calls matching `regex` in execution order along the success spine (following the Continue edge
    of every `?`). Returns (calls, straight) where straight is False when a non-`?` branch was met."""
    r = re.compile(regex)
    sym = ctx.sym(body)
    gi = ctx.gi(body)
    out = []
    cur = 0
    seen = set()
    straight = True
    while cur is not None and cur not in seen:
        seen.add(cur)
        blk = body.blocks[cur]
        t = blk.term
        if t.kind == "call":
            c = t.callee or t.declared or ""
            if r.search(c):
                out.append((blk, c, sym.call_expr(t)))
        if t.kind == "switch":
            nxt = None
            for tgt, g in gi.by_switch.get(cur, []):
                if g.kind == "is" and g.name == "Continue":
                    nxt = tgt
            if nxt is None:
                straight = False
                break
            cur = nxt
        else:
            ss = body.succs(cur)
            cur = ss[0] if ss else None
    return out, straight


def slice_call_blocks(body, operand_or_local, regex, max_nodes=400):
    """Blocks of calls matching `regex` in the backward data slice of a local/operand (through
    assignments, casts, projections and non-matching calls)."""
    r = re.compile(regex)
    start = operand_or_local
    if isinstance(start, int):
        work = [start]
    elif start.kind == "const":
        return []
    else:
        work = [start.place.local]
    seen = set()
    out = []
    live = body.live_blocks()
    while work and len(seen) < max_nodes:
        l = work.pop()
        if l in seen:
            continue
        seen.add(l)
        for blk, si in body.defs.get(l, []):
            if blk not in live:
                continue
            if si == "term":
                t = body.blocks[blk].term
                c = t.callee or t.declared or ""
                if r.search(c):
                    out.append(blk)
                    continue
                for a in t.d["args"]:
                    if a.kind != "const":
                        work.append(a.place.local)
            else:
                rv = body.blocks[blk].stmts[si].rv
                for k in ("a", "b"):
                    o = rv.get(k)
                    if o is not None and hasattr(o, "kind") and o.kind != "const":
                        work.append(o.place.local)
                if rv.get("p") is not None:
                    work.append(rv["p"].local)
                for o in rv.get("ops", []) or []:
                    if o.kind != "const":
                        work.append(o.place.local)
    return sorted(set(out))


def strip_passthrough(e):
    """Peel value-preserving wrappers: casts, into/from, `?`, Some/Ok payload projections, clones."""
    while True:
        if e[0] == "cast":
            e = e[2]
        elif e[0] in ("try", "await", "mutated"):
            e = e[1]
        elif e[0] == "field" and e[2] == "0" and e[1][0] == "variant" and e[1][2] in ("Some", "Ok"):
            e = e[1][1]
        elif e[0] == "variant" and e[2] in ("Some", "Ok"):
            e = e[1]
        elif e[0] == "call" and len(e[2]) == 1 and re.search(r"::(into|from|try_into|try_from)$", e[1] or ""):
            e = e[2][0]
        else:
            return e


def natural_loops(body):
    """header block -> set of blocks of the natural loop(s) with that header (back edge u->h where h dominates u)."""
    succ, pred = body.cfg
    live = body.live_blocks()
    res = {}
    for u in live:
        for h in succ[u]:
            if h in live and body.block_dominates(h, u):
                blocks = {h, u}
                st = [u]
                while st:
                    x = st.pop()
                    if x == h:
                        continue
                    for p_ in pred[x]:
                        if p_ in live and p_ not in blocks:
                            blocks.add(p_)
                            st.append(p_)
                res.setdefault(h, set()).update(blocks)
    return res


def innermost_loop(body, block):
    """(header, blocks) of the smallest natural loop containing `block`, or None."""
    cands = [(len(v), h, v) for h, v in natural_loops(body).items() if block in v]
    if not cands:
        return None
    cands.sort(key=lambda x: (x[0], x[1]))
    return cands[0][1], cands[0][2]


def resolve_defs(body, sym, e, depth=2):
    """The value(s) an expression stands for once the (multiply defined) variables in it are replaced by the expressions of their
    live definitions (`depth` levels, at most 8 combinations). Lets a rule state "whatever is stored here derives from X on every
    arm" without depending on how many arms / pattern alternatives the source uses."""
    if depth <= 0:
        return [e]
    if e[0] == "phi":
        out = []
        for a in e[1]:
            out.extend(resolve_defs(body, sym, a, depth))
        return out[:8]
    vs = []
    for x in expr_walk(e):
        if x[0] == "var" and x not in vs:
            vs.append(x)
    if not vs:
        return [e]
    live = body.live_blocks()
    alts = [e]
    for v in vs[:3]:
        name = v[1]
        locs = [int(name[1:])] if name.startswith("_") and name[1:].isdigit() else body.local_by_name(name)
        defs = []
        for l in locs:
            for blk, si in body.defs.get(l, []):
                if blk in live:
                    d = sym.def_expr(blk, si)
                    if not mentions(d, lambda s_: s_ == v):
                        defs.append(d)
        if not defs:
            continue
        nxt = []
        for a in alts:
            for d in defs:
                nxt.extend(resolve_defs(body, sym, _subst_expr(a, v, d), depth - 1))
        alts = nxt[:8]
    return alts


def _subst_expr(e, old, new):
    if e == old:
        return new
    if not isinstance(e, tuple):
        return e
    r = tuple(_subst_expr(x, old, new) if isinstance(x, tuple) else x for x in e)
    # a field of a tuple / aggregate that the substitution made literal
    if r and r[0] == "field" and len(r) == 3 and isinstance(r[1], tuple):
        if r[1][0] == "tuple" and r[2].isdigit() and int(r[2]) < len(r[1][1]):
            return r[1][1][int(r[2])]
        if r[1][0] == "agg" and any(n_ == r[2] for n_, _ in r[1][3]):
            return [x for n_, x in r[1][3] if n_ == r[2]][0]
    return r


def _namesake_sources(e, names):
    """Which of `names` the expression is built from: field reads / getters applied directly to a parameter or variable
    (`config.select_timeout`, `from.start()`), or a bare parameter / variable of that name."""
    out = set()
    if e[0] in ("param", "capture", "var") and e[1] in names:
        out.add(e[1])
    for s_ in expr_walk(e):
        if s_[0] == "field" and s_[2] in names and s_[1][0] in ("param", "capture", "var"):
            out.add(s_[2])
        if s_[0] == "call" and len(s_[2]) == 1 and s_[2][0][0] in ("param", "capture", "var") and s_[1].rsplit("::", 1)[-1] in names:
            out.add(s_[1].rsplit("::", 1)[-1])
    return out


NAMESAKE_EXC = {
    # target struct, field : reason
    ("BinaryInput", "value"): "the state of a binary point travels in bit 7 of its flag octet",
    ("BinaryOutputStatus", "value"): "the state of a binary point travels in bit 7 of its flag octet",
    ("DoubleBitBinaryInput", "value"): "the state of a double-bit point travels in bits 6-7 of its flag octet",
}


NAMESAKE_MIX_OK = {}  # (target struct, field) -> reason, for fields that are legitimately computed from several like-named inputs


def namesake_plumbing(ctx, prog, path_regex, min_sites, label):
    """Every struct built (outside tests) in bodies matching path_regex that fills a field from a like-named field / getter /
    parameter of its inputs fills EACH such field from its own namesake: `select_timeout: config.confirm_timeout` type-checks
    (both are Timeouts) and silently swaps two settings."""
    r = re.compile(path_regex)
    n = 0
    for bd in prog.bodies.values():
        if not r.search(bd.path) or "::test" in bd.path:
            continue
        sym = None
        for b, si, st in bd.assigns():
            rv = st.rv
            if rv["k"] != "agg" or rv.get("ak") != "struct" or len(rv["fields"]) < 2:
                continue
            sym = sym or ctx.sym(bd)
            e = sym.rvalue_expr(rv)
            fs = set(rv["fields"])
            tname = rv["adt"].split("::")[-1]
            for fname, fe in e[3]:
                m = _namesake_sources(fe, fs)
                if not m:
                    continue
                n += 1
                if fname not in m and (tname, fname) in NAMESAKE_EXC:
                    ctx.ok("%s@%s:%s.%s" % (label, short(bd.path), tname, fname), "listed exception: " + NAMESAKE_EXC[(tname, fname)], bd.where(b.idx))
                    continue
                ctx.check(fname in m, "%s@%s:%s.%s" % (label, short(bd.path), tname, fname), "%s <- %s" % (fname, expr_str(fe)[:60]), bd.where(b.idx), bad_detail="field `%s` of %s is filled from `%s` (%s), not from its namesake" % (fname, tname, ",".join(sorted(m)), expr_str(fe)[:80]))
                if fname in m and len(m) > 1 and re.search(r"(Config|Parameters|Settings|Features)$", tname) and (tname, fname) not in NAMESAKE_MIX_OK:
                    # ...and from its namesake ALONE: `retry_delay: cfg.retry_delay.min(cfg.confirm_timeout)` silently couples two settings
                    ctx.bad("%s-mix@%s:%s.%s" % (label, short(bd.path), tname, fname), "field `%s` of %s is computed from its namesake AND from sibling setting(s) %s (%s): two independent settings are coupled" % (fname, tname, sorted(m - {fname}), expr_str(fe)[:80]), bd.where(b.idx))
    # near-namesakes: a field filled directly from `input.f` although a sibling field `input.g` matches its name better
    # (sol_tx_buffer_size <- unsolicited_buffer_size where solicited_buffer_size exists)
    def toks(x):
        return [t for t in x.split("_") if t]

    def score(a, b_):
        ta, tb = toks(a), toks(b_)
        k = sum(1 for x in ta if any(x == y or (len(x) >= 3 and y.startswith(x)) or (len(y) >= 3 and x.startswith(y)) for y in tb))
        return k

    def struct_fields(ty):
        ty = re.sub(r"<.*>$", "", ty.lstrip("&").replace("mut ", "").strip())
        c = [a for p_, a in prog.adts.items() if p_ == ty or p_.endswith("::" + ty.split("::")[-1])]
        if len(c) == 1 and c[0]["kind"] == "struct":
            return [f[0] for f in c[0]["variants"][0]["fields"]]
        return None

    m = 0
    for bd in prog.bodies.values():
        if not r.search(bd.path) or "::test" in bd.path:
            continue
        sym = None
        for b, si, st in bd.assigns():
            rv = st.rv
            if rv["k"] != "agg" or rv.get("ak") != "struct" or len(rv["fields"]) < 2:
                continue
            sym = sym or ctx.sym(bd)
            e = sym.rvalue_expr(rv)
            tname = rv["adt"].split("::")[-1]
            for fname, fe in e[3]:
                x = strip_passthrough(fe)
                if not (x[0] == "field" and x[1][0] in ("param", "var", "capture")):
                    continue
                locs = bd.local_by_name(x[1][1])
                if not locs:
                    continue
                fields = struct_fields(bd.local_tys[locs[0]])
                if not fields or x[2] not in fields:
                    continue
                m += 1
                s0 = score(fname, x[2])
                best = max(((score(fname, f), f) for f in fields if f != x[2]), default=(0, None))
                ctx.check(not (best[0] >= 2 and best[0] > s0), "%s-near@%s:%s.%s" % (label, short(bd.path), tname, fname), "%s <- %s.%s" % (fname, x[1][1], x[2]), bd.where(b.idx), bad_detail="field `%s` of %s is filled from `%s.%s` although `%s.%s` is its namesake" % (fname, tname, x[1][1], x[2], x[1][1], best[1]))
    if n < min_sites:
        raise AnchorError("%s: %d namesake field initialisations (expected >= %d)" % (label, n, min_sites))
    return n


def deadline_discipline(ctx, body, wait_rx, clock_rx, key, min_waits=1):
    """A wait with a deadline inside a loop: the deadline is computed (clock read matching clock_rx) before the loop, and any
    re-computation inside the loop happens only AFTER the wait of that iteration (in an arm of its result: a retry, an echo), never
    unconditionally at the top of the loop - otherwise every fragment that wakes the wait up restarts the full timeout."""
    waits = [c for c in call_sites(body, wait_rx)]
    n = 0
    for w in waits:
        lp = innermost_loop(body, w.idx)
        if lp is None:
            continue
        n += 1
        clocks = call_sites(body, clock_rx)
        outside = [c for c in clocks if c.idx not in lp[1] and body.block_dominates(c.idx, lp[0])]
        inside = [c for c in clocks if c.idx in lp[1]]
        ctx.check(bool(outside), "%s:initial-deadline" % key, "the deadline is first computed before the wait loop", body.where(w.idx), bad_detail="no deadline is computed before the wait loop of %s" % short(body.path))
        early = [c for c in inside if body.block_dominates(c.idx, w.idx)]
        ctx.check(not early, "%s:not-rearmed-per-iteration" % key, "inside the loop the deadline is re-computed only after the wait (%d site(s))" % len(inside), body.where(w.idx), bad_detail="%s re-computes its deadline at %s on every iteration before waiting: any fragment that ends the wait without ending the loop postpones the timeout" % (short(body.path), ", ".join(body.where(c.idx) for c in early)))
    if n < min_waits:
        raise AnchorError("%s: %d waits in a loop (expected >= %d)" % (key, n, min_waits))


def family(prog, body, depth=3):
    """A body and the closures created (lexically) inside it, recursively: a loop body may live in a closure handed to an
    iterator adaptor (for_each / try_for_each / fold / map ...) - same code, different syntax."""
    out = [body]
    if depth > 0:
        for ch in prog.children(body):
            out.extend(family(prog, ch, depth - 1))
    return out


def value_arms(ctx, body, sym, e, at_block):
    """The (guards, expression) pairs a returned / stored value stands for: when it is a variable assigned in several arms and used
    once after the join (`let next = match .. {..}; self.last = Some(next); next`), one pair per assignment with the guards of THAT
    assignment; otherwise the value with the guards of its use site."""
    if e[0] == "var":
        name = e[1]
        locs = [int(name[1:])] if name.startswith("_") and name[1:].isdigit() else body.local_by_name(name)
        live = body.live_blocks()
        out = []
        for l in locs:
            for blk, si in body.defs.get(l, []):
                if blk in live:
                    d = sym.def_expr(blk, si)
                    if d != e:
                        out.append((ctx.guards_at(body, blk), d, blk))
        if out:
            return out
    return [(ctx.guards_at(body, at_block), e, at_block)]


def g_not_variant(a, name):
    """`a` is known NOT to be variant `name`: `a != E::name`, an otherwise/isnot arm excluding it, or an arm for other variant(s)."""
    pa = _as_pred(a)

    def pred(g):
        if g.kind == "rel" and g.op == "Ne":
            for x, y in ((g.a, g.b), (g.b, g.a)):
                if pa(x) and mentions(y, lambda s_: s_[0] == "agg" and s_[2] == name):
                    return True
            return False
        if g.kind == "isnot":
            return name in g.name and pa(g.a)
        if g.kind == "is":
            return g.name != name and g.name not in ("Some", "None", "Ok", "Err", "Continue", "Break") and pa(g.a)
        if g.kind == "oneof":
            return name not in g.name and pa(g.a)
        return False

    return pred


def session_start_resets(ctx):
    """The outstation's per-session clean-up is cancellation-safe: the TCP server drops a running session future when a new
    connection arrives, so whatever a session must not inherit is (also) reset BEFORE the first await of the next session:
    SessionState::reset and DatabaseHandle::reset dominate run_idle_state in OutstationSession::run; the transport reader and
    writer resets dominate the session in OutstationTask::run (F17)."""
    prog = ctx.prog
    sb = prog.abody("OutstationSession::run")
    first = call_sites(sb, r"OutstationSession::run_idle_state$")
    if len(first) != 1:
        raise AnchorError("OutstationSession::run: run_idle_state call")
    for rx, what in ((r"SessionState::reset$", "session state (pending SELECT, last request, deferred READ)"), (r"DatabaseHandle::reset$", "event / static selection")):
        rs = [c for c in call_sites(sb, rx) if sb.block_dominates(c.idx, first[0].idx) and c.idx != first[0].idx]
        ctx.check(bool(rs), "session-start-reset:%s" % rx.split("::")[0], "%s is reset before the session's first await" % what, sb.where(first[0].idx), bad_detail="OutstationSession::run does not reset the %s before its first await: a session that was pre-empted (future dropped by the TCP server on a new connection) hands it to the next connection" % what)
    tb = prog.abody("outstation::task::OutstationTask::run")
    run = call_sites(tb, r"OutstationSession::run$")
    if len(run) != 1:
        raise AnchorError("OutstationTask::run: session.run call")
    for rx, what in ((r"TransportReader::reset$", "transport / link reader"), (r"TransportWriter::reset$", "transport writer")):
        rs = [c for c in call_sites(tb, rx) if tb.block_dominates(c.idx, run[0].idx) and c.idx != run[0].idx]
        ctx.check(bool(rs), "session-start-reset:%s" % rx.split("::")[0], "the %s is reset before the session runs" % what, tb.where(run[0].idx), bad_detail="OutstationTask::run does not reset the %s before running the session: a pre-empted session leaves its partial frame / fragment / sequence state to the next connection" % what)


def only_via_arms(ctx, body, block, pred):
    """`block` is reachable only through an edge whose guard satisfies pred (several match arms may share one body: or-patterns with
    bindings lower to one binding block per alternative that all jump to the common body, so no single arm edge dominates it)."""
    gi = ctx.gi(body)
    edges = [g.edge for g in gi.all_guards() if not is_tracing(g.macros) and pred(g)]
    return bool(edges) and block not in body.reachable(0, removed_edges=edges)


def app_sequence_wrap(ctx):
    """The application-layer sequence number is a 4-bit counter: MAX_VALUE = 15, new() masks with it, calc_next wraps 15 -> 0 and adds
    one otherwise, next() / increment() are calc_next of the stored value (increment returns the old value). Used by the OPERATE
    'next sequence number' test (C04), the fragment series numbering of both endpoints (C11, C12, C15)."""
    prog = ctx.prog
    P = "app::sequence::Sequence::"
    mx = prog.const("app::sequence::Sequence::MAX_VALUE")
    ctx.check(mx.get("v") == 15, "app-seq:MAX_VALUE", "Sequence::MAX_VALUE = %s" % mx.get("v"))
    ismax = lambda x: mentions_constdef(x, r"sequence::Sequence::MAX_VALUE$") or const_value(prog, x) == 15
    nb = prog.body(P + "new")
    e = [x for _, _, _, x in ret_sites(nb, ctx.sym(nb))]
    ok = bool(e) and all(mentions(x, lambda s: s[0] == "bin" and s[1] == "BitAnd") and ismax_in(prog, x) for x in e)
    ctx.check(ok, "app-seq:new:mask", "new(x) = x & MAX_VALUE", nb.where(line=nb.line))
    cb = prog.body(P + "calc_next")
    cs = ctx.sym(cb)
    kinds = set()
    for b, si, st, e in ret_sites(cb, cs):
        if const_value(prog, e) == 0:
            kinds.add("wrap")
            ctx.require_guards(cb, b.idx, [("value == MAX_VALUE", g_rel("Eq", "value", ismax))], "app-seq:calc_next:wrap", "wrap to 0")
        else:
            kinds.add("+1")
            ok = mentions(e, lambda s: s[0] == "bin" and s[1] in ("Add", "AddWithOverflow")) and mentions_const(e, 1) and not mentions(e, lambda s: s[0] == "bin" and s[1] in ("Rem", "BitAnd", "Sub", "SubWithOverflow"))
            ctx.check(ok, "app-seq:calc_next:+1", "value + 1 otherwise (%s)" % expr_str(e)[:60], cb.where(b.idx))
            ctx.require_guards(cb, b.idx, [("value != MAX_VALUE", g_rel("Ne", "value", ismax))], "app-seq:calc_next:+1", "value + 1")
    ctx.check(kinds == {"wrap", "+1"}, "app-seq:calc_next:arms", "calc_next has the wrap and the +1 arm (%s)" % sorted(kinds), cb.where(line=cb.line))
    for fn_ in ("next", "increment"):
        xb = prog.body(P + fn_)
        cs_ = call_sites(xb, r"sequence::Sequence::calc_next$")
        ok = len(cs_) == 1 and ctx.sym(xb).call_expr(cs_[0].term)[2][0] == ("field", ("param", "self"), "value")
        ctx.check(ok, "app-seq:%s" % fn_, "%s = calc_next(self.value)" % fn_, xb.where(line=xb.line))
    xb = prog.body(P + "next")
    e = [x for _, _, _, x in ret_sites(xb, ctx.sym(xb))]
    ctx.check(bool(e) and all(x[0] == "call" and (x[1] or "").endswith("Sequence::calc_next") for x in e), "app-seq:next:returns", "next() returns calc_next(..) unchanged", xb.where(line=xb.line))
    ib = prog.body(P + "increment")
    ws = field_writes(ib, "value")
    ok = len(ws) == 1 and mentions_call(ctx.sym(ib).rvalue_expr(ws[0][2].rv), r"sequence::Sequence::calc_next$")
    ctx.check(ok, "app-seq:increment:stores", "increment stores calc_next(value)", ib.where(line=ib.line))


def ismax_in(prog, x):
    return mentions_constdef(x, r"sequence::Sequence::MAX_VALUE$") or mentions_const(x, 15)


def _norm_impl(path):
    return re.sub(r"<impl (?:[\w]+::)*(\w+)>", r"<impl \1>", path)


def arg_namesakes(ctx, prog, label="arg-namesake", other=None, only=None, floor=500):
    """Call arguments that are a plain field read `x.f`, handed to a local function whose parameter is named `p`: when some struct
    has both a field `f` and a field `p` OF THE SAME TYPE and f != p, the call type-checks whichever of the two siblings is written
    there and silently swaps two settings (`create_layer(.., config.features.broadcast /* self_address */, ..)`). Crate-wide; every
    field argument must be the parameter's namesake or have no same-typed sibling of the parameter's name."""
    structs = [dict((f[0], f[1]) for f in a["variants"][0]["fields"]) for a in prog.adts.values() if a["kind"] == "struct"]
    fns = dict(prog.fns)
    if other is not None:
        # calls across the crate boundary (the binding layer calling the library): parameter names from the library's table
        structs += [dict((f[0], f[1]) for f in a["variants"][0]["fields"]) for a in other.adts.values() if a["kind"] == "struct"]
        for k_, v_ in other.fns.items():
            fns.setdefault(k_, v_)
            # the self type of an inherent impl is spelled through whichever re-export the calling crate sees
            fns.setdefault(_norm_impl(k_), v_)

    def sibling(f, q):
        return any(f in s_ and q in s_ and s_[f] == s_[q] for s_ in structs)

    n = 0
    for bd in prog.bodies.values():
        if "::test" in bd.path or (only is not None and not only(bd)):
            continue
        sym = None
        for b in bd.calls():
            c = b.term.callee
            if c and c not in fns and other is not None and _norm_impl(c) in fns:
                c = _norm_impl(c)
            if not c or c not in fns:
                continue
            params = fns[c].get("params") or []
            if not params:
                continue
            sym = sym or ctx.sym(bd)
            e = sym.call_expr(b.term)
            if e[0] != "call" or len(e[2]) != len(params):
                continue
            for a, pn in zip(e[2], params):
                if not pn or pn == "self" or a[0] != "field" or not isinstance(a[2], str) or a[2].isdigit():
                    continue
                n += 1
                if a[2] != pn and sibling(a[2], pn):
                    ctx.bad("%s@%s:%s(%s)" % (label, short(bd.path), short(c).split("::")[-1], pn), "parameter `%s` of %s is given `%s` although a sibling field `%s` of the same type exists: two settings are swapped" % (pn, short(c), expr_str(a)[:60], pn), bd.where(b.idx))
    ctx.check(n >= floor, "%s:census" % label, "%d field arguments of local calls examined" % n, "")


def loop_exits_only_when_exhausted(ctx, body, block):
    """The innermost natural loop around `block` is left only on the edge where its iterator's `next()` is None (unreachable arms
    aside): no `break` / early return cuts the iteration short. None when `block` is in no loop."""
    lp = innermost_loop(body, block)
    if lp is None:
        return None
    _h, blocks_ = lp
    exits = [(x, s_) for x in blocks_ for s_ in body.succs(x) if s_ not in blocks_ and body.blocks[s_].term.kind != "unreachable"]
    gi_ = ctx.gi(body)
    for x, s_ in exits:
        gs_ = [g for g in gi_.all_guards() if g.edge == (x, s_)]
        if not any(g.kind == "is" and g.name in ("None", "Break") and g.a is not None and g.a[0] == "call" and re.search(r"::next$", g.a[1] or "") for g in gs_):
            return False
    return bool(exits)


def user_children(prog, body):
    """Closures created in `body` by the program text itself: those that `tracing::` / formatting macros expand to are left out, so
    that adding a log statement does not change which closure a rule is talking about."""
    made_by_macro = set()
    for b, si, st in body.assigns():
        if st.rv["k"] == "agg" and st.rv.get("def") and (is_tracing(st.macros) or any(m.startswith(("tracing::", "log::")) for m in (st.macros or ()))):
            made_by_macro.add(st.rv["def"])
    return [c for c in prog.children(body) if c.path not in made_by_macro and not any(m.startswith(("tracing::", "log::")) for m in getattr(c, "span_macros", ()))]
