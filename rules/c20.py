"""C20 — the C/.NET/Java binding layer maps every value to its namesake, losslessly."""
import os

from engine import *
from mir import *

EXPLANATION = (
    "Over the hand-written binding crate dnp3_ffi (default features + dnp3/ffi): every construction of an enum variant on one side of the "
    "boundary (dnp3_ffi::ffi::* vs dnp3::*) that is dominated by a match arm on an enum of the other side constructs the namesake variant "
    "(deliberate differences come from tables/name_exceptions.tsv); where both directions exist they compose to identity. Every struct "
    "built across the boundary fills a field from its own namesake source field/getter, never from a sibling's. Every "
    "database_{add,remove,update,update_2,get}_<type> forwarder resolves to the native Add/Remove/Update/Get<T> with T = CamelCase(<type>) "
    "and passes index / value / options through."
)
ASSUMPTIONS = ["numeric losslessness beyond field identity is what the schema's declared widths give", "the generated C/.NET/Java glue (oo-bindgen output under OUT_DIR, JNI crate) is outside the hand-written layer and not analysed"]
TRUSTED = ["rustc nightly MIR + Instance::try_resolve", "facts driver", "tables/name_exceptions.tsv", "rules/mir.py"]
TECHNIQUE = "static analysis: namesake table extraction over discriminant switches, field provenance, resolved-callee census (custom rustc_private driver)"


def side(path):
    if path is None:
        return None
    if path.startswith("dnp3_ffi::ffi::") or path.startswith("ffi::"):
        return "ffi"
    if path.startswith("dnp3::"):
        return "native"
    return None


def norm(n):
    return re.sub(r"[^a-z0-9]", "", str(n).lower())


def exceptions(rule):
    out = {}
    for line in open(os.path.join(VERIF, "tables", "name_exceptions.tsv")):
        if line.startswith("#") or not line.strip():
            continue
        r_, src, tgts, why = line.rstrip("\n").split("\t")
        if r_ == rule:
            out[src] = set(tgts.split(","))
    return out



def _namesakes(e, names):
    """Which of `names` the expression is built from: field reads / getters applied directly to a parameter
    (e.g. `from.start()`, `value.stop`), or a bare parameter of that name."""
    out = set()
    if e[0] in ("param", "capture", "var") and e[1] in names:
        out.add(e[1])
    for s_ in expr_walk(e):
        if s_[0] == "field" and s_[2] in names and s_[1][0] in ("param", "capture", "var"):
            out.add(s_[2])
        if s_[0] == "call" and len(s_[2]) == 1 and s_[2][0][0] in ("param", "capture", "var") and s_[1].rsplit("::", 1)[-1] in names:
            out.add(s_[1].rsplit("::", 1)[-1])
    return out


def hand_written(b):
    return "/out/" not in b.file and b.file.startswith("ffi/dnp3-ffi/src/")


def r1(ctx):
    ffi = ctx.ffi
    exc = exceptions("C20.R1")
    n = 0
    pairs = {}
    for bd in ffi.bodies.values():
        if not hand_written(bd):
            continue
        gi = None
        for b, si, st in bd.assigns():
            rv = st.rv
            if rv["k"] != "agg" or rv.get("ak") != "enum":
                continue
            ys = side(rv["adt"])
            if ys is None:
                continue
            gs = [g for g in ctx.guards_at(bd, b.idx) if g.kind in ("is", "oneof") and side(g.enum) not in (None, ys)]
            if not gs:
                continue
            # innermost arm = smallest region
            g = min(gs, key=lambda g: len(bd.region_of_edge(g.edge)))
            srcs = [g.name] if g.kind == "is" else list(g.name)
            n += 1
            src_enum = g.enum.split("::")[-1]
            dst_enum = rv["adt"].split("::")[-1]
            key = "%s::%s->%s" % (src_enum, "|".join(srcs), dst_enum)
            ok = any(norm(s_) == norm(rv["var"]) for s_ in srcs)
            if not ok:
                ok = any(rv["var"] in exc.get("%s::%s->%s" % (src_enum, s_, dst_enum), ()) or rv["var"] in exc.get("%s::%s->*" % (src_enum, s_), ()) for s_ in srcs)
            ctx.check(ok, "enum@%s:%s" % (short(bd.path), key), "%s -> %s::%s" % (key, dst_enum, rv["var"]), bd.where(b.idx), bad_detail="%s::%s is translated to %s::%s" % (src_enum, "|".join(srcs), dst_enum, rv["var"]))
            if g.kind == "is":
                pairs.setdefault((g.enum, rv["adt"]), {})[g.name] = rv["var"]
    if n < 350:
        raise AnchorError("expected >= 350 cross-boundary enum arms, found %d" % n)
    # R4: where both directions exist, they compose to identity
    k = 0
    for (a, b_), fwd in pairs.items():
        back = pairs.get((b_, a))
        if not back:
            continue
        for va, vb in fwd.items():
            if vb in back:
                if norm(va) != norm(vb) and (vb in exc.get("%s::%s->%s" % (a.split("::")[-1], va, b_.split("::")[-1]), ()) or vb in exc.get("%s::%s->*" % (a.split("::")[-1], va), ())) and va.startswith("Unknown"):
                    continue  # a listed lossy merge (Unknown(u8) has no counterpart) cannot round-trip
                k += 1
                ctx.check(back[vb] == va or norm(back[vb]) == norm(va), "roundtrip:%s::%s" % (a.split("::")[-1], va), "%s::%s -> %s -> %s" % (a.split("::")[-1], va, vb, back[vb]), "", bad_detail="%s::%s -> %s::%s -> %s::%s" % (a.split("::")[-1], va, b_.split("::")[-1], vb, a.split("::")[-1], back[vb]))
    ctx.note("cross-boundary enum arms: %d, round-trip pairs: %d" % (n, k))


def r2(ctx):
    ffi = ctx.ffi
    fexc = exceptions("C20.R2")
    n = 0
    for bd in ffi.bodies.values():
        if not hand_written(bd):
            continue
        sym = None
        for b, si, st in bd.assigns():
            rv = st.rv
            if rv["k"] != "agg" or rv.get("ak") != "struct" or side(rv["adt"]) is None:
                continue
            fields = rv["fields"]
            if len(fields) < 2:
                continue
            sym = sym or ctx.sym(bd)
            e = sym.rvalue_expr(rv)
            fs = set(fields)
            for fname, fe in e[3]:
                mentioned = _namesakes(fe, fs)
                if not mentioned:
                    continue
                n += 1
                ok = fname in mentioned or ("%s.%s" % (rv["adt"].split("::")[-1], fname)) in fexc
                ctx.check(ok, "field@%s:%s.%s" % (short(bd.path), rv["adt"].split("::")[-1], fname), "%s <- %s" % (fname, expr_str(fe)[:70]), bd.where(b.idx), bad_detail="field `%s` of %s is filled from `%s` (%s), not from its namesake" % (fname, rv["adt"].split("::")[-1], ",".join(sorted(mentioned)), expr_str(fe)[:80]))
    if n < 100:
        raise AnchorError("expected >= 100 namesake field initialisations, found %d" % n)
    # calls to constructors with like-named parameters: e.g. Foo::new(start, stop)
    k = 0
    for bd in ffi.bodies.values():
        if not hand_written(bd):
            continue
        sym = None
        for b in bd.calls():
            t = b.term
            c = t.callee or ""
            if is_tracing(t.macros):
                continue
            fn = ctx.prog.fns.get(c) or ffi.fns.get(c)
            if not fn or not fn.get("params"):
                continue
            params = [p for p in fn["params"]]
            if len(params) < 2 or len(params) != len(t.d["args"]):
                continue
            ps = set(p for p in params if p and p != "self")
            sym = sym or ctx.sym(bd)
            e = sym.call_expr(t)
            if e[0] != "call":
                continue
            for pname, ae in zip(params, e[2]):
                if not pname or pname == "self":
                    continue
                mentioned = _namesakes(ae, ps)
                if not mentioned:
                    continue
                k += 1
                ctx.check(pname in mentioned, "arg@%s:%s(%s)" % (short(bd.path), short(c), pname), "%s <- %s" % (pname, expr_str(ae)[:60]), bd.where(b.idx), bad_detail="parameter `%s` of %s receives `%s` (%s)" % (pname, short(c), ",".join(sorted(mentioned)), expr_str(ae)[:80]))
    ctx.note("namesake constructor arguments checked: %d" % k)


def camel(s):
    return "".join(x.capitalize() for x in s.split("_"))


def r3(ctx):
    ffi = ctx.ffi
    pat = re.compile(r"::database_(add|remove|update|get)_([a-z_]+?)(_2)?$")
    TRAIT = {"add": "Add::add", "remove": "Remove::remove", "update": "Update::update", "get": "Get::get"}
    n = 0
    for bd in ffi.bodies.values():
        m = pat.search(bd.path)
        if not m or not hand_written(bd) or bd.kind != "Fn":
            continue
        op, ty, two = m.group(1), m.group(2), bool(m.group(3))
        if ty in ("flags",):
            continue
        want_ty = camel(ty)
        meth = TRAIT[op] + ("2" if two else "")
        sym = ctx.sym(bd)
        cs = [b for b in bd.calls() if re.search(r"dnp3::outstation::database::(Add|Remove|Update|Get)::\w+$", b.term.declared or "")]
        if ty == "octet_string" and not cs:
            continue
        n += 1
        ctx.check(len(cs) == 1, "fwd:%s:one-native-call" % bd.path.split("::")[-1], "%d native database call(s)" % len(cs), bd.where(line=bd.line))
        for b in cs:
            decl = b.term.declared
            ctx.check(decl.endswith(meth), "fwd:%s:method" % bd.path.split("::")[-1], "forwards to %s" % short(decl), bd.where(b.idx), bad_detail="%s forwards to %s, expected %s" % (bd.path.split("::")[-1], short(decl), meth))
            targs = b.term.d.get("targs") or []
            tname = targs[-1].split("::")[-1] if targs else "?"
            want = want_ty + ("Config" if op == "add" else "")
            if ty == "octet_string" and op == "add":
                want = "OctetStringConfig"
            ctx.check(tname == want, "fwd:%s:type" % bd.path.split("::")[-1], "native type parameter %s" % tname, bd.where(b.idx), bad_detail="%s operates on native type %s, expected %s" % (bd.path.split("::")[-1], tname, want))
            e = sym.call_expr(b.term)
            args = e[2]
            if op in ("remove", "get"):
                ctx.check(args[1] == ("param", "index"), "fwd:%s:index" % bd.path.split("::")[-1], "index <- %s" % expr_str(args[1]), bd.where(b.idx))
            if op == "add":
                ctx.check(args[1] == ("param", "index"), "fwd:%s:index" % bd.path.split("::")[-1], "index <- %s" % expr_str(args[1]), bd.where(b.idx))
                ctx.check(mentions_name(args[2], "point_class"), "fwd:%s:class" % bd.path.split("::")[-1], "class <- %s" % expr_str(args[2])[:50], bd.where(b.idx))
                ctx.check(mentions_name(args[3], "config") or ty == "octet_string", "fwd:%s:config" % bd.path.split("::")[-1], "config <- %s" % expr_str(args[3])[:50], bd.where(b.idx))
            if op == "update":
                ctx.check(mentions_name(args[1], "value") and mentions_field(args[1], "index") or mentions_name(args[1], "index"), "fwd:%s:index" % bd.path.split("::")[-1], "index <- %s" % expr_str(args[1]), bd.where(b.idx))
                ctx.check(mentions_name(args[2], "value"), "fwd:%s:value" % bd.path.split("::")[-1], "value <- %s" % expr_str(args[2])[:50], bd.where(b.idx))
                ctx.check(mentions_name(args[3], "options"), "fwd:%s:options" % bd.path.split("::")[-1], "options <- %s" % expr_str(args[3])[:50], bd.where(b.idx))
        if op == "get":
            for b in call_sites(bd, r"ffi::\w+>::new$"):
                e = sym.call_expr(b.term)
                ctx.check(e[2][0] == ("param", "index") and mentions_call(e[2][1], r"database::Get::get$|Get<.*>>::get$"), "fwd:%s:result" % bd.path.split("::")[-1], "returns new(index, point)", bd.where(b.idx))
    if n < 35:
        raise AnchorError("expected >= 35 database forwarders, found %d" % n)
    ub = ffi.body("outstation::database::database_update_flags")
    us = ctx.sym(ub)
    cs = [b for b in ub.calls() if (b.term.declared or "").endswith("UpdateFlags::update_flags")]
    ctx.check(len(cs) == 1, "fwd:update_flags:call", "database_update_flags forwards to UpdateFlags::update_flags", ub.where(line=ub.line))
    for b in cs:
        e = us.call_expr(b.term)
        names = ["index", "flags_type", "flags", "time", "options"]
        for i, nm in enumerate(names):
            ctx.check(mentions_name(e[2][i + 1], nm), "fwd:update_flags:%s" % nm, "%s <- %s" % (nm, expr_str(e[2][i + 1])[:50]), ub.where(b.idx))


def _variant_fields(ctx, enum, v):
    a = ctx.prog.adts.get(enum) or ctx.ffi.adts.get(enum)
    if a is None:
        return None
    for x in a["variants"]:
        if x["name"] == v:
            return [(f[0], f[1]) for f in x["fields"]]
    return None


def r4(ctx):
    """Payload completeness of value conversions. (a) In a hand-written From/Into impl, a matched variant whose payload is never read is a
    loss if a sibling variant of the same enum with the same payload type has its payload read in that body (Time::Synchronized(t) carried
    over, Time::Unsynchronized(_) dropped). (b) Wherever a struct is built across the boundary inside the arm of a variant with NAMED
    fields, a target field with the name of one of the variant's fields is filled from it (Overflow { created, discarded } ->
    UpdateInfoFields { created, discarded })."""
    ffi = ctx.ffi
    na = nb = 0
    for bd in ffi.bodies.values():
        if not hand_written(bd):
            continue
        last = bd.path.split("::")[-1]
        sym = ctx.sym(bd)
        gi = ctx.gi(bd)
        gs = [g for g in gi.all_guards() if g.kind == "is" and g.enum and not is_tracing(g.macros)]
        if not gs:
            continue
        # (b) named payload fields -> namesake target fields
        for b, si, st in bd.assigns():
            rv = st.rv
            if rv["k"] != "agg" or rv.get("ak") != "struct" or side(rv["adt"]) is None or len(rv["fields"]) < 2:
                continue
            dom = [g for g in ctx.guards_at(bd, b.idx) if g.kind == "is" and g.enum and side(g.enum) not in (None, side(rv["adt"]))]
            if not dom:
                # the struct is built once behind the match from a tuple each arm fills (`let (a, b) = match v {..}; S { a, b }`):
                # the same obligation, per arm, on the tuple component that flows into the namesake field
                e = sym.rvalue_expr(rv)
                for fname, fe in e[3]:
                    if not (fe[0] == "field" and fe[1][0] == "var" and fe[2].isdigit()):
                        continue
                    k = int(fe[2])
                    nm_ = fe[1][1]
                    locs_ = [int(nm_[1:])] if nm_.startswith("_") and nm_[1:].isdigit() else bd.local_by_name(nm_)
                    for l_ in locs_:
                        for blk_, si_ in bd.defs.get(l_, []):
                            if si_ == "term" or blk_ not in bd.live_blocks():
                                continue
                            de = sym.def_expr(blk_, si_)
                            if de[0] != "tuple" or k >= len(de[1]):
                                continue
                            dom_ = [g for g in ctx.guards_at(bd, blk_) if g.kind == "is" and g.enum and side(g.enum) not in (None, side(rv["adt"]))]
                            if not dom_:
                                continue
                            g = min(dom_, key=lambda g: len(bd.region_of_edge(g.edge)))
                            vf = _variant_fields(ctx, g.enum, g.name)
                            if not vf or fname not in [n_ for n_, _ in vf if not n_.isdigit()]:
                                continue
                            nb += 1
                            src = ("field", ("variant", g.a, g.name), fname)
                            ctx.check(mentions(de[1][k], lambda x: x == src), "payload-field@%s:%s::%s.%s" % (short(bd.path), g.enum.split("::")[-1], g.name, fname), "%s.%s <- %s" % (rv["adt"].split("::")[-1], fname, expr_str(de[1][k])[:60]), bd.where(blk_), bad_detail="%s::%s carries a field `%s` and %s has a field of that name, but it is filled with `%s`: the value is lost at the boundary" % (g.enum.split("::")[-1], g.name, fname, rv["adt"].split("::")[-1], expr_str(de[1][k])[:60]))
                continue
            g = min(dom, key=lambda g: len(bd.region_of_edge(g.edge)))
            vf = _variant_fields(ctx, g.enum, g.name)
            if not vf:
                continue
            named = [n_ for n_, _ in vf if not n_.isdigit()]
            e = sym.rvalue_expr(rv)
            for fname, fe in e[3]:
                if fname not in named:
                    continue
                nb += 1
                src = ("field", ("variant", g.a, g.name), fname)
                ctx.check(mentions(fe, lambda x: x == src), "payload-field@%s:%s::%s.%s" % (short(bd.path), g.enum.split("::")[-1], g.name, fname), "%s.%s <- %s" % (rv["adt"].split("::")[-1], fname, expr_str(fe)[:60]), bd.where(b.idx), bad_detail="%s::%s carries a field `%s` and %s has a field of that name, but it is filled with `%s`: the value is lost at the boundary" % (g.enum.split("::")[-1], g.name, fname, rv["adt"].split("::")[-1], expr_str(fe)[:60]))
        # (a) sibling deviation inside From / Into impls
        if last not in ("from", "into"):
            continue
        reads, whole = set(), set()
        exprs = [sym.rvalue_expr(st.rv) for _, _, st in bd.assigns()] + [sym.call_expr(b.term) for b in bd.calls()]
        for g in gi.all_guards():
            exprs += g.exprs()
        for e in exprs:
            for x in expr_walk(e):
                if x[0] == "field" and x[1][0] == "variant":
                    reads.add((x[1][1], x[1][2], x[2]))
                elif x[0] == "call":
                    whole.update(x[2])
                elif x[0] == "agg":
                    whole.update(a for _, a in x[3])
        for _, _, _, e in ret_sites(bd, sym):
            whole.add(e)
        by_scrut = {}
        for g in gs:
            vf = _variant_fields(ctx, g.enum, g.name)
            if vf:
                by_scrut.setdefault((g.a, g.enum), {})[g.name] = vf
        for (x, enum), vs in by_scrut.items():
            if x in whole:
                continue
            status = {v: all((x, v, f) in reads for f, _ in fs) for v, fs in vs.items()}
            for v, fs in vs.items():
                if status[v]:
                    continue
                sib = [w for w, ws in vs.items() if w != v and status[w] and [t for _, t in ws] == [t for _, t in fs]]
                na += 1
                ctx.check(not sib, "payload-sibling@%s:%s::%s" % (short(bd.path), enum.split("::")[-1], v), "no sibling of %s::%s with the same payload type is carried over while it is dropped" % (enum.split("::")[-1], v), bd.where(line=bd.line), bad_detail="the conversion reads the payload of %s::%s but drops the payload of %s::%s (same type %s): the value is lost at the boundary" % (enum.split("::")[-1], "/".join(sib), enum.split("::")[-1], v, [t for _, t in fs]))
    # positive controls: the two instances this rule was written for are present
    tb = [b for b in ffi.bodies.values() if hand_written(b) and re.search(r"From<std::option::Option<dnp3::app::(measurement::)?Time>> for dnp3_ffi::ffi::Timestamp>::from$", b.path)]
    if len(tb) != 1:
        raise AnchorError("From<Option<Time>> for ffi::Timestamp (%d)" % len(tb))
    ctx.check(any(g.kind == "is" and (g.enum or "").endswith("::Time") for g in ctx.gi(tb[0]).all_guards()), "timestamp:matches-on-Time", "the Timestamp conversion distinguishes the Time variants (so the sibling rule applies to it)", tb[0].where(line=tb[0].line))
    if nb < 2:
        raise AnchorError("named payload field initialisations: %d" % nb)
    ctx.note("payload checks: %d sibling groups with an unread variant, %d named payload fields" % (na, nb))


def r5(ctx):
    """'without loss': a std::time::Duration that crosses the boundary is taken whole. The hand-written binding layer never looks at
    a Duration through a truncating accessor (as_secs, as_millis, subsec_*): `d.as_secs() == 0` as the "zero means disabled" test
    turns every sub-second setting off. The sentinel tests that exist compare the whole value with zero."""
    ffi = ctx.ffi
    trunc = r"time::Duration::(as_secs|as_millis|as_micros|as_nanos|subsec_\w+|as_secs_f32|as_secs_f64)$"
    ctor = r"time::Duration::(from_secs|from_millis|from_micros|from_nanos)$"
    n_ctor = 0
    bad = 0
    for bd in ffi.bodies.values():
        if not hand_written(bd):
            continue
        for b in call_sites(bd, trunc):
            bad += 1
            ctx.bad("duration-truncated@%s" % short(bd.path), "%s reads a Duration through %s: part of the configured value is ignored" % (short(bd.path), short(b.term.callee or b.term.declared or "")), bd.where(b.idx))
        n_ctor += len(call_sites(bd, ctor))
    if n_ctor < 3:
        raise AnchorError("positive control: Duration constructors found in the binding layer: %d" % n_ctor)
    if not bad:
        ctx.ok("duration:no-truncating-accessor", "no truncating Duration accessor in the hand-written binding layer (positive control: %d Duration constructors matched)" % n_ctor)
    k = 0
    for bd in ffi.bodies.values():
        if not hand_written(bd):
            continue
        for g in ctx.gi(bd).all_guards():
            if is_tracing(g.macros) or not any(mentions_call(e, r"::keep_alive_timeout$") for e in g.exprs()):
                continue
            if g.kind == "rel":
                k += 1
                other = g.b if mentions_call(g.a, r"::keep_alive_timeout$") else g.a
                zero = (mentions_call(other, r"Duration::from_secs$|Duration::from_millis$") and mentions_const(other, 0)) or mentions_call(other, r"Default>::default$|::default$") or mentions_constdef(other, r"Duration::ZERO$")
                whole = g.a[0] == "call" and (g.a[1] or "").endswith("keep_alive_timeout") or g.b[0] == "call" and (g.b[1] or "").endswith("keep_alive_timeout")
                ctx.check(g.op in ("Eq", "Ne") and zero and whole, "keep-alive-sentinel@%s" % short(bd.path), "keep-alive 'disabled' sentinel: %r" % g, bd.where(g.edge[0]), bad_detail="the keep-alive sentinel test is `%r`: not a comparison of the whole Duration with zero" % g)
    if k < 2:
        raise AnchorError("keep-alive sentinel tests: %d" % k)


def r6(ctx):
    """Two binding-layer mechanisms that carry per-item data: (a) the dead-band request builder stores (value, index) pairs and the
    native headers take (index, value): every arm of WriteDeadBandRequest::build goes through the same transposing adaptor and the
    namesake native constructor (for the one variant where both halves are u16 a plain clone type-checks and swaps them);
    (b) an iterator that hands out a sub-iterator per item through `Option::get_or_insert` empties the slot first - get_or_insert
    keeps what is already there, so every item after the first would be handed the drained iterator of the first."""
    ffi = ctx.ffi
    bb = ffi.body("write_dead_band_request::WriteDeadBandRequest::build")
    gi = ctx.gi(bb)
    arms = [g for g in gi.all_guards() if g.kind == "is" and (g.enum or "").endswith("write_dead_band_request::Header")]
    if len(arms) < 6:
        raise AnchorError("WriteDeadBandRequest::build: %d arms" % len(arms))
    shapes = {}
    for g in arms:
        reg = region_of(bb, g)
        calls = [short(c) for _, _, c in calls_in_blocks(ctx.program("dnp3_ffi"), bb, reg, r".", follow_closures=False)]
        ctor = [c for c in calls if c.startswith("DeadBandHeader::group34")]
        rest = sorted(c for c in calls if not c.startswith("DeadBandHeader::group34") and not c.endswith("::push"))
        shapes[g.name] = (ctor, tuple(rest))
        want = "group34_var%s_u%s" % tuple(re.match(r"G34V(\d)U(\d+)$", g.name).groups())
        ctx.check(len(ctor) == 1 and ctor[0].endswith(want), "deadband:%s:ctor" % g.name, "%s -> %s" % (g.name, ctor), bb.where(g.edge[1]), bad_detail="Header::%s is built with %s, expected DeadBandHeader::%s" % (g.name, ctor, want))
    common = {}
    for v, (c, r_) in shapes.items():
        common.setdefault(r_, []).append(v)
    major = max(common.values(), key=len)
    for v, (c, r_) in shapes.items():
        ctx.check(v in major, "deadband:%s:adaptor" % v, "%s converts its pairs like its siblings (%s)" % (v, list(r_)[:4]), bb.where(line=bb.line), bad_detail="Header::%s converts its items with %s while its %d siblings use %s: (dead band, index) pairs are handed over untransposed" % (v, list(r_)[:5], len(major), [k for k, vs in common.items() if vs is major][0][:5]))
    # (b)
    n = 0
    for bd in ffi.bodies.values():
        if not hand_written(bd):
            continue
        sym = None
        for c in call_sites(bd, r"Option<.*>::get_or_insert(_with)?$|Option::get_or_insert(_with)?$"):
            sym = sym or ctx.sym(bd)
            recv = c.term.args[0]
            if recv.is_const():
                continue
            # the field the slot lives in
            fe = sym.operand_expr(recv)
            fld = fe[2] if fe[0] == "field" else None
            if fld is None:
                continue
            n += 1
            clears = []
            for b, si, st in bd.assigns():
                if st.dest.proj and st.dest.proj[-1] == "." + fld:
                    ve = sym.rvalue_expr(st.rv)
                    if ve[0] == "agg" and ve[2] == "None":
                        clears.append(b.idx)
            ok = any(bd.block_dominates(x, c.idx) for x in clears)
            ctx.check(ok, "get_or_insert-after-clear@%s:%s" % (short(bd.path), fld), "`%s` is emptied before get_or_insert" % fld, bd.where(c.idx), bad_detail="%s calls get_or_insert on `%s` without emptying it first: from the second item on the stale value is handed out" % (short(bd.path), fld))
    if n < 1:
        raise AnchorError("get_or_insert sites in the binding layer: %d" % n)


RULES = [
    ("C20.R1", "T4-namesake", "every cross-boundary enum arm constructs the namesake variant; both directions compose to identity", r1),
    ("C20.R2", "T8-namesake", "struct fields and constructor arguments are filled from their own namesake", r2),
    ("C20.R3", "T8-forwarders", "database forwarders resolve to the namesake native operation with the same arguments", r3),
    ("C20.R4", "T8-payload", "variant payloads are carried across the boundary: no sibling-deviant drop, named fields reach their namesakes", r4),
    ("C20.R5", "T5-zero/T2", "Durations cross the boundary whole: no truncating accessor; zero sentinels compare the whole value", r5),
    ("C20.R6", "T-sibling/T2", "dead-band request arms agree on their adaptor and namesake constructor; per-item slots are emptied before get_or_insert", r6),
]


def r7(ctx):
    """Completeness and namesakes of the hand-written adaptor layer, stated over whole types:
    (a) a `From<ffi::S>` conversion of a foreign STRUCT reads every field of S (through its accessor or directly) - a field that is
        never read is a value dropped at the boundary (`update_static` replaced by a constant); `index` is exempt where the native
        value has no index (it travels as a separate argument);
    (b) a `From<ffi::E>` conversion of a foreign ENUM is by name: it has an arm for every variant of E (R1 checks each arm builds its
        namesake) - a numeric short-cut (`E as u8`) silently relies on two unrelated numberings agreeing;
    (c) an implementation of a native trait for a foreign interface forwards each method to the interface's callback OF THE SAME NAME
        when it calls a callback of that interface that is itself some trait method's namesake (warm_restart -> cold_restart)."""
    ffi = ctx.ffi
    na = nb = nc = 0
    structs = {pth: a for pth, a in ffi.adts.items() if a["kind"] == "struct" and pth.startswith("dnp3_ffi::ffi::")}
    impls = {}
    for bd in ffi.bodies.values():
        if not hand_written(bd):
            continue
        m = re.search(r"From<(dnp3_ffi::ffi::\w+)> for ([\w:<>, ']+)>::from$", bd.path)
        if m and m.group(1) in structs:
            src = m.group(1)
            fields = [f[0] for f in structs[src]["variants"][0]["fields"]]
            sym = ctx.sym(bd)
            got = set()
            for b in bd.calls():
                c = b.term.callee or ""
                if c.startswith(src + "::"):
                    got.add(c.split("::")[-1])
            exprs = [sym.rvalue_expr(st.rv) for _, _, st in bd.assigns()] + [sym.call_expr(b.term) for b in bd.calls()]
            for ch in ffi.children(bd):
                for b in ch.calls():
                    c = b.term.callee or ""
                    if c.startswith(src + "::"):
                        got.add(c.split("::")[-1])
            for e in exprs:
                for x in expr_walk(e):
                    if x[0] == "field" and x[2] in fields:
                        got.add(x[2])
            missing = [f for f in fields if f not in got and f != "index"]
            na += 1
            ctx.check(not missing, "struct-fields@%s" % short(bd.path), "every field of %s is read (%d)" % (src.split("::")[-1], len(fields)), bd.where(line=bd.line), bad_detail="the conversion from ffi::%s never reads its field(s) %s: whatever the caller put there is dropped at the boundary" % (src.split("::")[-1], missing))
        a = ffi.adts.get(m.group(1)) if m else None
        if m and a is not None and a["kind"] == "enum":
            src = m.group(1)
            vs = [v["name"] for v in a["variants"]]
            seen = set()
            for g in ctx.gi(bd).all_guards():
                if g.enum == src:
                    if g.kind == "is":
                        seen.add(g.name)
                    elif g.kind == "oneof":
                        seen.update(g.name)
            nb += 1
            missing = [v for v in vs if v not in seen]
            ctx.check(not missing, "enum-by-name@%s" % short(bd.path), "the conversion has an arm for each of the %d variants of %s" % (len(vs), src.split("::")[-1]), bd.where(line=bd.line), bad_detail="the conversion from ffi::%s has no arm for %s: it is not a translation by name" % (src.split("::")[-1], missing[:6]))
        m2 = re.search(r"<impl ([\w:<>, ']+) for (dnp3_ffi::ffi::\w+)>::(\w+)$", bd.path)
        if m2:
            impls.setdefault((m2.group(2), m2.group(1)), {})[m2.group(3)] = bd
    for (ty, tr), ms in impls.items():
        names = set(ms)
        for meth, bd in ms.items():
            called = []
            for x in [bd] + list(ffi.children(bd)):
                called += [(b.term.callee or "").split("::")[-1] for b in x.calls() if (b.term.callee or "").startswith(ty + "::")]
            if not called:
                continue
            nc += 1
            wrong = sorted({c for c in called if c != meth and c in names})
            ctx.check(not wrong, "forwarder@%s::%s" % (ty.split("::")[-1], meth), "%s forwards to the foreign %s" % (meth, sorted(set(called))), bd.where(line=bd.line), bad_detail="%s::%s forwards to the foreign callback %s, which is the namesake of another method of the same trait" % (ty.split("::")[-1], meth, wrong))
    if na < 20 or nb < 12 or nc < 40:
        raise AnchorError("adaptor census: %d struct conversions, %d enum conversions, %d forwarders" % (na, nb, nc))


RULES.append(("C20.R7", "T4-total/T4-namesake", "foreign structs are converted field-complete, foreign enums by name, trait adaptors forward to the namesake callback", r7))


def r8(ctx):
    """(a) Positional arguments across the boundary: a field `x.f` of a foreign struct handed to a library constructor whose parameter
    is named `p`, while a struct has same-typed fields `f` and `p` (`Group12Var1::new(code, count, x.off_time, x.on_time)`), swaps
    two values silently (shared helper arg_namesakes, with the library's parameter names). (b) A foreign timestamp whose quality is
    InvalidTime is `None` on the library side: the hand-written layer never converts an `Option<Time>` into a bare `Time` (which maps
    None to Unsynchronized(0)) - the seven point conversions keep the Option."""
    ffi = ctx.ffi
    arg_namesakes(ctx, ffi, label="ffi-arg-namesake", other=ctx.prog, only=hand_written, floor=40)
    n = 0
    for bd in ffi.bodies.values():
        if not hand_written(bd):
            continue
        for c in bd.calls():
            cal = c.term.declared or c.term.callee or ""
            if not re.search(r"convert::(Into::into|From::from)$", cal):
                continue
            ta = c.term.d.get("targs") or []
            n += 1
            if len(ta) >= 2:
                src, dst = (ta[0], ta[1]) if cal.endswith("into") else (ta[1], ta[0])
                lossy = re.search(r"Option<.*measurement::Time>$|Option<.*app::Time>$|Option<Time>$", src) and not dst.startswith("std::option::Option") and re.search(r"(measurement::|app::|^)Time$", dst)
                ctx.check(not lossy, "time-option-kept@%s" % short(bd.path), "%s -> %s" % (src[-40:], dst[-30:]), bd.where(c.idx), bad_detail="%s converts %s into %s: a timestamp of quality InvalidTime (None) becomes Unsynchronized(0)" % (short(bd.path), src, dst)) if lossy else None
    if n < 100:
        raise AnchorError("conversion calls in the adaptor layer: %d" % n)


RULES.append(("C20.R8", "T8-namesake/T4", "positional arguments handed to the library are the parameter's namesake; an invalid time stays None", r8))
