"""C01 — bytes from the peer can never crash or wedge a master or an outstation (panic-freedom part)."""
import json
import os

from engine import *
from mir import *

EXPLANATION = (
    "Over-approximation of 'never panics': every panic site in every local body reachable (resolved calls, closure creation, class-hierarchy "
    "edges for unresolved trait calls, Display/Debug impls reached through fmt arguments) from the futures handed to tokio::spawn is "
    "enumerated: MIR Assert terminators (overflow, bounds, div/rem by zero) and calls of functions documented to panic (unwrap/expect, "
    "Index::index on slices/maps, copy_from_slice, split_at, chunks, Instant/Duration operators, RefCell borrows, core::panicking). Each "
    "site is discharged automatically (constant operands, shift by constant < width, non-zero constant divisor, interval analysis through "
    "widening casts / masks / len(), refinement from dominating comparison guards, relational guard for a - b), or by a reviewed entry of "
    "tables/c01_reviewed.tsv (keyed without positions, optionally requiring a dominating guard), else it is a violation. Loops reachable "
    "from the tasks are classified: iterator-driven, await-bearing, or listed with their progress argument; a cycle with neither exit nor "
    "await is a violation."
)
ASSUMPTIONS = [
    "'never spins or stalls' and 'a following request is handled normally' are liveness clauses and are not decided (R4 only rules out degenerate loop shapes)",
    "external callees not in the panic-API list are assumed not to panic; user callbacks, tokio/tracing internals, allocation failure and Mutex poisoning by a panicking user closure are outside the boundary",
    "expansions of tokio::select!/pin!/join! and tracing macros are trusted; their arguments and the Display impls they reach are analysed",
]
TRUSTED = ["rustc nightly MIR + Instance::try_resolve", "facts driver", "tables/c01_reviewed.tsv (reviewed invariants)", "rules/mir.py call graph (CHA for unresolved trait calls)"]

TYPE_BITS = {"u8": 8, "u16": 16, "u32": 32, "u64": 64, "usize": 64, "u128": 128, "i8": 8, "i16": 16, "i32": 32, "i64": 64, "isize": 64, "i128": 128}

PANIC_API = [
    (re.compile(r"(option::Option|result::Result)::(unwrap|expect|unwrap_err|expect_err)$"), "unwrap"),
    (re.compile(r"ops::index::Index(Mut)?::index(_mut)?$|ops::Index(Mut)?::index(_mut)?$"), "index"),
    (re.compile(r"slice::<impl \[T\]>::(copy_from_slice|clone_from_slice|split_at|split_at_mut|chunks|chunks_exact|windows|copy_within|swap|rotate_left|rotate_right)$"), "slice-op"),
    (re.compile(r"core::panicking::|std::rt::begin_panic|core::option::expect_failed|core::result::unwrap_failed"), "panic"),
    (re.compile(r"cell::RefCell.*::(borrow|borrow_mut)$"), "refcell"),
    (re.compile(r"vec::Vec.*::(remove|insert|swap_remove|drain|split_off)$|VecDeque.*::(swap|insert|split_off|drain|range|range_mut)$"), "vec-op"),
    (re.compile(r"str.*::split_at$|string::String::(remove|insert|insert_str|truncate|drain)$"), "str-op"),
    (re.compile(r"iter::.*::step_by$"), "step_by"),
    (re.compile(r"btree_map::BTreeMap<.*>::(range|range_mut)$|btree::map::BTreeMap<.*>::(range|range_mut)$|BTreeMap.*::(range|range_mut)$|btree_set::BTreeSet.*::range$"), "btree-range"),
    (re.compile(r"time::Duration::(from_secs_f32|from_secs_f64|mul_f32|mul_f64|div_f32|div_f64)$"), "duration-float"),
]
# operator impls on std types that panic on overflow
OP_DECL = re.compile(r"std::ops::(Add|Sub|Mul|Div|Rem|AddAssign|SubAssign|MulAssign|DivAssign|Neg)::\w+$")
OP_PANICKY_SELF = re.compile(r"(time::Instant|time::instant::Instant|time::Duration|time::SystemTime)")

TRUSTED_MACROS = ("tracing::", "tracing_core::", "tokio::")


def trusted_span(macros):
    return any(m.startswith(TRUSTED_MACROS) for m in (macros or ()))


def entry_roots(ctx):
    prog = ctx.prog
    roots = set()
    sites = []
    for bd in prog.bodies.values():
        if "::tests::" in bd.path or "::test::" in bd.path:
            continue
        for b in bd.calls():
            c = b.term.callee or ""
            if re.search(r"tokio::(task::spawn::)?spawn$|tokio::task::spawn$", c):
                e = ctx.sym(bd).call_expr(b.term)
                sites.append((bd, b))
                for s_ in expr_walk(e[2][0]):
                    if s_[0] == "closure":
                        roots.add(s_[1])
                    if s_[0] == "call" and s_[1] in prog.bodies:
                        roots.add(s_[1])
                        if s_[1] + "::{closure#0}" in prog.bodies:
                            roots.add(s_[1] + "::{closure#0}")
    return {r for r in roots if r in prog.bodies}, sites


def nice(path):
    return re.sub(r"\b[a-z_][a-z_0-9]*::", "", path)


def load_reviewed():
    out = {}
    p = os.path.join(VERIF, "tables", "c01_reviewed.tsv")
    for line in open(p):
        if line.startswith("#") or not line.strip():
            continue
        parts = line.rstrip("\n").split("\t")
        while len(parts) < 6:
            parts.append("")
        fn_, kind, sig, requires, why, callers = parts[:6]
        out[(fn_, kind, sig)] = (requires, why, callers)
    return out


def load_reviewed_erased():
    """(function, kind, name-erased signature) -> exact key, from column 7 of the table (bin/gen_c01_erased.py fills it from the
    reviewed tree). A site whose exact key is unknown but whose name-erased signature is that of a reviewed site in the same function
    is that site after a rename of a local / parameter or after its loop variable became a pattern binding."""
    out = {}
    p = os.path.join(VERIF, "tables", "c01_reviewed.tsv")
    for line in open(p):
        if line.startswith("#") or not line.strip():
            continue
        parts = line.rstrip("\n").split("\t")
        if len(parts) >= 7 and parts[6]:
            k = (parts[0], parts[1], parts[6])
            out.setdefault(k, []).append((parts[0], parts[1], parts[2]))
    return out


def erase_names(e, names):
    """e with every variable / parameter / capture replaced by a placeholder numbered by first occurrence, and the payload of a
    downcast variable (`v@Some.0`) taken for the variable itself."""
    if not isinstance(e, tuple) or not e:
        return e
    if e[0] == "field" and len(e) == 3 and e[2] == "0" and isinstance(e[1], tuple) and e[1][0] == "variant" and isinstance(e[1][1], tuple) and e[1][1][0] in ("var", "param", "capture"):
        return erase_names(e[1][1], names)
    if e[0] in ("try", "mutated") and len(e) == 2 and isinstance(e[1], tuple) and e[1][0] in ("var", "param", "capture"):
        return erase_names(e[1], names)
    if e[0] == "const" and len(e) >= 3 and e[1] is None and isinstance(e[2], str) and e[2].lstrip().startswith(('"', 'b"')):
        return ("const", None, '"$text"')  # the wording of a panic message is not behaviour
    if e[0] in ("var", "param", "capture") and len(e) == 2:
        if e[1] == "self":
            return e
        k = (e[0], e[1])
        if k not in names:
            names[k] = "$%d" % (len(names) + 1)
        return ("var", names[k])
    return tuple(erase_names(x, names) if isinstance(x, tuple) else x for x in e)


def erased_sig(exprs):
    names = {}
    return ", ".join(expr_str(erase_names(e, names))[:70] for e in exprs)


# ---------------------------------------------------------------------------------------------
# intervals
# ---------------------------------------------------------------------------------------------
def ty_range(ty):
    if ty in TYPE_BITS:
        n = TYPE_BITS[ty]
        if ty.startswith("u"):
            return (0, (1 << n) - 1)
        return (-(1 << (n - 1)), (1 << (n - 1)) - 1)
    if ty == "bool":
        return (0, 1)
    return None


def irange(e, depth=0):
    """Conservative integer interval of a symbolic expression, or None."""
    if depth > 12:
        return None
    k = e[0]
    if k == "const":
        return (e[1], e[1]) if isinstance(e[1], int) else None
    if k == "cast":
        to = ty_range(e[1])
        inner = irange(e[2], depth + 1)
        src = ty_range(e[3]) if len(e) > 3 else None
        r = inner or src
        if to is None:
            return None
        if r is not None and r[0] >= to[0] and r[1] <= to[1]:
            return r
        return to
    if k == "bin":
        op = e[1]
        a = irange(e[2], depth + 1)
        b = irange(e[3], depth + 1)
        if op == "BitAnd":
            cands = [x[1] for x in (a, b) if x is not None and x[0] >= 0]
            if cands:
                return (0, min(cands))
            return None
        if op == "Rem" and b is not None and b[0] > 0:
            return (0, b[1] - 1)
        if op == "Shr" and a is not None and b is not None and b[0] == b[1] and a[0] >= 0:
            return (a[0] >> b[0], a[1] >> b[0])
        if op == "Div" and a is not None and b is not None and b[0] > 0 and a[0] >= 0:
            return (a[0] // b[1], a[1] // b[0])
        if a is None or b is None:
            return None
        if op in ("Add", "AddWithOverflow", "AddUnchecked"):
            return (a[0] + b[0], a[1] + b[1])
        if op in ("Sub", "SubWithOverflow"):
            return (a[0] - b[1], a[1] - b[0])
        if op in ("Mul", "MulWithOverflow"):
            c = [a[0] * b[0], a[0] * b[1], a[1] * b[0], a[1] * b[1]]
            return (min(c), max(c))
        if op in ("Eq", "Ne", "Lt", "Le", "Gt", "Ge"):
            return (0, 1)
        return None
    if k == "field" and e[2] == "0" and e[1][0] == "bin" and e[1][1].endswith("WithOverflow"):
        return irange(("bin", e[1][1], e[1][2], e[1][3]), depth + 1)
    if k == "call":
        path = e[1] or ""
        if re.search(r"::len$", path) and ("slice" in path or "Vec" in path or "vec::" in path or "str" in path or "VecDeque" in path or "collections" in path):
            return (0, (1 << 63) - 1)
        if re.search(r"cmp::(min|Ord::min)$|::min$", path) and len(e[2]) == 2:
            a, b = irange(e[2][0], depth + 1), irange(e[2][1], depth + 1)
            if a and b:
                return (min(a[0], b[0]), min(a[1], b[1]))
            known = a or b
            if known and known[0] >= 0:
                return (0, known[1]) if (a is None or b is None) else None
        if re.search(r"::(into|from)$", path) and len(e[2]) == 1:
            return irange(e[2][0], depth + 1)
        if re.search(r"ReadCursor::remaining$|WriteCursor::(remaining|position)$|ReadCursor::position$", path):
            return (0, (1 << 63) - 1)
        return None
    if k in ("try", "await", "mutated"):
        return irange(e[1], depth + 1)
    return None


def operand_type(body, op):
    if op.kind == "const":
        return op.const.get("kty")
    p = op.place
    if p.proj:
        return p.ty
    return body.local_tys[p.local] if p.local < len(body.local_tys) else None


def refine(ctx, body, blk, expr, rng):
    """Narrow rng of `expr` using dominating comparison guards against constants."""
    lo, hi = rng
    for g in ctx.guards_at(body, blk):
        if g.kind != "rel":
            continue
        for x, y, op in ((g.a, g.b, g.op), (g.b, g.a, SWAP[g.op])):
            if x != expr:
                continue
            r = irange(y)
            if r is None:
                continue
            if op == "Lt":
                hi = min(hi, r[1] - 1)
            elif op == "Le":
                hi = min(hi, r[1])
            elif op == "Gt":
                lo = max(lo, r[0] + 1)
            elif op == "Ge":
                lo = max(lo, r[0])
            elif op == "Eq":
                lo, hi = max(lo, r[0]), min(hi, r[1])
            elif op == "Ne" and r[0] == r[1]:
                if r[0] == hi:
                    hi -= 1
                if r[0] == lo:
                    lo += 1
    return (lo, hi)


def relational_ok(ctx, body, blk, a, b):
    """a - b cannot underflow: a dominating guard says a >= b."""
    for g in ctx.guards_at(body, blk):
        if g.kind != "rel":
            continue
        if g.a == a and g.b == b and g.op in ("Ge", "Gt", "Eq"):
            return True
        if g.a == b and g.b == a and g.op in ("Le", "Lt", "Eq"):
            return True
    return False


# ---------------------------------------------------------------------------------------------
def discharge_assert(ctx, body, blk):
    """Return (status, detail): status in auto | None."""
    t = blk.term
    sym = ctx.sym(body)
    mk = t.d["mk"]
    ops = t.d["ops"]
    ex = [sym.operand_expr(o) for o in ops]
    tys = [operand_type(body, o) for o in ops]
    if mk.startswith("Overflow("):
        op = mk[9:-1]
        if op in ("Shl", "Shr"):
            r = irange(ex[1])
            width = TYPE_BITS.get(tys[0] or "", None)
            if r is not None and width and 0 <= r[0] and r[1] < width:
                return "auto", "shift amount in [%d,%d] < %d" % (r[0], r[1], width)
            if r is None and width:
                tr = ty_range(tys[1] or "")
                rr = refine(ctx, body, blk.idx, ex[1], tr) if tr else None
                if rr and 0 <= rr[0] and rr[1] < width:
                    return "auto", "shift amount refined to [%d,%d] < %d" % (rr[0], rr[1], width)
            return None, "shift amount not bounded below the width"
        ty = tys[0] if tys[0] in TYPE_BITS else (tys[1] if len(tys) > 1 else None)
        tr = ty_range(ty or "")
        if tr is None:
            return None, "operand type %s unknown" % ty
        rs = []
        for e, oty in zip(ex, tys):
            r = irange(e)
            full = ty_range(oty or "") or tr
            if r is None:
                r = full
            r = (max(r[0], full[0]), min(r[1], full[1]))
            r = refine(ctx, body, blk.idx, e, r)
            rs.append(r)
        if op == "Add":
            # x + 1 cannot overflow when a dominating guard says x < y (y of the same type)
            for xi, ci in ((0, 1), (1, 0)):
                if rs[ci] == (1, 1) and any(g.kind == "rel" and ((g.op == "Lt" and g.a == ex[xi]) or (g.op == "Gt" and g.b == ex[xi])) for g in ctx.guards_at(body, blk.idx)):
                    return "auto", "a dominating guard bounds %s strictly below another value of its type" % expr_str(ex[xi])[:40]
            res = (rs[0][0] + rs[1][0], rs[0][1] + rs[1][1])
        elif op == "Sub":
            if relational_ok(ctx, body, blk.idx, ex[0], ex[1]):
                return "auto", "dominating guard establishes %s >= %s" % (expr_str(ex[0])[:40], expr_str(ex[1])[:40])
            res = (rs[0][0] - rs[1][1], rs[0][1] - rs[1][0])
        elif op == "Mul":
            c = [rs[0][0] * rs[1][0], rs[0][0] * rs[1][1], rs[0][1] * rs[1][0], rs[0][1] * rs[1][1]]
            res = (min(c), max(c))
        else:
            return None, "unhandled overflow kind %s" % op
        if res[0] >= tr[0] and res[1] <= tr[1]:
            return "auto", "operands in %s: result in [%d,%d] fits %s" % (rs, res[0], res[1], ty)
        return None, "operands in %s: result [%d,%d] may leave %s" % (rs, res[0], res[1], ty)
    if mk in ("DivisionByZero", "RemainderByZero"):
        # the assert's operand is the dividend; the divisor is in the condition `Eq(divisor, 0)`
        ce = sym.operand_expr(t.d["cond"])
        div = ce[2] if ce[0] == "bin" and ce[1] == "Eq" else None
        r = irange(div) if div is not None else None
        if r is not None and (r[0] > 0 or r[1] < 0):
            return "auto", "divisor is in [%d,%d], never zero" % r
        return None, "divisor %s may be zero" % (expr_str(div) if div is not None else "?")
    if mk == "BoundsCheck":
        ln, ix = irange(ex[0]), irange(ex[1])
        if ln is not None and ix is not None and ln[0] == ln[1] and 0 <= ix[0] and ix[1] < ln[0]:
            return "auto", "index in [%d,%d] < length %d" % (ix[0], ix[1], ln[0])
        if ln is not None and ln[0] == ln[1] and ix is None:
            tr = ty_range(tys[1] or "")
            if tr:
                rr = refine(ctx, body, blk.idx, ex[1], tr)
                if 0 <= rr[0] and rr[1] < ln[0]:
                    return "auto", "index refined to [%d,%d] < length %d" % (rr[0], rr[1], ln[0])
        return None, "index not bounded by the length"
    return None, "unhandled assert kind"


GENERIC = [
    ("unwrap", lambda e: len(e[2]) >= 1 and e[2][0][0] == "call" and re.search(r"sync::(poison::)?(mutex::)?Mutex.*::lock$", e[2][0][1] or "") is not None,
     "Mutex::lock().unwrap(): poisoning requires a panic while the lock is held; the library code run under the lock is itself in this census, user closures passed to DatabaseHandle::transaction are the listed assumption"),
    ("time-op", lambda e: re.search(r"Add.*::add$", e[1] or "") is not None and len(e[2]) == 2 and mentions_call(e[2][0], r"Instant::now$"),
     "Instant::now() + <configured duration>: overflows only for a configured duration of about 2^63 s; legal configurations are assumed to use representable deadlines (listed assumption)"),
    ("time-op", lambda e: re.search(r"Div.*::div$|DivAssign.*::div_assign$", e[1] or "") is not None and len(e[2]) == 2 and e[2][1][0] == "const" and isinstance(e[2][1][1], int) and e[2][1][1] != 0,
     "Duration / <non-zero integer literal>: Duration's Div<u32> panics only for a zero divisor"),
]


def generic_class(kind, e):
    if e is None or e[0] != "call":
        return None
    for k_, pred, why in GENERIC:
        if k_ == kind and pred(e):
            return why
    return None


def sig_of(exprs):
    return ", ".join(expr_str(e)[:70] for e in exprs)


def r1(ctx):
    prog = ctx.prog
    cg = prog.callgraph
    roots, spawn_sites = entry_roots(ctx)
    # counted: 13 spawn sites / 40+ roots with default features; 9 / 34 without them (no TLS, no serial) in the configuration sweep
    min_sites = 8 if getattr(ctx, "sweep", False) else 12
    if len(roots) < 20 or len(spawn_sites) < min_sites:
        raise AnchorError("expected >= %d tokio::spawn sites with >= 20 root bodies, found %d / %d" % (min_sites, len(spawn_sites), len(roots)))
    reach = cg.reachable_from(sorted(roots))
    local = sorted(p for p in reach if p in prog.bodies and "::tests::" not in p and "::test::" not in p)
    reviewed = load_reviewed()
    reviewed_erased = load_reviewed_erased()
    dump = []
    used = set()
    n_assert = n_api = 0
    ext = set(p for p in reach if p not in prog.bodies)
    counts = {}
    pending = []

    def accept(ent, key, p, bd, blk, via=None):
        requires, why, callers_rx = ent
        if callers_rx:
            # the invariant is an argument about who calls this function: the caller set is frozen
            decl = None
            for im in prog.impls:
                for nm_, ip_, tg_ in im["items"]:
                    if ip_ == p and im.get("trait"):
                        decl = im["trait"] + "::" + nm_
            who = {c_[0] for c_ in cg.callers_of(lambda c_, p=p, decl=decl: c_ == p or (decl is not None and c_ == decl)) if "::tests::" not in c_[0]}
            badc = sorted(w for w in who if not re.search(callers_rx, w))
            if badc:
                ctx.bad("site@%s|%s|%s" % key, "reviewed invariant rests on the caller set /%s/ but it is also called from %s" % (callers_rx, [short(x) for x in badc]), bd.where(blk.idx))
                return
        if requires:
            gs = " ; ".join(repr(g) for g in ctx.guards_at(bd, blk.idx))
            if not re.search(requires, gs):
                ctx.bad("site@%s|%s|%s" % key, "reviewed invariant needs a dominating guard /%s/ which is gone (guards now: %s)" % (requires, gs[:200]), bd.where(blk.idx))
                return
        used.add(key)
        ctx.ok("site@%s|%s|%s" % key, "reviewed%s: %s" % (" (as %s, names erased)" % via[2] if via else "", why), bd.where(blk.idx))

    for p in local:
        bd = prog.bodies[p]
        live = bd.live_blocks()
        sym = None
        for blk in bd.blocks:
            if blk.idx not in live or blk.cleanup:
                continue
            t = blk.term
            if trusted_span(t.macros):
                continue
            kind = sig = None
            if t.kind == "assert":
                n_assert += 1
                sym = sym or ctx.sym(bd)
                status, detail = discharge_assert(ctx, bd, blk)
                kind = t.d["mk"]
                sig_exprs = [sym.operand_expr(o) for o in t.d["ops"]]
                sig = sig_of(sig_exprs)
                esig = erased_sig(sig_exprs)
                if status == "auto":
                    ctx.ok("assert@%s|%s|%s" % (nice(p), kind, sig), "auto: " + detail, bd.where(blk.idx))
                    continue
            elif t.kind == "call":
                c = t.callee or t.declared or ""
                d = t.declared or ""
                for rx, k_ in PANIC_API:
                    if rx.search(c) or rx.search(d):
                        kind = k_
                        break
                if kind is None and OP_DECL.search(d):
                    targs = t.d.get("targs") or []
                    if targs and OP_PANICKY_SELF.search(targs[0]):
                        kind = "time-op"
                if kind is None:
                    continue
                if kind == "panic" and is_fmt_macro(t.macros) and not any(m.endswith(("::panic", "::unreachable", "::assert", "::assert_eq", "::assert_ne", "::todo", "::unimplemented")) or m.startswith("desugar") for m in t.macros):
                    pass
                n_api += 1
                sym = sym or ctx.sym(bd)
                e = sym.call_expr(t)
                args = e[2] if e[0] == "call" else ()
                sig = short(c) + "(" + sig_of(args) + ")"
                esig = short(c) + "(" + erased_sig(args) + ")"
                detail = "call of %s" % short(c)
                if kind == "unwrap" and args:
                    recv = args[0]
                    okg = [g for g in ctx.guards_at(bd, blk.idx) if g.kind == "is" and g.name in ("Some", "Ok") and g.a == recv]
                    if okg:
                        ctx.ok("api@%s|%s|%s" % (nice(p), kind, sig), "auto: dominated by `%s`" % okg[0], bd.where(blk.idx))
                        continue
            else:
                continue
            cls = generic_class(kind, e if t.kind == "call" else None)
            if cls is not None:
                ctx.ok("class@%s|%s|%s" % (nice(p), kind, sig), "accepted class: " + cls, bd.where(blk.idx))
                continue
            key = (nice(p), kind, sig)
            counts[key] = counts.get(key, 0) + 1
            ent = reviewed.get(key)
            if ent is None and "::{closure#" in p:
                # the same arithmetic moved into a closure of the reviewed function (a loop rewritten with iterator combinators): the
                # invariant is about the function's data, not about the loop syntax. Only for entries that rest on no local guard.
                parent_ = re.sub(r"(::\{closure#\d+\})+$", "", p)
                if parent_ in prog.absorbed:
                    # ...of a helper that is itself new (inlined into its caller): the reviewed function is that caller
                    cs_ = sorted({c_ for c_, callee_ in prog.inlined if callee_ == parent_})
                    if len(cs_) == 1:
                        parent_ = re.sub(r"(::\{closure#\d+\})+$", "", cs_[0])
                pk = (nice(parent_), kind, sig)
                pe = reviewed.get(pk)
                if pe is not None and not pe[0] and not pe[2]:
                    ent = pe
                    used.add(pk)
            dump.append((nice(p), kind, sig, esig))
            if ent is None:
                pending.append((p, bd, blk, kind, sig, esig, key, detail, nice(parent_) if "::{closure#" in p else None))
                continue
            accept(ent, key, p, bd, blk)
    # exact misses: a renamed local / parameter, or a loop variable that became a pattern binding - same function, same kind, same
    # signature once names are erased, and the reviewed site is not itself still present (so a second, new, site of the same shape
    # is not taken for it)
    for p, bd, blk, kind, sig, esig, key, detail, par in pending:
        cands = []
        for fn_ in [nice(p)] + ([par] if par else []):
            cands += [k_ for k_ in reviewed_erased.get((fn_, kind, esig), []) if k_ in reviewed and k_ not in used and (fn_ == nice(p) or (not reviewed[k_][0] and not reviewed[k_][2]))]
        if cands:
            used.add(cands[0])
            accept(reviewed[cands[0]], key, p, bd, blk, via=cands[0])
        else:
            ctx.bad("site@%s|%s|%s" % key, "panic site reachable from a spawned task is neither auto-discharged (%s) nor reviewed" % detail, bd.where(blk.idx))
    ctx.note("entry bodies %d (from %d tokio::spawn sites); reachable local bodies %d; external callees trusted not to panic %d; asserts %d; panic-API calls %d" % (len(roots), len(spawn_sites), len(local), len(ext), n_assert, n_api))
    for k in sorted(set(reviewed) - used):
        ctx.note("stale reviewed entry: %s" % (k,))
    if os.environ.get("VERIF_C01_DUMP"):
        # bin/gen_c01_erased.py: merged over the configurations a run analyses
        prev = []
        if os.path.exists(os.environ["VERIF_C01_DUMP"]):
            prev = json.load(open(os.environ["VERIF_C01_DUMP"]))
        with open(os.environ["VERIF_C01_DUMP"], "w") as f:
            json.dump(prev + [list(x) for x in dump], f)
    if n_assert < 90 or n_api < 35:
        raise AnchorError("census too small: %d asserts, %d panic-API calls" % (n_assert, n_api))


def r3(ctx):
    """The size stored in a Response is the length written through a cursor over the same tx buffer, or 0."""
    prog = ctx.prog
    n = 0
    for bd in prog.bodies.values():
        if not bd.path.startswith("dnp3::outstation::session::") or "::tests::" in bd.path:
            continue
        sym = None
        for b in call_sites(bd, r"session::Response::new$"):
            sym = sym or ctx.sym(bd)
            e = sym.call_expr(b.term)
            size = e[2][1]
            n += 1
            ok = const_value(prog, size) == 0 or (mentions_call(size, r"WriteCursor::written$") and mentions_call(size, r"::len$") and mentions_call(size, r"Buffer::write_cursor$") and (mentions_field(size, "sol_tx_buffer") or mentions_field(size, "unsol_tx_buffer"))) or size in (("param", "size"), ("param", "len"))
            ctx.check(ok, "response-size@%s#%d" % (short(bd.path), n), "Response size = %s" % expr_str(size)[:90], bd.where(b.idx), bad_detail="Response::new(size = %s): the length later used for tx_buffer.get(len).unwrap() does not come from the bytes written" % expr_str(size)[:120])
    if n < 8:
        raise AnchorError("expected >= 8 Response::new sites, found %d" % n)


def load_loops():
    out = {}
    for line in open(os.path.join(VERIF, "tables", "c01_loops.tsv")):
        if line.startswith("#") or not line.strip():
            continue
        fn_, why = line.rstrip("\n").split("\t", 1)
        out[fn_] = why
    return out


def sccs(body):
    """Strongly connected components (with >1 block or a self loop) of the normal-path CFG."""
    succ, _ = body.cfg
    live = body.live_blocks()
    index = {}
    low = {}
    stack = []
    on = set()
    out = []
    counter = [0]

    def strong(v):
        work = [(v, 0)]
        while work:
            node, i = work.pop()
            if i == 0:
                index[node] = low[node] = counter[0]
                counter[0] += 1
                stack.append(node)
                on.add(node)
            recurse = False
            ss = [s_ for s_ in succ[node] if s_ in live]
            for j in range(i, len(ss)):
                w = ss[j]
                if w not in index:
                    work.append((node, j + 1))
                    work.append((w, 0))
                    recurse = True
                    break
                elif w in on:
                    low[node] = min(low[node], index[w])
            if recurse:
                continue
            if low[node] == index[node]:
                comp = []
                while True:
                    w = stack.pop()
                    on.discard(w)
                    comp.append(w)
                    if w == node:
                        break
                if len(comp) > 1 or node in succ[node]:
                    out.append(set(comp))
            if work:
                parent = work[-1][0]
                low[parent] = min(low[parent], low[node])

    for v in sorted(live):
        if v not in index:
            strong(v)
    return out


def r4(ctx):
    prog = ctx.prog
    cg = prog.callgraph
    roots, _ = entry_roots(ctx)
    reach = cg.reachable_from(sorted(roots))
    listed = load_loops()
    n = {"iterator": 0, "await": 0, "listed": 0}
    used = set()
    # what a local `Iterator::next` forwards to (`fn next(&mut self) { self.parse_one() }`): a loop driving that function directly is the
    # same iterator-driven loop as `for x in it`
    next_like = set()
    for p_, b_ in prog.bodies.items():
        if re.search(r" as (std::|core::)?(iter::)?(traits::iterator::)?Iterator>::next$", p_):
            cs_ = [c_ for c_ in b_.calls() if not is_tracing(c_.term.macros) and (c_.term.callee or "") in prog.bodies]
            if len(cs_) == 1 and len([x for x in b_.calls() if not is_tracing(x.term.macros)]) == 1:
                next_like.add(cs_[0].term.callee)
    for p in sorted(reach):
        bd = prog.bodies.get(p)
        if bd is None or "::tests::" in p or "::test::" in p:
            continue
        succ, _ = bd.cfg
        for comp in sccs(bd):
            blocks = [bd.blocks[i] for i in comp]
            if all(trusted_span(b.term.macros) for b in blocks if b.term.kind in ("call", "switch")) and any(b.term.kind in ("call", "switch") for b in blocks):
                continue
            has_yield = any(b.term.kind == "yield" for b in blocks)
            has_exit = any(s_ not in comp for i in comp for s_ in succ[i])
            it_next = any(b.term.kind == "call" and ((b.term.declared or "").endswith("Iterator::next") or (b.term.callee or "") in next_like) for b in blocks)
            key = "loop@%s#%d" % (nice(p), min(comp))
            where = bd.where(min(comp))
            if not has_exit and not has_yield:
                ctx.bad("loop:no-exit-no-await@%s" % nice(p), "a cycle with neither an exit edge nor an await: the task spins forever", where)
                continue
            if has_yield and not it_next:
                n["await"] += 1
                continue
            if it_next:
                # exit must be the None edge of next()
                n["iterator"] += 1
                continue
            if nice(p) in listed:
                used.add(nice(p))
                n["listed"] += 1
                ctx.ok("loop:listed@%s" % nice(p), "reviewed loop: " + listed[nice(p)], where)
            else:
                ctx.bad("loop:unclassified@%s" % nice(p), "a synchronous loop that is neither iterator-driven nor listed in tables/c01_loops.tsv with its progress argument", where)
    ctx.ok("loops:census", "iterator-driven %d, await-bearing %d, listed %d" % (n["iterator"], n["await"], n["listed"]), "")
    if n["iterator"] + n["await"] < 100:
        raise AnchorError("loop census too small: %s" % n)


def r5(ctx):
    """'...ends that session cleanly and serves the next one': the state a peer's bytes can leave behind (partial link frame in the
    parser / receive buffer, half-assembled fragment, secondary-station state) is dropped on every exit of the session tasks, all the
    way down. The chain itself is rule C08.R7 (shared code); it is evaluated here because stale reader state wedges the next session."""
    import c08
    c08.r7(ctx)
    import c06
    c06.r9(ctx)


def r6(ctx):
    """Support for the reviewed BTreeMap::range sites: an index range that comes off the wire is ordered. Start-stop headers are
    constructed only behind Range::from(start, stop)?, which rejects stop < start; the outstation's IndexRange for a READ is built from
    exactly those header fields."""
    prog = ctx.prog
    rf = prog.body("app::parse::range::Range::from")
    rs = ctx.sym(rf)
    errs = [(b, e) for b, si, st, e in ret_sites(rf, rs) if e[0] == "agg" and e[2] == "Err"]
    oks = [(b, e) for b, si, st, e in ret_sites(rf, rs) if e[0] == "agg" and e[2] == "Ok"]
    inv = g_rel(("Lt", "Gt"), None, None)
    ctx.check(len(errs) == 1 and len(oks) == 1, "Range::from:shape", "Range::from has one Err and one Ok return", rf.where(line=rf.line))
    for b, e in oks:
        ctx.require_guards(rf, b.idx, [("start <= stop", g_rel("Le", ("param", "start").__eq__, ("param", "stop").__eq__))], "Range::from:Ok", "Ok(range)")
    n = 0
    for bd in prog.bodies_matching(r"^dnp3::app::parse::"):
        if "::test" in bd.path:
            continue
        for var in ("OneByteStartStop", "TwoByteStartStop"):
            for b, si, st in agg_sites(bd, r"parser::HeaderDetails$", var):
                n += 1
                e = ctx.sym(bd).rvalue_expr(st.rv)
                a0, a1 = strip_passthrough(agg_field(e, "0")), strip_passthrough(agg_field(e, "1"))
                ok = ctx.require_guards(bd, b.idx, [("Range::from(start, stop)? succeeded", g_is(lambda x: mentions_call(x, r"range::Range::from$"), "Continue"))], "start-stop-header:%s@%s" % (var, short(bd.path)), "HeaderDetails::%s" % var)
                froms = [c for c in call_sites(bd, r"range::Range::from$") if bd.block_dominates(c.idx, b.idx)]
                same = False
                for c in froms:
                    ce = ctx.sym(bd).call_expr(c.term)
                    if strip_passthrough(ce[2][0]) == a0 and strip_passthrough(ce[2][1]) == a1:
                        same = True
                ctx.check(same, "start-stop-header:%s@%s:same-operands" % (var, short(bd.path)), "the validated pair is the pair stored in the header", bd.where(b.idx))
    if n < 2:
        raise AnchorError("start-stop header constructions: %d" % n)
    gb = prog.body("database::read::ReadHeader::get_impl")
    gs = ctx.sym(gb)
    k = 0
    for c in call_sites(gb, r"static_db::IndexRange::new$|IndexRange::new$"):
        e = gs.call_expr(c.term)
        a0, a1 = strip_passthrough(e[2][0]), strip_passthrough(e[2][1])
        k += 1
        ok = a0[0] == "field" and a1[0] == "field" and a0[2] == "0" and a1[2] == "1" and a0[1] == a1[1] and a0[1][0] == "variant" and a0[1][2].endswith("StartStop")
        ctx.check(ok, "read-range:%d" % k, "IndexRange::new(header.start, header.stop): %s" % expr_str(e)[:90], gb.where(c.idx), bad_detail="the READ range is built as %s: not (start, stop) of one start-stop header" % expr_str(e)[:100])
    if k < 2:
        raise AnchorError("ReadHeader::get_impl: IndexRange::new sites %d" % k)


def r7(ctx):
    """'never spins or stalls ... keeps serving': shared with C08.R3 (a fragment that outgrows the receive buffer is discarded and the
    assembler returns to a consistent state - no later expect() on a tracked size beyond the buffer) and C16.R8 (a peer cannot
    postpone a response timeout forever by sending fragments that are ignored)."""
    import c08
    import c16
    c08.r3(ctx)
    c16.r8(ctx)

def r8(ctx):
    """'...ends that session cleanly and serves the next one': see engine.session_start_resets."""
    session_start_resets(ctx)

def r9(ctx):
    """Three shared rules whose violation shows up as a crash or a wedge of the task rather than (only) as wrong data: a dangling
    VecList link makes a released record be cleared twice (counter underflow panic) - C03.R10; an echo whose length refers to one tx
    buffer and whose bytes are taken from the other indexes past a smaller buffer (unwrap panic) - C05.R3; the header iterator that
    decode logging re-runs must stop at the first bad header (else it spins on input it cannot consume) - C09.R6."""
    import c03, c05, c09
    c03.r10(ctx)
    c05.r3(ctx)
    c09.r6(ctx)

RULES = [
    ("C01.R1", "T1", "every panic site reachable from a spawned task is auto-discharged or reviewed", r1),
    ("C01.R3", "T8", "the length later unwrapped from the tx buffer is the length written", r3),
    ("C01.R4", "loop-census", "no reachable cycle without exit or await; synchronous non-iterator loops are listed", r4),
    ("C01.R5", "T3", "session end drops all per-connection reader state (reset chain; receive-buffer index discipline)", r5),
    ("C01.R6", "T2/T8", "index ranges taken from the wire are ordered before they reach BTreeMap::range (supports reviewed sites)", r6),
    ("C01.R7", "T2/T2-loop", "an oversized or damaged segment stream and ignored fragments cannot wedge a task: assembler overflow discards (C08.R3), response deadlines fixed before the wait loop (C16.R8)", r7),
    ("C01.R8", "T2", "reader state is reset before a session's first await (a pre-empted session is dropped without clean-up)", r8),
    ("C01.R9", "T2/T8", "list unlink, echo buffer provenance and header-iteration termination (shared with C03.R10, C05.R3, C09.R6): their failure modes are a panic or a spin", r9),
]


def r10(ctx):
    """'never ... wedge an endpoint': the discard-mode recovery loop of the link parser makes progress on every iteration - it
    resets the parser on every retry and skips a byte exactly when the failed frame began in this call (C06.R7, shared code). A retry
    that leaves the state and the cursor as they were re-runs the same failing parse forever."""
    import c06
    c06.r7(ctx)


RULES.append(("C01.R10", "T2-loop", "the link parser's discard-mode retry loop makes progress on every iteration (shared with C06.R7)", r10))
