"""C10 — measurement values survive the trip from outstation database to master handler."""
import os

from engine import *
from mir import *

EXPLANATION = (
    "Census of every narrowing numeric cast on the encode/decode path (app::gen::conversion, app::measurement, outstation::database, "
    "master::extract/convert): each is dominated by range guards on its own operand, or is listed in tables/c10_truncations.tsv with the "
    "sentence that wants the truncation. Saturating conversions return the type's own MIN/MAX with OVER_RANGE set on the out-of-range "
    "edges. Packed formats are chosen only under `flags.without(state bits) == ONLINE`. The relative-time cast is guarded by the three "
    "new-header tests. On the master the relative time is added to the running CTO, which is threaded through the header fold and whose "
    "kind (synchronised / not) is the namesake of the CTO object on both sides. Every wire<->measurement conversion fills value/flags/time "
    "from the like-named source field."
)
ASSUMPTIONS = ["numeric truth at the saturation boundaries, NaN handling and exact reconstruction of absolute times are not decided", "sparse/dense index behaviour is not decided"]
TRUSTED = ["rustc nightly MIR", "facts driver", "tables/c10_truncations.tsv (reviewed)", "rules/mir.py"]

W = {"u8": 8, "i8": 8, "u16": 16, "i16": 16, "u32": 32, "i32": 32, "u64": 64, "i64": 64, "usize": 64, "isize": 64, "u128": 128, "i128": 128, "f32": 32, "f64": 64}
REGION = re.compile(r"dnp3::(app::(gen::conversion|measurement|types)|outstation::database|master::(extract|convert))")


def narrowing(fr, to):
    if fr not in W or to not in W:
        return False
    ff, tf = fr.startswith("f"), to.startswith("f")
    if ff and not tf:
        return True
    if ff and tf:
        return W[to] < W[fr]
    if not ff and tf:
        return (W[fr] > 24 and to == "f32") or (W[fr] > 53 and to == "f64")
    if W[to] < W[fr]:
        return True
    if W[to] == W[fr] and fr[0] != to[0]:
        return True
    return fr[0] == "i" and to[0] == "u"


def nice(path):
    """`<dnp3::app::measurement::Counter as dnp3::..::ToVariation<dnp3::app::variations::Group20Var2>>::to_variation`
    -> `<Counter as ToVariation<Group20Var2>>::to_variation` (module prefixes dropped)."""
    return re.sub(r"\b[a-z_][a-z_0-9]*::", "", path)


def load_truncations():
    out = {}
    for line in open(os.path.join(VERIF, "tables", "c10_truncations.tsv")):
        if line.startswith("#") or not line.strip():
            continue
        fn_, cast, operand, why = line.rstrip("\n").split("\t")
        out[(fn_, cast, operand)] = why
    return out


def casts(ctx):
    prog = ctx.prog
    for bd in prog.bodies.values():
        if "::tests::" in bd.path or "::test::" in bd.path:
            continue
        if not REGION.search(bd.path) and not bd.file.endswith(("app/gen/conversion.rs", "app/measurement.rs")):
            continue
        sym = ctx.sym(bd)
        for b, si, st in bd.assigns():
            rv = st.rv
            if rv["k"] == "cast" and narrowing(rv["from"], rv["to"]) and not is_tracing(st.macros):
                yield bd, b, rv, sym.operand_expr(rv["a"])


def bounds(ctx, bd, blk, operand):
    """(has_lower, has_upper) from relational guards on exactly this operand dominating the cast."""
    lo = hi = False
    for g in ctx.guards_at(bd, blk):
        if g.kind != "rel" or g.op not in ("Lt", "Le", "Gt", "Ge"):
            continue
        if g.a == operand:
            if g.op in ("Ge", "Gt"):
                lo = True
            else:
                hi = True
        elif g.b == operand:
            if g.op in ("Ge", "Gt"):
                hi = True
            else:
                lo = True
    return lo, hi


def r1(ctx):
    tr = load_truncations()
    n = 0
    used = set()
    for bd, b, rv, operand in casts(ctx):
        n += 1
        cast = "%s->%s" % (rv["from"], rv["to"])
        fn_ = nice(bd.path)
        op_s = expr_str(operand)[:80]
        lo, hi = bounds(ctx, bd, b.idx, operand)
        need_lo = rv["from"][0] in ("i", "f")  # a signed/float source can be below the target's minimum
        guarded = hi and (lo or not need_lo)
        key = "cast@%s:%s:%s" % (fn_, cast, op_s)
        if guarded:
            ctx.ok(key, "narrowing cast guarded on both sides by range tests of its operand", bd.where(b.idx))
        elif (fn_, cast, op_s) in tr:
            used.add((fn_, cast, op_s))
            ctx.ok(key, "listed truncation: %s" % tr[(fn_, cast, op_s)], bd.where(b.idx))
        else:
            ctx.bad(key, "unguarded narrowing cast %s of `%s` (lower bound tested: %s, upper bound tested: %s) is not in tables/c10_truncations.tsv: a value that does not fit wraps silently" % (cast, op_s, lo, hi), bd.where(b.idx))
    if n < 20:
        raise AnchorError("cast census found only %d narrowing casts" % n)
    stale = set(tr) - used
    for s_ in sorted(stale):
        if tr[s_].startswith("IEEE 1815 / property C10"):
            # a truncation the PROPERTY asks for ("counters keep their low 16 bits"): its disappearance (saturation, a checked
            # conversion, a different operand) changes what the master receives
            ctx.bad("required-truncation@%s" % s_[0], "the 16-bit counter variation written by %s no longer carries `%s as u16` (the low 16 bits of the counter): %s" % (s_[0], s_[2], tr[s_]), "")
        else:
            ctx.note("stale entry in c10_truncations.tsv: %s" % (s_,))
    for s_ in sorted(used):
        if tr[s_].startswith("IEEE 1815 / property C10"):
            ctx.ok("required-truncation@%s" % s_[0], "counter keeps its low 16 bits")


MINMAX = {"to_i16": ("i16", -32768, 32767), "to_i32": ("i32", -2147483648, 2147483647), "to_f32": ("f32", None, None)}


def r2(ctx):
    prog = ctx.prog
    ob = prog.body("app::measurement::AnalogConversions::OVER_RANGE")
    ov = [e for _, _, _, e in ret_sites(ob, ctx.sym(ob))]
    ctx.check(bool(ov) and const_value(prog, ov[0]) == 0x20, "OVER_RANGE:bit5", "AnalogConversions::OVER_RANGE = %s" % (expr_str(ov[0]) if ov else None))
    c2 = prog.const("app::measurement::Flags::OVER_RANGE")
    ctx.check(c2.get("v") == 0x20, "Flags::OVER_RANGE:bit5", "Flags::OVER_RANGE = %s" % c2.get("v"))
    for fn_, (ty, mn, mx) in MINMAX.items():
        bd = prog.body("app::measurement::AnalogConversions::" + fn_)
        sym = ctx.sym(bd)
        rs = ret_sites(bd, sym)
        if len(rs) != 3:
            raise AnchorError("%s: expected three returns" % fn_)
        val = lambda x: mentions_call(x, r"AnalogConversions::get_value$")
        for b, si, st, e in rs:
            if e[0] != "tuple":
                ctx.bad("%s:ret-shape" % fn_, "return is not a (flags, value) tuple", bd.where(b.idx))
                continue
            fl, v = e[1]
            gs = ctx.guards_at(bd, b.idx)
            below = any(g.kind == "rel" and g.op == "Lt" and val(g.a) for g in gs)
            above = any(g.kind == "rel" and g.op == "Gt" and val(g.a) for g in gs)
            if below or above:
                which = "MIN" if below else "MAX"
                ok_flag = mentions_call(fl, r"Flags::with_bits_set$") and mentions_constdef(fl, r"OVER_RANGE$") and mentions_call(fl, r"get_flags$")
                ctx.check(ok_flag, "%s:%s:OVER_RANGE" % (fn_, which), "out-of-range return sets OVER_RANGE: %s" % expr_str(fl)[:90], bd.where(b.idx), bad_detail="the %s saturation branch does not set OVER_RANGE (%s)" % (which, expr_str(fl)[:90]))
                cv = const_value(prog, v)
                want = mn if below else mx
                if want is not None:
                    ctx.check(cv == want, "%s:%s:value" % (fn_, which), "saturates to %s::%s (%s)" % (ty, which, cv), bd.where(b.idx), bad_detail="saturates to %s instead of %s::%s" % (cv, ty, which))
                else:
                    ctx.check(mentions_constdef(v, r"f32::%s$" % which) or (v[0] == "const" and v[1] is None) or v[0] == "const", "%s:%s:value" % (fn_, which), "saturates to f32::%s" % which, bd.where(b.idx))
                # the comparison is against the same type's bound
                g = [g for g in gs if g.kind == "rel" and g.op in ("Lt", "Gt") and val(g.a)][0]
                ctx.check(mentions_constdef(g.b, r"%s::%s$" % (ty, which)) or const_value(prog, g.b) == want or mentions_call(g.b, r"::into$|::from$"), "%s:%s:bound" % (fn_, which), "compared against %s::%s (%s)" % (ty, which, expr_str(g.b)[:60]), bd.where(b.idx))
            else:
                ok = v[0] == "cast" and v[1] == ty and val(v[2]) and mentions_call(fl, r"get_flags$") and not mentions_constdef(fl, r"OVER_RANGE$")
                ctx.check(ok, "%s:in-range" % fn_, "in-range return casts the value and keeps the flags", bd.where(b.idx))
                ctx.require_guards(bd, b.idx, [("value >= MIN", g_rel("Ge", val, None)), ("value <= MAX", g_rel("Le", val, None))], "%s:cast" % fn_, "the cast return")
    # dead-band conversions saturate
    for bd in prog.bodies.values():
        m = re.search(r"ToVariation<dnp3::app::variations::(Group34Var\d)>>::to_variation$", bd.path)
        if not m or "f64 as" not in bd.path:
            continue
        sym = ctx.sym(bd)
        cs = [st for b, si, st in bd.assigns() if st.rv["k"] == "cast" and narrowing(st.rv["from"], st.rv["to"]) and st.rv["to"] != "i64"]
        ctx.check(len(cs) == 1, "deadband:%s:one-cast" % m.group(1), "one narrowing cast in %s" % m.group(1), bd.where(line=bd.line))


def r3(ctx):
    prog = ctx.prog
    cases = [("StaticBinaryInputVariation", "Group1Var1", "Group1Var2", {0x80}), ("StaticDoubleBitBinaryInputVariation", "Group3Var1", "Group3Var2", {0xC0}), ("StaticBinaryOutputStatusVariation", "Group10Var1", "Group10Var2", {0x80})]
    for enum, packed, full, masks in cases:
        m = [b for b in prog.bodies.values() if b.path.endswith("::promote") and enum in b.path and "StaticVariation" in b.path]
        if len(m) != 1:
            raise AnchorError("promote for %s: %d" % (enum, len(m)))
        bd = m[0]
        sym = ctx.sym(bd)
        online = g_rel("Eq", lambda x: mentions_call(x, r"Flags::without$") and mentions_field(x, "flags"), lambda x: mentions_constdef(x, r"Flags::ONLINE$") or const_value(prog, x) == 1)
        for b, si, st, e in ret_sites(bd, sym):
            gs = ctx.guards_at(bd, b.idx)
            in_packed = any(g.kind == "is" and g.name == packed for g in gs)
            if not in_packed:
                continue
            if variant_name(e) == full:
                ctx.require_guards(bd, b.idx, [("flags != plain ONLINE", lambda g: g.kind == "rel" and g.op == "Ne" and mentions_call(g.a, r"Flags::without$"))], "promote:%s->%s" % (packed, full), "promotion to the flagged variation")
            else:
                ctx.require_guards(bd, b.idx, [("flags.without(state) == ONLINE", online)], "promote:%s:keep-packed" % packed, "keeping the packed variation %s" % packed)
                g = [g for g in gs if online(g)]
                if g:
                    side = g[0].a if mentions_call(g[0].a, r"Flags::without$") else g[0].b
                    w = [s for s in expr_walk(side) if s[0] == "call" and s[1].endswith("Flags::without")][0]
                    mv = None
                    for s in expr_walk(w[2][1]):
                        if s[0] == "const" and isinstance(s[1], int):
                            mv = (mv or 0) | s[1]
                    # BitOr of masks is a call; collect constants
                    ctx.check(mv in masks or mv is not None and any(mv == x for x in masks) or mentions_constdef(w[2][1], r"BIT_7$"), "promote:%s:mask" % packed, "state bit(s) removed before the ONLINE test: %s" % expr_str(w[2][1])[:60], bd.where(b.idx))
        # the dispatch in write_typed_range goes through promote
    wb = prog.body("range::static_db::StaticDatabase::write_typed_range")
    ctx.check(bool(call_sites(wb, r"StaticVariation.*::promote$|::promote$")), "promote:used", "write_typed_range chooses the variation through promote()", wb.where(line=wb.line))
    # the flags that decide "packed or with flags" are the flags of the very value that is written: deciding on one copy of the point
    # (current) and writing another (selected) sends a non-ONLINE value in a packed format
    ws_ = ctx.sym(wb)
    pr = call_sites(wb, r"StaticVariation.*::promote$|::promote$")
    wr = call_sites(wb, r"RangeWriter<.*>::write$|RangeWriter::write$")
    gw = call_sites(wb, r"::get_write_info$")
    if len(pr) != 1 or len(wr) != 1:
        raise AnchorError("write_typed_range: promote/write sites (%d/%d)" % (len(pr), len(wr)))
    judged = strip_passthrough(ws_.call_expr(pr[0].term)[2][1])
    written = strip_passthrough(ws_.call_expr(wr[0].term)[2][3])
    ctx.check(judged == written, "promote:judges-the-written-value", "promote(%s) / write(.., %s, ..)" % (expr_str(judged)[-40:], expr_str(written)[-40:]), wb.where(pr[0].idx), bad_detail="the variation is promoted on `%s` but the value written is `%s`: a point whose written flags are not plainly ONLINE can go out in a packed variation" % (expr_str(judged)[-60:], expr_str(written)[-60:]))
    for c_ in gw:
        a_ = strip_passthrough(ws_.call_expr(c_.term)[2][1])
        ctx.check(a_ == written, "promote:write-info-of-the-written-value", "get_write_info(%s)" % expr_str(a_)[-40:], wb.where(c_.idx))
    c = prog.const("app::measurement::Flags::ONLINE")
    ctx.check(c.get("v") == 1, "Flags::ONLINE", "Flags::ONLINE = %s" % c.get("v"))


def r4(ctx):
    prog = ctx.prog
    bd = prog.body("event::write_fn::write_cto")
    sym = ctx.sym(bd)
    cs = [(b, st) for b, si, st in bd.assigns() if st.rv["k"] == "cast" and st.rv["to"] == "u16" and st.rv["from"] == "u64"]
    if len(cs) != 1:
        raise AnchorError("write_cto: the u64->u16 cast")
    b, st = cs[0]
    ts = lambda who: (lambda x: mentions_call(x, r"Timestamp::raw_value$") and mentions_name(x, who))
    ctx.require_guards(bd, b.idx, [
        ("same synchronisation", g_rel("Eq", lambda x: mentions_call(x, r"Time::is_synchronized$") and mentions_call(x, r"get_time$"), lambda x: mentions_call(x, r"Time::is_synchronized$") and mentions_name(x, "cto"))),
        ("cto <= time", g_rel("Le", lambda x: mentions_name(x, "cto") and mentions_call(x, r"raw_value$"), lambda x: mentions_call(x, r"get_time$") and mentions_call(x, r"raw_value$"))),
        ("difference <= u16::MAX", g_rel("Le", lambda x: mentions(x, lambda s: s[0] == "bin" and s[1] in ("Sub", "SubWithOverflow")), None)),
    ], "write_cto:cast", "`difference as u16`")
    e = sym.operand_expr(st.rv["a"])
    ok = mentions(e, lambda s: s[0] == "bin" and s[1] in ("Sub", "SubWithOverflow") and mentions_call(s[2], r"get_time$") and mentions_name(s[3], "cto"))
    ctx.check(ok, "write_cto:difference", "difference = time - cto (%s)" % expr_str(e)[:80], bd.where(b.idx))
    # every failing test asks for a new header
    for blk, si, st2, ev in ret_sites(bd, sym):
        if ev[0] == "agg" and ev[2] == "Ok" and variant_name(agg_field(ev, "0")) == "NewHeader":
            # reachable only through a failing test (several failing tests may share one `return NewHeader`)
            fails = [g.edge for g in ctx.gi(bd).all_guards() if not is_tracing(g.macros) and ((g.kind == "rel" and g.op in ("Ne", "Gt", "Lt")) or (g.kind == "is" and g.name == "None"))]
            ctx.check(bool(fails) and blk.idx not in bd.reachable(0, removed_edges=fails), "write_cto:NewHeader", "NewHeader is returned only through a failing test", bd.where(blk.idx))
    # the cast feeds to_cto_variation
    for c in call_sites(bd, r"ToVariationCto.*::to_cto_variation$"):
        ce = sym.call_expr(c.term)
        ctx.check(ce[2][1][0] == "cast" and ce[2][1][1] == "u16", "write_cto:variation-arg", "to_cto_variation(difference as u16)", bd.where(c.idx))


def r5(ctx):
    prog = ctx.prog
    for ty in ("Group2Var3", "Group4Var3"):
        m = [b for b in prog.bodies.values() if b.path.endswith("%s>::to_measurement" % ty) or (b.path.endswith("::to_measurement") and ty in b.path and "master::convert" in b.path)]
        if len(m) != 1:
            raise AnchorError("to_measurement for %s: %d" % (ty, len(m)))
        bd = m[0]
        sym = ctx.sym(bd)
        for b, si, st, e in ret_sites(bd, sym):
            if e[0] != "agg":
                continue
            t = agg_field(e, "time")
            # `cto.and_then(|x| x.checked_add(self.time))`, or the same as an explicit match: None without a CTO, the checked sum with one
            alts = resolve_defs(bd, sym, t, depth=3) if t is not None else []
            isnone = lambda x: x[0] == "agg" and x[2] == "None"
            comb = lambda x: (mentions_call(x, r"Option::and_then$") and mentions_name(x, "cto")) or (mentions_call(x, r"Time::checked_add$") and mentions_name(x, "cto"))
            ok = bool(alts) and all(isnone(x) or comb(x) for x in alts) and any(comb(x) for x in alts)
            ctx.check(ok, "%s:time<-cto" % ty, "time = cto.and_then(..) (%s)" % expr_str(t)[:80], bd.where(b.idx), bad_detail="time = %s: the relative time is not combined with the common time of occurrence" % expr_str(t)[:80])
            fl = agg_field(e, "flags")
            ctx.check(mentions_field(fl, "flags") and mentions_call(fl, r"Flags::new$"), "%s:flags" % ty, "flags = Flags::new(self.flags)", bd.where(b.idx))
            v = agg_field(e, "value")
            ctx.check(mentions_call(v, r"Flags::(state|double_bit_state)$") and mentions_field(v, "flags"), "%s:value" % ty, "value = state bits of the flags", bd.where(b.idx))
        cl = [bd] + list(prog.children(bd))
        # ... or in a closure of a new helper that was inlined here (`absolute_time(cto, self.time)`)
        for caller_, callee_ in prog.inlined:
            if caller_ == bd.path:
                hb = prog.absorbed.get(callee_) or prog.bodies.get(callee_)
                if hb is not None:
                    cl += [x for x in prog.bodies.values() if x.parent == hb.path]
        ok = any(any(mentions_field(ctx.sym(c).call_expr(x.term), "time") or mentions_name(ctx.sym(c).call_expr(x.term), "relative") or c.path != bd.path and c.parent != bd.path for x in call_sites(c, r"Time::checked_add$")) for c in cl)
        ctx.check(ok, "%s:checked_add(self.time)" % ty, "closure adds self.time to the CTO with checked_add", bd.where(line=bd.line))
    # CTO threading on the master
    hb = [b for b in prog.bodies.values() if b.path.endswith("extract_measurements_inner::handle")]
    if len(hb) != 1:
        raise AnchorError("extract_measurements_inner::handle")
    hb = hb[0]
    hs = ctx.sym(hb)
    for var, fn_ in (("Group51Var1", "extract_cto_g51v1"), ("Group51Var2", "extract_cto_g51v2")):
        cs = call_sites(hb, fn_ + "$")
        ctx.check(len(cs) == 2, "cto:%s:two-arms" % var, "%s is handled for one- and two-byte counts" % var, hb.where(line=hb.line))
        for c in cs:
            ctx.require_guards(hb, c.idx, [("header is %s" % var, g_is(lambda x: mentions_field(x, "details"), var)), ("count == 1", lambda g: g.kind == "int" and g.name == 1)], "cto:%s" % var, fn_)
            e = hs.call_expr(c.term)
            ctx.check(e[2][0] == ("param", "cto"), "cto:%s:prev" % var, "previous CTO passed on", hb.where(c.idx))
    for c in call_sites(hb, r"PrefixedVariation.*::extract_measurements_to$"):
        e = hs.call_expr(c.term)
        ctx.check(e[2][1] == ("param", "cto"), "cto:into-prefixed", "prefixed headers receive the running CTO (%s)" % expr_str(e[2][1]), hb.where(c.idx))
    for fn_, kind in (("extract_cto_g51v1", "Synchronized"), ("extract_cto_g51v2", "Unsynchronized")):
        fb = [b for b in prog.bodies.values() if b.path.endswith("extract_measurements_inner::" + fn_)]
        ok = False
        for c in prog.children(fb[0]) if fb else []:
            for b, si, st in agg_sites(c, r"measurement::Time$"):
                ok = st.rv["var"] == kind
        ctx.check(ok, "cto:%s:kind" % fn_, "%s yields Time::%s" % (fn_, kind), fb[0].where(line=fb[0].line) if fb else "")
    ib = prog.body("master::extract::extract_measurements_inner")
    # a CTO stays in effect until the next CTO object: for every header that is not a g51 object handle() hands the running CTO on
    hh = [b for b in prog.bodies.values() if b.path.endswith("extract_measurements_inner::handle")]
    if len(hh) != 1:
        raise AnchorError("extract_measurements_inner::handle")
    hsym = ctx.sym(hh[0])
    plain = [(b, e) for b, si, st, e in ret_sites(hh[0], hsym) if not mentions_call(e, r"extract_cto_g51v[12]$")]
    ctx.check(len(plain) >= 1 and all(e in (("param", "cto"), ("var", "cto")) for _, e in plain), "cto:carried-over", "a non-CTO header leaves the running CTO unchanged (%s)" % [expr_str(e)[:30] for _, e in plain], hh[0].where(line=hh[0].line), bad_detail="handle() returns %s after a non-CTO header: the common time of occurrence no longer applies to the headers that follow" % [expr_str(e)[:40] for _, e in plain])
    # and the outstation opens every g2v3 / g4v3 header with its own g51 object: nothing but `uses_cto()` (and the choice between
    # g51v1 and g51v2) decides whether the CTO header is written
    k_ = 0
    for wb_ in prog.bodies.values():
        if "EventWriter::start_new_header" not in wb_.path:
            continue
        for c in call_sites(wb_, r"EventWriter::write_cto_header$"):
            k_ += 1
            gs_ = [g for g in ctx.guards_at(wb_, c.idx)]
            extra = [g for g in gs_ if not ((g.kind == "bool" and (mentions_call(g.a, r"::uses_cto$") or mentions_call(g.a, r"Time::is_synchronized$"))) or (g.kind == "is" and mentions_call(g.a, r"::get_time$|unwrap_or_else$")))]
            uses = any(g.kind == "bool" and g.truth is True and mentions_call(g.a, r"::uses_cto$") for g in gs_)
            ctx.check(uses and not extra, "cto:header-always-written#%d" % k_, "the g51 header is written whenever the variation uses a CTO", wb_.where(c.idx), bad_detail="writing the CTO header also depends on %s: a g2v3/g4v3 header can go out without its own common time of occurrence" % [repr(g)[:60] for g in extra])
    if k_ < 2:
        raise AnchorError("write_cto_header sites: %d" % k_)
    # the running CTO is threaded through the headers in order: fold(None, |cto, h| handle(cto, h, ..)) or the same as a loop
    # `cto = handle(cto, h, ..)` - either way handle() receives the accumulator and its result becomes the accumulator
    hcalls = []
    for fb_ in family(prog, ib):
        fs_ = ctx.sym(fb_)
        for c in call_sites(fb_, r"extract_measurements_inner::handle$"):
            a0 = fs_.call_expr(c.term)[2][0]
            hcalls.append((fb_, c, a0))
    acc_ok = len(hcalls) == 1 and hcalls[0][2][0] in ("var", "param", "capture") and hcalls[0][2][1] == "cto"
    threaded = False
    if acc_ok:
        fb_, c, a0 = hcalls[0]
        if fb_ is not ib:
            threaded = any((x.term.callee or "").endswith("::fold") for x in ib.calls()) and c.term.d["d"].is_local() and c.term.d["d"].local == 0
        else:
            lp_ = innermost_loop(ib, c.idx)
            direct = c.term.d["d"].is_local() and ib.local_name(c.term.d["d"].local) == "cto"
            via_tmp = any(st.dest.is_local() and ib.local_name(st.dest.local) == "cto" and lp_ is not None and b.idx in lp_[1] and mentions_call(ctx.sym(ib).rvalue_expr(st.rv), r"extract_measurements_inner::handle$") for b, si, st in ib.assigns())
            threaded = lp_ is not None and (direct or via_tmp)
    ctx.check(acc_ok and threaded, "cto:fold", "headers are processed in order with the CTO as accumulator (%s)" % [expr_str(h[2]) for h in hcalls], ib.where(line=ib.line))
    # outstation side: the header object is the namesake of the event time's kind, and the same time becomes the header CTO
    sb = [b for b in prog.bodies.values() if re.search(r"EventWriter::start_new_header::\{closure#1\}$|EventWriter::start_new_header::\{closure#0\}$", b.path)]
    found = 0
    for c in sb:
        for b, si, st in agg_sites(c, r"variations::Group51Var[12]$"):
            found += 1
            want_sync = st.rv["adt"].endswith("Group51Var1")
            ctx.require_guards(c, b.idx, [("uses_cto()", g_bool(lambda x: mentions_call(x, r"uses_cto$"), True)), ("is_synchronized == %s" % want_sync, g_bool(lambda x: mentions_call(x, r"Time::is_synchronized$"), want_sync))], "cto-writer:%s" % st.rv["adt"].split("::")[-1], "CTO object %s" % st.rv["adt"].split("::")[-1])
            e = ctx.sym(c).rvalue_expr(st.rv)
            ctx.check(mentions_call(agg_field(e, "time"), r"Time::timestamp$"), "cto-writer:%s:time" % st.rv["adt"].split("::")[-1], "CTO time = the event's own timestamp", c.where(b.idx))
    if found != 2:
        raise AnchorError("start_new_header: expected both CTO objects, found %d" % found)
    # Timestamp::checked_add bounds
    cb = prog.body("app::types::Timestamp::checked_add")
    mx = prog.const("app::types::Timestamp::MAX_VALUE")
    ctx.check(mx.get("v") == (1 << 48) - 1, "Timestamp::MAX_VALUE", "MAX_VALUE = 2^48-1 (%s)" % mx.get("v"))
    cs = ctx.sym(cb)
    for b, si, st, e in ret_sites(cb, cs):
        if e[0] == "agg" and e[2] == "Some":
            ctx.require_guards(cb, b.idx, [("sum <= MAX_VALUE", lambda g: g.kind == "rel" and g.op in ("Le", "Lt") and (mentions_constdef(g.b, r"MAX_VALUE$") or mentions_constdef(g.a, r"MAX_VALUE$")))], "Timestamp::checked_add:Some", "Some(timestamp)")


VALUE_SRC = lambda x: mentions_field(x, "value") or mentions(x, lambda s: s[0] == "field" and s[2] == "1" and s[1][0] == "call" and re.search(r"AnalogConversions::to_(i16|i32|f32)$", s[1][1] or "")) or mentions_call(x, r"Flags::(state|double_bit_state)$|get_wire_flags$|WireFlags")
FLAGS_SRC = lambda x: mentions_field(x, "flags") or mentions(x, lambda s: s[0] == "field" and s[2] == "0" and s[1][0] == "call" and re.search(r"AnalogConversions::to_(i16|i32|f32)$", s[1][1] or "")) or mentions_call(x, r"get_wire_flags$")
TIME_SRC = lambda x: mentions_field(x, "time") or mentions_name(x, "timestamp")


def r6(ctx):
    prog = ctx.prog
    n = 0
    for bd in prog.bodies.values():
        if not bd.file.endswith("app/gen/conversion.rs") and "outstation::database::details::event::write_fn" not in bd.path and "master::convert" not in bd.path:
            continue
        if bd.kind not in ("AssocFn", "Fn"):
            continue
        is_from = bd.path.endswith(">::from")
        is_to = bd.path.endswith(">::to_variation") or bd.path.endswith(">::to_cto_variation")
        if not (is_from or is_to):
            continue
        sym = ctx.sym(bd)
        for b, si, st, e in ret_sites(bd, sym):
            if e[0] != "agg" or e[2] in ("Some", "Ok"):
                continue
            n += 1
            name = re.sub(r"dnp3::app::(variations|measurement)::", "", bd.path)
            name = re.sub(r"std::convert::|dnp3::outstation::database::details::event::traits::|dnp3::outstation::database::details::range::traits::|dnp3::outstation::database::details::event::write_fn::", "", name)
            for fname, fe in e[3]:
                key = "field@%s:%s" % (name, fname)
                if fe[0] == "param" and is_from:
                    ok = True  # conversion from a primitive (bool / DoubleBit): the argument itself
                elif fname == "value" or fname == "commanded_value":
                    ok = VALUE_SRC(fe)
                elif fname == "flags":
                    ok = FLAGS_SRC(fe) or (fe[0] == "const") or mentions_constdef(fe, r"Flags::ONLINE$")
                elif fname == "time":
                    ok = TIME_SRC(fe) or (fe[0] == "agg" and fe[2] == "None") or (is_to and fe == ("param", "timestamp"))
                elif fname == "status":
                    ok = mentions_field(fe, "status")
                else:
                    ok = mentions_field(fe, fname) or fe[0] == "const"
                ctx.check(ok, key, "%s <- %s" % (fname, expr_str(fe)[:70]), bd.where(b.idx), bad_detail="destination field `%s` is filled from %s, not from the like-named source" % (fname, expr_str(fe)[:90]))
            # swapped sources between value and flags are caught by the above only if types allow; additionally no source field may feed two destinations
    if n < 120:
        raise AnchorError("expected >= 120 conversion bodies, found %d" % n)
    # WireFlags: the state is folded into bit 7 / bits 7-6
    for bd in prog.bodies.values():
        if bd.path.endswith("::get_wire_flags") and "WireFlags" in bd.path:
            sym = ctx.sym(bd)
            e = [x for _, _, _, x in ret_sites(bd, sym)]
            ok = bool(e) and mentions_field(e[0], "flags") and (mentions_constdef(e[0], r"BIT_7$") or mentions_call(e[0], r"DoubleBit::to_byte$|to_byte$|Flags::") or e[0] == ("field", ("field", ("param", "self"), "flags"), "value"))
            ctx.check(ok, "wire-flags@%s" % short(bd.path.split(" as ")[0].lstrip("<")), "state bits folded into the flag octet: %s" % (expr_str(e[0])[:80] if e else None), bd.where(line=bd.line))


def r7(ctx):
    """The flag octet put on the wire for a stateful point carries the point's VALUE in its state bit(s) on every path: the state
    bit is forced both ways (set for true, cleared for false) from `self.value`, never left as whatever the stored flags say."""
    prog = ctx.prog
    n = 0
    for ty, bits in (("BinaryInput", 1), ("BinaryOutputStatus", 1), ("DoubleBitBinaryInput", 2)):
        m = [b for b in prog.bodies.values() if re.search(r"WireFlags for dnp3::app::measurement::%s>::get_wire_flags$" % ty, b.path)]
        if len(m) != 1:
            raise AnchorError("WireFlags::get_wire_flags for %s (%d)" % (ty, len(m)))
        bd = m[0]
        sym = ctx.sym(bd)
        own_value = lambda x: mentions(x, lambda s_: s_ == ("field", ("param", "self"), "value"))
        for b, si, st, e in ret_sites(bd, sym):
            n += 1
            setters = [x for x in expr_walk(e) if x[0] == "call" and (x[1] or "").endswith("Flags::with_bits_set_to")]
            ok = len(setters) >= bits and all(own_value(x[2][2]) for x in setters) and mentions_field(e, "flags")
            ctx.check(ok, "wire-flags:%s" % ty, "%s::get_wire_flags = %s" % (ty, expr_str(e)[:100]), bd.where(b.idx), bad_detail="%s::get_wire_flags returns `%s` on this path: the state bit is not forced from self.value (a false value with a stale STATE bit in its flags goes out as true)" % (ty, expr_str(e)[:100]))
        ctx.check(not ctx.gi(bd).by_switch, "wire-flags:%s:unconditional" % ty, "%s::get_wire_flags has no branch" % ty, bd.where(line=bd.line), bad_detail="%s::get_wire_flags branches: with_bits_set_to(bit, value) already sets AND clears" % ty)
    sb = prog.body("app::measurement::Flags::with_bits_set_to")
    ss = ctx.sym(sb)
    truthy = [(b, e) for b, _, _, e in ret_sites(sb, ss)]
    gb = lambda t: g_bool(lambda x: x in (("param", "value"),), t)
    oks = 0
    for b, e in truthy:
        gs = ctx.guards_at(sb, b.idx)
        if mentions_call(e, r"Flags::with_bits_set$") and any(gb(True)(g) for g in gs):
            oks += 1
        if mentions_call(e, r"Flags::with_bits_cleared$") and any(gb(False)(g) for g in gs):
            oks += 1
    ctx.check(oks == 2 and len(truthy) == 2, "with_bits_set_to:sets-and-clears", "with_bits_set_to sets the mask for true and clears it for false", sb.where(line=sb.line))
    for fn_, op in (("with_bits_set", "BitOr"), ("with_bits_cleared", "BitAnd")):
        fb = prog.body("app::measurement::Flags::" + fn_)
        t_ = " ".join(expr_str(e) for _, _, _, e in ret_sites(fb, ctx.sym(fb)))
        ctx.check(op in t_ and "mask" in t_ and (fn_ != "with_bits_cleared" or "Not" in t_), "Flags::%s" % fn_, "%s = %s" % (fn_, t_[:80]), fb.where(line=fb.line))
    if n < 3:
        raise AnchorError("wire flag returns: %d" % n)


def r8(ctx):
    """'reaches the master's handler with the same index ...': a range header whose stop was patched ahead of a value that then did
    not fit makes the master reject the whole fragment; the back-patch ordering is rule C09.R10 (shared code)."""
    import c09
    c09.r10(ctx)

def r9(ctx):
    """The two copies of a point are not interchangeable: `current` is the live value that updates write and that every reader of
    the database (Database::get, update_flags building its new measurement) must see; `selected` is the snapshot frozen for a READ in
    progress, read only by the response writer (C11.R1). A getter that returns the snapshot pairs new flags with a stale value."""
    prog = ctx.prog
    gb = prog.body("range::static_db::StaticDatabase::get")
    cur = sel = 0
    for bd in family(prog, gb):
        for blk, p, rw in bd.places():
            if rw != "r":
                continue
            if ".current" in p.proj:
                cur += 1
            if ".selected" in p.proj and not (p.ty and ("SelectionQueue" in p.ty or "VecDeque" in p.ty)):
                sel += 1
    ctx.check(cur >= 1 and sel == 0, "get:reads-current", "StaticDatabase::get returns the live value (current: %d reads, selected: %d reads)" % (cur, sel), gb.where(line=gb.line), bad_detail="StaticDatabase::get reads Point::selected (%d) / Point::current (%d): it returns the snapshot of the last READ instead of the live value" % (sel, cur))
    # updates write `current` (and only selection copies current -> selected)
    ub = prog.body("range::static_db::StaticDatabase::update")
    wr = set()
    for bd in family(prog, ub):
        for blk, p, rw in bd.places():
            if rw == "w" and (".current" in p.proj or ".selected" in p.proj):
                wr.add(".current" if ".current" in p.proj else ".selected")
    ctx.check(wr == {".current"}, "update:writes-current", "StaticDatabase::update writes Point::current only (%s)" % sorted(wr), ub.where(line=ub.line))


RULES = [
    ("C10.R1", "T10", "census of narrowing casts: range-guarded or listed truncation", r1),
    ("C10.R2", "T2", "saturating analog conversions return MIN/MAX with OVER_RANGE", r2),
    ("C10.R3", "T2", "packed variations only for plainly ONLINE points", r3),
    ("C10.R4", "T2", "relative time cast guarded by sync, order and 16-bit range tests", r4),
    ("C10.R5", "T8/T4", "CTO applied on the master; CTO kind namesake on both sides", r5),
    ("C10.R6", "T8-namesake", "conversions fill value/flags/time from the like-named source", r6),
    ("C10.R7", "T8", "the wire flag octet of stateful points carries the value in its state bit(s) on every path", r7),
    ("C10.R8", "T3", "a static range cut by a full fragment keeps its stop index consistent with the data written (shared with C09.R10)", r8),
    ("C10.R9", "T5", "database getters and updates use the live value (current), never the READ snapshot (selected)", r9),
]


def r10(ctx):
    """'values survive outstation -> master': the object bytes are those of the variation the header announces (C09.R15, shared code)."""
    import c09
    c09.r15(ctx)


RULES.append(("C10.R10", "T4-namesake", "a variation arm writes the object type of its own name (shared with C09.R15)", r10))


def r11(ctx):
    """'the value the application set arrives': (a) the event put into the buffer is the value handed to Database::update, and every
    mode that produces an event (Force, Detect when the detector fires) also records that value as the point's last event; (b) a
    class / unsolicited selection reports each event in the point's configured event variation - select_by_class resets the
    per-event variation cell (a stale narrower variation left by an earlier explicit READ would saturate or drop the time)."""
    prog = ctx.prog
    bd = prog.body("details::database::Database::update")
    sym = ctx.sym(bd)
    ins = call_sites(bd, r"EventBuffer::insert$")
    ctx.check(len(ins) == 1, "update:insert-site", "Database::update inserts one event", bd.where(line=bd.line))
    for b in ins:
        e = sym.call_expr(b.term)
        v = e[2][3]
        ctx.check(v in (("param", "value"), ("var", "value")), "update:event-is-the-new-value", "EventBuffer::insert(.., %s, ..)" % expr_str(v)[:50], bd.where(b.idx), bad_detail="the event buffered by Database::update is `%s`, not the value being set" % expr_str(v)[:80])
    sb = prog.body("range::static_db::StaticDatabase::update")
    ss = ctx.sym(sb)
    ws = field_writes(sb, "last_event")
    modes = set()
    for b, si, st in ws:
        ev = ss.rvalue_expr(st.rv)
        ctx.check(mentions(ev, lambda s: s in (("param", "value"), ("var", "value"))), "update:last_event<-value", "last_event <- %s" % expr_str(ev)[:40], sb.where(b.idx))
        for g in ctx.guards_at(sb, b.idx):
            if g.kind == "is" and g.name in ("Force", "Detect") and mentions_field(g.a, "event_mode"):
                modes.add(g.name)
    ctx.check(modes == {"Force", "Detect"}, "update:last_event:both-modes", "Force and Detect both record the value as the last event (%s)" % sorted(modes), sb.where(line=sb.line), bad_detail="last_event is recorded under %s only: an event produced in the other mode leaves a stale reference value" % sorted(modes))
    eb = prog.body("EventBuffer::select_by_class")
    sites = []
    for ch in [eb] + list(prog.children(eb)):
        for b in call_sites(ch, r"Event::select_default_variation$"):
            sites.append((ch, b))
    ctx.check(len(sites) == 1, "select_by_class:default-variation", "select_by_class resets each selected event to its configured variation", eb.where(line=eb.line), bad_detail="select_by_class no longer calls select_default_variation: a variation chosen by an earlier explicit READ whose response was never confirmed is reused for class polls and unsolicited responses")
    for ch, b in sites:
        extra = [g for g in ctx.guards_at(ch, b.idx) if not (g.kind == "bool" and g.truth is True and mentions_call(g.a, r"::matches$"))]
        ctx.check(not extra, "select_by_class:default-variation:every-match", "every event of a requested class gets it", ch.where(b.idx))


RULES.append(("C10.R11", "T8/T3", "the buffered event is the value being set; class selections report in the configured event variation", r11))


def r12(ctx):
    """'flags ... arrive as set': (a) for the point types without state bits the wire flag octet IS the point's flag octet
    (`self.flags.value`, nothing masked), and AnalogConversions::get_flags hands the conversions the point's own flags; (b) a
    binary-type static value stays in its packed (flag-less) variation only when its flags are EXACTLY online (an equality test, not
    a subset test); (c) events appended to an open relative-time header are measured from the common time that was transmitted -
    HeaderState::increment keeps `cto`."""
    prog = ctx.prog
    n = 0
    for bd in prog.bodies.values():
        m = re.search(r"<impl dnp3::app::measurement::WireFlags for dnp3::app::measurement::(\w+)>::get_wire_flags$", bd.path)
        if not m or m.group(1) in ("BinaryInput", "DoubleBitBinaryInput", "BinaryOutputStatus"):
            continue
        n += 1
        rs = [e for _, _, _, e in ret_sites(bd, ctx.sym(bd))]
        ok = len(rs) == 1 and rs[0] == ("field", ("field", ("param", "self"), "flags"), "value")
        ctx.check(ok, "wire-flags:%s" % m.group(1), "%s wire flags = self.flags.value" % m.group(1), bd.where(line=bd.line), bad_detail="%s::get_wire_flags returns %s: bits of the point's flag octet are changed on their way to the wire" % (m.group(1), expr_str(rs[0])[:70] if rs else "?"))
    if n < 4:  # Counter, FrozenCounter, AnalogInput, AnalogOutputStatus
        raise AnchorError("plain get_wire_flags impls: %d" % n)
    k = 0
    for bd in prog.bodies.values():
        m = re.search(r"AnalogConversions for dnp3::app::measurement::(\w+)>::get_flags$", bd.path)
        if not m:
            continue
        k += 1
        rs = [e for _, _, _, e in ret_sites(bd, ctx.sym(bd))]
        ctx.check(len(rs) == 1 and rs[0] == ("field", ("param", "self"), "flags"), "conversion-flags:%s" % m.group(1), "get_flags = self.flags", bd.where(line=bd.line), bad_detail="AnalogConversions::get_flags of %s returns %s, not the point's own flags" % (m.group(1), expr_str(rs[0])[:70] if rs else "?"))
    if k < 2:
        raise AnchorError("AnalogConversions::get_flags impls: %d" % k)
    j = 0
    for bd in prog.bodies.values():
        m = re.search(r"StaticVariation<dnp3::app::measurement::(BinaryInput|DoubleBitBinaryInput|BinaryOutputStatus)>>::promote$", bd.path)
        if not m:
            continue
        j += 1
        gs = [g for g in ctx.gi(bd).all_guards() if g.kind == "rel" and g.op in ("Eq", "Ne") and mentions_call(g.a, r"Flags::without$") and mentions_field(g.a, "flags")]
        ok = bool(gs) and all(const_value(prog, g.b) == 1 or mentions_const(g.b, 1) or mentions_constdef(g.b, r"Flags::ONLINE$") for g in gs)
        ctx.check(ok, "promote:exactly-online:%s" % m.group(1), "packed only when flags (state bits aside) == ONLINE", bd.where(line=bd.line), bad_detail="promote() of %s no longer compares the flags for equality with ONLINE: a flag octet that is a subset of / different from ONLINE stays packed and arrives as ONLINE" % m.group(1))
    if j != 3:
        raise AnchorError("promote impls of binary types: %d" % j)
    ib = prog.body("event::writer::HeaderState::increment")
    for b, si, st in agg_sites(ib, r"writer::HeaderState$"):
        e = ctx.sym(ib).rvalue_expr(st.rv)
        ctx.check(agg_field(e, "cto") == ("field", ("param", "self"), "cto"), "HeaderState::increment:keeps-cto", "cto <- self.cto", ib.where(b.idx), bad_detail="HeaderState::increment changes the common time of an open header to %s: later events are measured from a time the master was never told" % expr_str(agg_field(e, "cto"))[:60])
        ctx.check(agg_field(e, "count_position") == ("field", ("param", "self"), "count_position"), "HeaderState::increment:keeps-position", "count_position <- self.count_position", ib.where(b.idx))


RULES.append(("C10.R12", "T8/T2", "plain wire flags are the point's flags; packed variations only for exactly-ONLINE flags; an open header keeps its common time", r12))
