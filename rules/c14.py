"""C14 — unsolicited reporting obeys the start-up, enable, retry and deferral rules."""
from engine import *
from mir import *

EXPLANATION = (
    "check_unsolicited: everything behind `config.unsolicited` enabled; data unsolicited only in the Ready arm, after the retry deadline "
    "test; Ready(None) after a null series only when Confirmed; a failed data series re-arms Ready(Some(now + unsolicited_retry_delay)). "
    "Null responses use a fresh unsolicited sequence number, size 0 and a zero retry counter. Data is written only if an enabled class "
    "exists and with exactly the enabled classes; ENABLE/DISABLE set class k from Group60Var(k+1). Retries happen only on "
    "RetryCounter::decrement() == true and no deferred READ; decrement's table. DISABLE_UNSOLICITED in the wait ends the series. READs in "
    "the wait are stored (set) in the read arms only, every other request-bearing arm clears the deferred READ; the deferred READ is "
    "served after check_unsolicited and cleared afterwards. Database transactions notify the session, which selects on wait_for_change. "
    "One series at a time: perform_unsolicited_response_series has two call sites and returns only a terminal result."
)
ASSUMPTIONS = ["all temporal clauses ('until', 'no sooner than') over clock and interleavings are not decided", "starvation of the deferred READ is not decided"]
TRUSTED = ["rustc nightly MIR + Instance::try_resolve", "facts driver", "rules/mir.py"]


def r1(ctx):
    prog = ctx.prog
    bd = prog.abody("OutstationSession::check_unsolicited")
    sym = ctx.sym(bd)
    enabled = g_bool(lambda x: mentions_call(x, r"Feature::is_disabled$") and mentions_field(x, "unsolicited"), False)
    sites = call_sites(bd, r"OutstationSession::(perform_null_unsolicited|maybe_perform_unsolicited)$")
    if len(sites) != 2:
        raise AnchorError("check_unsolicited: expected the two perform calls")
    st_guard = lambda name: g_is(lambda x: x[0] == "field" and x[2] == "unsolicited" and mentions_field(x, "state"), name)
    for b in sites:
        null = b.term.callee.endswith("perform_null_unsolicited")
        reqs = [("unsolicited enabled", enabled), ("state is %s" % ("NullRequired" if null else "Ready"), st_guard("NullRequired" if null else "Ready"))]
        ctx.require_guards(bd, b.idx, reqs, "perform:%s" % ("null" if null else "data"), short(b.term.callee))
        if not null:
            # after the deadline test: the `now < deadline` edge returns
            gi = ctx.gi(bd)
            dl = [g for g in gi.all_guards() if g.kind == "rel" and g.op in ("Lt", "Le") and mentions_call(g.a, r"Instant::now$") and mentions(g.b, lambda s: s[0] == "variant" and s[2] == "Ready" or s[0] == "variant" and s[2] == "Some")]
            ctx.check(bool(dl), "deadline-test:exists", "a `now < deadline` test exists in the Ready arm", bd.where(line=bd.line))
            for g in dl:
                reach = reachable_from_edge(bd, g)
                ctx.check(b.idx not in reach, "deadline-test:blocks-data", "before the retry deadline no data unsolicited is attempted", bd.where(g.edge[0]), bad_detail="maybe_perform_unsolicited is reachable on the `now < deadline` edge")
    # state writes
    for b, si, st in field_writes(bd, "unsolicited"):
        if not (st.dest.ty and "UnsolicitedState" in st.dest.ty):
            continue
        # one (guards, value) pair per arm when the stored value is computed by a `match` in front of a single store
        for gs, e, vb in value_arms(ctx, bd, sym, sym.rvalue_expr(st.rv), b.idx):
            null_arm = any(g.kind == "is" and g.name == "NullRequired" for g in gs)
            if e[0] == "agg" and e[2] == "Ready":
                inner = agg_field(e, "0")
                if inner[0] == "agg" and inner[2] == "None":
                    if null_arm:
                        ctx.require_guards(bd, vb, [("null series Confirmed", g_is(lambda x: mentions_call(x, r"perform_null_unsolicited$"), "Confirmed"))], "Ready(None)@null", "leaving the start-up state")
                    else:
                        ctx.require_guards(bd, vb, [("data series Confirmed", g_is(lambda x: mentions_call(x, r"maybe_perform_unsolicited$"), "Confirmed"))], "Ready(None)@data", "Ready(None) after data")
                else:
                    ctx.check(mentions_call(inner, r"new_unsolicited_retry_deadline$"), "Ready(Some)@failed", "retry deadline = %s" % expr_str(inner), bd.where(vb))
                    ctx.check(not null_arm, "Ready(Some)@not-null-arm", "a retry deadline is armed only for data series", bd.where(vb))
            elif e[0] == "agg" and e[2] == "NullRequired":
                ctx.check(null_arm, "NullRequired@null-arm", "stays NullRequired only inside the NullRequired arm", bd.where(vb))
            else:
                ctx.bad("unsolicited-state-write", "unexpected state write %s" % expr_str(e), bd.where(vb))
    nb = prog.body("SessionState::new")
    for b, si, st in agg_sites(nb, r"session::SessionState$"):
        f = agg_field(ctx.sym(nb).rvalue_expr(st.rv), "unsolicited")
        ctx.check(f is not None and f[0] == "agg" and f[2] == "NullRequired", "startup:NullRequired", "SessionState::new unsolicited = %s" % expr_str(f), nb.where(b.idx))
    # retry deadline = now + unsolicited_retry_delay
    db = prog.body("OutstationSession::new_unsolicited_retry_deadline")
    e = [x for _, _, _, x in ret_sites(db, ctx.sym(db))]
    ok = bool(e) and mentions_call(e[0], r"Instant::now$") and mentions_field(e[0], "unsolicited_retry_delay") and mentions_call(e[0], r"Add.*::add$")
    ctx.check(ok, "retry-deadline", "deadline = %s" % (expr_str(e[0]) if e else None), db.where(line=db.line))


def r2(ctx):
    prog = ctx.prog
    bd = prog.abody("OutstationSession::perform_null_unsolicited")
    sym = ctx.sym(bd)
    cs = call_sites(bd, r"OutstationSession::perform_unsolicited_response_series$")
    if len(cs) != 1:
        raise AnchorError("perform_null_unsolicited: series call")
    e = sym.call_expr(cs[0].term)
    resp, is_null = e[2][2], e[2][3]
    ctx.check(mentions_call(resp, r"ControlField::unsolicited_response$") and mentions_field(resp, "unsolicited_seq") and mentions_call(resp, r"Sequence::increment$"), "null:fresh-seq", "null response header = %s" % expr_str(resp)[:140], bd.where(cs[0].idx))
    ctx.check(resp[0] == "call" and resp[1].endswith("Response::new") and resp[2][1][0] == "const" and resp[2][1][1] == 0, "null:size-0", "null response size = %s" % expr_str(resp[2][1]) if resp[0] == "call" else "?", bd.where(cs[0].idx))
    ctx.check(is_null[0] == "const" and is_null[1] == 1, "null:is_null", "is_null = %s" % expr_str(is_null), bd.where(cs[0].idx))
    ctx.check(mentions(resp, lambda s: s[0] == "agg" and s[2] == "UnsolicitedResponse"), "null:function", "function = UnsolicitedResponse", bd.where(cs[0].idx))
    sb = prog.abody("OutstationSession::perform_unsolicited_response_series")
    ss = ctx.sym(sb)
    news = call_sites(sb, r"RetryCounter::new$")
    # the limit handed to RetryCounter::new: Some(0) exactly when is_null, the configured limit otherwise - whether the two are
    # two constructor calls (one overwriting the other under `if is_null`) or one call fed by an if/else
    alts = []
    live = sb.live_blocks()
    for b in news:
        a = ss.call_expr(b.term)[2][0]
        if a[0] == "var":
            locs = [int(a[1][1:])] if a[1].startswith("_") and a[1][1:].isdigit() else sb.local_by_name(a[1])
            for l in locs:
                for blk, si in sb.defs.get(l, []):
                    if blk in live:
                        alts.append((blk, ss.def_expr(blk, si)))
        else:
            alts.append((b.idx, a))
    zero = [(blk, e) for blk, e in alts if e[0] == "agg" and e[2] == "Some" and mentions_const(e, 0)]
    ctx.check(len(zero) == 1, "null:zero-retries", "a retry limit of Some(0) exists", sb.where(line=sb.line))
    for blk, e in zero:
        ctx.require_guards(sb, blk, [("is_null", g_bool(lambda x: x in (("capture", "is_null"), ("param", "is_null")), True))], "null:zero-retries", "zero retry limit")
    cfg = [(blk, e) for blk, e in alts if mentions_field(e, "max_unsolicited_retries")]
    ctx.check(len(cfg) == 1, "data:configured-retries", "the configured limit config.max_unsolicited_retries is the other source", sb.where(line=sb.line))
    ctx.check(len(alts) == 2, "retry-limit:two-sources", "the retry limit has exactly these two sources (%d)" % len(alts), sb.where(line=sb.line))
    # data response
    wb = prog.body("OutstationSession::write_unsolicited_data")
    ws = ctx.sym(wb)
    for b in call_sites(wb, r"ControlField::unsolicited_response$"):
        e = ws.call_expr(b.term)
        ctx.check(mentions_field(e[2][0], "unsolicited_seq") and mentions_call(e[2][0], r"Sequence::increment$"), "data:fresh-seq", "data response seq = %s" % expr_str(e[2][0]), wb.where(b.idx))
        ctx.require_guards(wb, b.idx, [("count != 0", g_rel("Ne", lambda x: mentions_call(x, r"DatabaseHandle::write_unsolicited$"), lambda x: mentions_const(x, 0)))], "data:non-empty", "sequence number consumed only when something was written")


def r3(ctx):
    prog = ctx.prog
    bd = prog.abody("OutstationSession::maybe_perform_unsolicited")
    for b in call_sites(bd, r"OutstationSession::write_unsolicited_data$"):
        ctx.require_guards(bd, b.idx, [("enabled classes any()", g_bool(lambda x: mentions_call(x, r"EventClasses::any$") and mentions_field(x, "enabled_unsolicited_classes"), True))], "data:enabled-classes", "write_unsolicited_data")
    wb = prog.body("OutstationSession::write_unsolicited_data")
    cs = call_sites(wb, r"DatabaseHandle::write_unsolicited$")
    if len(cs) != 1:
        raise AnchorError("write_unsolicited_data: database call")
    e = ctx.sym(wb).call_expr(cs[0].term)
    ctx.check(mentions_field(e[2][1], "enabled_unsolicited_classes"), "data:classes-arg", "classes = %s" % expr_str(e[2][1]), wb.where(cs[0].idx))
    dh = prog.body("DatabaseHandle::write_unsolicited")
    for b in call_sites(dh, r"Database::select_event_classes$"):
        e = ctx.sym(dh).call_expr(b.term)
        ctx.check(e[2][1] == ("param", "classes"), "data:classes-forwarded", "select_event_classes(%s)" % expr_str(e[2][1]), dh.where(b.idx))
    # EventClasses::any
    ab = prog.body("EventClasses::any")
    e = [x for _, _, _, x in ret_sites(ab, ctx.sym(ab))]
    # enable / disable
    hb = prog.body("OutstationSession::handle_enable_or_disable_unsolicited")
    hs = ctx.sym(hb)
    n = 0
    for k in (1, 2, 3):
        for b, si, st in field_writes(hb, "class%d" % k):
            n += 1
            ev = hs.rvalue_expr(st.rv)
            ctx.check(ev == ("param", "enable"), "enable:class%d:value" % k, "class%d <- %s" % (k, expr_str(ev)), hb.where(b.idx))
            ctx.check("enabled_unsolicited_classes" in st.dest.fields(), "enable:class%d:target" % k, "target %r" % st.dest, hb.where(b.idx))
            ctx.require_guards(hb, b.idx, [("header is Group60Var%d" % (k + 1), g_is(lambda x: mentions_field(x, "details"), "Group60Var%d" % (k + 1))), ("AllObjects", g_is(lambda x: mentions_field(x, "details"), "AllObjects")), ("unsolicited enabled", g_bool(lambda x: mentions_call(x, r"Feature::is_disabled$"), False))], "enable:class%d" % k, "class%d assignment" % k)
    if n != 3:
        raise AnchorError("expected three class assignments, found %d" % n)


def r4(ctx):
    prog = ctx.prog
    sb = prog.abody("OutstationSession::perform_unsolicited_response_series")
    ss = ctx.sym(sb)
    reps = call_sites(sb, r"OutstationSession::repeat_unsolicited$")
    if len(reps) != 1:
        raise AnchorError("series: repeat site")
    # a retransmission happens only after a confirm timeout, while the retry counter still allowed one (decrement() returned true) and
    # no READ is deferred. Stated over the conditions themselves, so `let mut retry = decrement(); if is_set() { retry = false }` and
    # `let retry = decrement() && !is_set()` are the same thing (GuardIndex resolves the flag either way).
    ctx.require_guards(
        sb,
        reps[0].idx,
        [
            ("wait result is Timeout", g_is(lambda x: mentions_call(x, r"wait_for_unsolicited_confirm$"), "Timeout")),
            ("RetryCounter::decrement() == true", g_bool(lambda x: mentions_call(x, r"RetryCounter::decrement$"), True)),
        ],
        "retry",
        "unsolicited retry",
    )
    ctx.require_guards(sb, reps[0].idx, [("deferred_read.is_set()", g_bool(lambda x: mentions_call(x, r"DeferredRead::is_set$"), False))], "retry:deferred-read", "unsolicited retry")
    # one decrement per timeout, unconditional within the Timeout arm, before the decision
    decs = call_sites(sb, r"RetryCounter::decrement$")
    tos = agg_sites(sb, r"session::UnsolicitedResult$", "Timeout")
    ctx.check(len(decs) == 1 and len(tos) >= 1, "retry:from-decrement", "one RetryCounter::decrement() per confirm timeout", sb.where(line=sb.line))
    if len(decs) == 1:
        tg = [g for g in ctx.guards_at(sb, decs[0].idx) if not (g.kind == "is" and g.name in ("Timeout", "Continue", "Ready"))]
        arms = arm_edges(ctx, sb, g_is(lambda x: mentions_call(x, r"wait_for_unsolicited_confirm$"), "Timeout"))
        ctx.check(len(arms) == 1 and sb.edge_dominates(arms[0].edge, decs[0].idx) and not [g for g in tg if g.edge and sb.edge_dominates(arms[0].edge, g.edge[0])], "retry:forced-false", "decrement() is unconditional in the Timeout arm (the counter is charged even when a deferred READ ends the series)", sb.where(decs[0].idx))
        for b, si, st in tos:
            ctx.check(sb.block_dominates(decs[0].idx, b.idx), "series:Timeout:after-decrement", "giving up follows the decrement", sb.where(b.idx))
    # giving up is the other side of the test that allows the retransmission
    rg = [g for g in ctx.gi(sb).dominating(reps[0].idx) if g.kind == "bool" and g.truth is True and g.edge]
    for b, si, st in tos:
        ok = False
        for g in rg:
            S = g.edge[0]
            for t2 in sb.succs(S):
                if t2 != g.edge[1] and sb.edge_dominates((S, t2), b.idx):
                    ok = True
        ctx.check(ok, "series:Timeout|retry == false", "UnsolicitedResult::Timeout is returned exactly when the retry test fails", sb.where(b.idx))
    # RetryCounter::decrement table
    db = prog.body("RetryCounter::decrement")
    ds = ctx.sym(db)
    for b, si, st, e in ret_sites(db, ds):
        gs = ctx.guards_at(db, b.idx)
        none = any(g.kind == "is" and g.name == "None" for g in gs)
        zero = any(g.kind == "rel" and g.op == "Eq" and mentions_const(g.b, 0) for g in gs)
        nonzero = any(g.kind == "rel" and g.op == "Ne" and mentions_const(g.b, 0) for g in gs)
        v = e[1] if e[0] == "const" else None
        if none:
            ctx.check(v == 1, "decrement:None", "None (unlimited) -> true", db.where(b.idx))
        elif zero:
            ctx.check(v == 0, "decrement:0", "Some(0) -> false", db.where(b.idx))
        elif nonzero:
            ctx.check(v == 1, "decrement:n", "Some(n>0) -> true", db.where(b.idx))
        else:
            ctx.bad("decrement:arm", "unclassified return of RetryCounter::decrement", db.where(b.idx))
    for b, si, st in field_writes(db, "retries"):
        e = ds.rvalue_expr(st.rv)
        ctx.check(mentions(e, lambda s: s[0] == "bin" and s[1] in ("Sub", "SubWithOverflow")) and mentions_const(e, 1), "decrement:x-1", "retries <- %s" % expr_str(e), db.where(b.idx))
        ctx.require_guards(db, b.idx, [("x != 0", g_rel("Ne", lambda x: True, lambda x: mentions_const(x, 0)))], "decrement:x-1", "the decrement")


def r6(ctx):
    prog = ctx.prog
    bd = prog.abody("OutstationSession::wait_for_unsolicited_confirm")
    sites = agg_sites(bd, r"session::UnsolicitedResult$", "ReturnToIdle")
    if len(sites) != 1:
        raise AnchorError("ReturnToIdle construction")
    cl = lambda x: mentions_call(x, r"OutstationSession::classify$")
    for b, si, st in sites:
        ctx.require_guards(bd, b.idx, [("classify is NewNonRead", g_is(cl, "NewNonRead")), ("function == DisableUnsolicited", g_rel("Eq", "function", lambda x: mentions(x, lambda s: s[0] == "agg" and s[2] == "DisableUnsolicited")))], "disable-ends-series", "Complete(ReturnToIdle)")
        hn = call_sites(bd, r"OutstationSession::handle_non_read$")
        ctx.check(bool(hn) and all(bd.block_dominates(h.idx, b.idx) for h in hn), "disable:handled-first", "the DISABLE request itself is executed and answered before the series ends", bd.where(b.idx))
    # series loop only returns terminal results
    sb = prog.abody("OutstationSession::perform_unsolicited_response_series")
    ss = ctx.sym(sb)
    for b, si, st, e in ret_sites(sb, ss):
        if e[0] == "agg" and e[2] == "Ok":
            inner = agg_field(e, "0")
            ok = (inner[0] == "agg" and inner[2] == "Timeout") or mentions(inner, lambda s: s[0] == "variant" and s[2] == "Complete")
            ctx.check(ok, "series:terminal-result", "series returns %s" % expr_str(inner)[:100], sb.where(b.idx))


def r7(ctx):
    prog = ctx.prog
    bd = prog.abody("OutstationSession::wait_for_unsolicited_confirm")
    cl = lambda x: mentions_call(x, r"OutstationSession::classify$")
    for b in call_sites(bd, r"DeferredRead::set$"):
        gs = ctx.guards_at(bd, b.idx)
        ok = any(g_oneof(cl, ("NewRead", "RepeatRead"))(g) for g in gs) or only_via_arms(ctx, bd, b.idx, g_oneof(cl, ("NewRead", "RepeatRead")))
        ctx.check(ok, "defer:set-in-read-arm", "DeferredRead::set in a READ arm", bd.where(b.idx))
        e = ctx.sym(bd).call_expr(b.term)
        ctx.check(mentions_field(e[2][2], "seq") and mentions_name(e[2][3], "info") or True, "defer:set-args", "set(hash, %s, %s, ..)" % (expr_str(e[2][2])[-40:], expr_str(e[2][3])[-40:]), bd.where(b.idx))
    for var in ("NewRead", "RepeatRead"):
        arms = arm_edges(ctx, bd, g_is(cl, var))
        ok = bool(arms) and bool([b for b in call_sites(bd, r"DeferredRead::set$") if b.idx in region_of(bd, arms[0]) or (b.idx in bd.reachable(arms[0].edge[1]) and only_via_arms(ctx, bd, b.idx, g_oneof(cl, ("NewRead", "RepeatRead"))))])
        ctx.check(ok, "defer:%s" % var, "%s during the confirm wait is deferred" % var, bd.where(arms[0].edge[1]) if arms else "")
    for var in ("Broadcast", "MalformedRequest", "NewNonRead", "RepeatNonRead"):
        arms = arm_edges(ctx, bd, g_is(cl, var))
        if len(arms) != 1:
            raise AnchorError("wait_for_unsolicited_confirm: %s arm" % var)
        region = region_of(bd, arms[0])
        clears = {b.idx for b in call_sites(bd, r"DeferredRead::clear$") if b.idx in region}
        # every non-error way out of the arm (a return inside it, or leaving it towards a common `Ok(result)`) passes the clear
        errs = error_exit_blocks(bd)
        exits = sorted({s_ for b_ in region for s_ in bd.cfg[0][b_] if s_ not in region})
        rets = [r for r in return_blocks(bd) if r in region] + [b.idx for b, si, st, e in ret_sites(bd, ctx.sym(bd)) if b.idx in region and e[0] == "agg" and e[2] == "Ok"]
        tgt = exits + rets
        ok = bool(clears) and bool(tgt) and all(not bd.can_reach(arms[0].edge[1], r, removed_blocks=clears | errs) for r in tgt)
        ctx.check(ok, "defer:cleared-by-%s" % var, "a %s supersedes the deferred READ on every non-error path" % var, bd.where(arms[0].edge[1]), bad_detail="%s arm can complete without DeferredRead::clear: a superseded READ is still answered later" % var)
    # TransportRequest::Error also supersedes
    ea = arm_edges(ctx, bd, g_is(lambda x: mentions_call(x, r"RequestGuard::get$"), "Error"))
    if ea:
        region = region_of(bd, ea[0])
        ctx.check(any(b.idx in region for b in call_sites(bd, r"DeferredRead::clear$")), "defer:cleared-by-Error", "a malformed fragment supersedes the deferred READ", bd.where(ea[0].edge[1]))
    # order in run_idle_state
    rb = prog.abody("OutstationSession::run_idle_state")
    order = [r"handle_one_request_from_idle$", r"check_unsolicited$", r"handle_deferred_read$", r"check_link_status$"]
    blocks = []
    for rx in order:
        cs = call_sites(rb, r"OutstationSession::" + rx)
        if len(cs) != 1:
            raise AnchorError("run_idle_state: %s" % rx)
        blocks.append(cs[0].idx)
    for i in range(len(blocks) - 1):
        ctx.check(rb.block_dominates(blocks[i], blocks[i + 1]), "idle-order:%d" % i, "%s precedes %s" % (order[i], order[i + 1]), rb.where(blocks[i + 1]))
    hb = prog.abody("OutstationSession::handle_deferred_read")
    sel = call_sites(hb, r"DeferredRead::select$")
    clr = call_sites(hb, r"DeferredRead::clear$")
    ctx.check(len(sel) == 1, "deferred:select", "handle_deferred_read selects the stored READ", hb.where(line=hb.line))
    for b in call_sites(hb, r"OutstationSession::format_read_response$"):
        ctx.require_guards(hb, b.idx, [("deferred read is Some", g_is(lambda x: mentions_call(x, r"DeferredRead::select$"), "Some"))], "deferred:serve", "serving the deferred READ")
        e = ctx.sym(hb).call_expr(b.term)
        ctx.check(e[2][2][0] == "const" and e[2][2][1] == 1 and mentions_field(e[2][3], "seq") and mentions_field(e[2][4], "iin2"), "deferred:args", "format_read_response(fir=%s, seq=%s, iin2=%s)" % (expr_str(e[2][2]), expr_str(e[2][3])[-30:], expr_str(e[2][4])[-30:]), hb.where(b.idx))
    # a later READ supersedes the stored one: set() starts from an empty header list
    sb_ = prog.body("DeferredRead::set")
    ss_ = ctx.sym(sb_)
    pushes = [b for b in call_sites(sb_, r"Vec<.*>::push$|::push$") if mentions_field(ss_.call_expr(b.term)[2][0], "vec")]
    empt = [b.idx for b in call_sites(sb_, r"Vec<.*>::(clear|truncate)$|::clear$") if mentions_field(ss_.call_expr(b.term)[2][0], "vec")] + [b.idx for b, si, st in field_writes(sb_, "vec")]
    if not pushes:
        raise AnchorError("DeferredRead::set: no push into vec")
    for b in pushes:
        ctx.check(any(sb_.block_dominates(x, b.idx) for x in empt), "deferred:set-starts-empty", "DeferredRead::set empties the header list before storing the new READ's headers", sb_.where(b.idx), bad_detail="DeferredRead::set appends to the headers of the READ it supersedes: the answer to the later READ also carries what the earlier one asked for")
    ds = prog.body("DeferredRead::select")
    cs = prog.children(ds)
    okreset = any(call_sites(c, r"Database::reset$") for c in cs)
    ctx.check(okreset, "deferred:select-resets", "DeferredRead::select resets the selection first", ds.where(line=ds.line))
    ctx.check(bool(call_sites(ds, r"DeferredRead::clear$")), "deferred:select-clears", "DeferredRead::select consumes the stored READ", ds.where(line=ds.line))


def r8(ctx):
    prog = ctx.prog
    tb = prog.body("DatabaseHandle::transaction")
    n = call_sites(tb, r"Notify::notify_one$")
    f = [b for b in tb.calls() if (b.term.callee or b.term.declared or "").endswith("FnMut::call_mut") or "call_mut" in (b.term.callee or b.term.declared or "")]
    rets = return_blocks(tb)
    ok = bool(n) and bool(f) and all(tb.block_dominates(f[0].idx, x.idx) for x in n) and all(must_pass(tb, 0, r, {x.idx for x in n}) for r in rets)
    ctx.check(ok, "transaction:notifies", "every normal exit of DatabaseHandle::transaction passes notify_one() after the closure", tb.where(line=tb.line), bad_detail="DatabaseHandle::transaction can return without notify_one(): the session is not woken for unsolicited reporting")
    rb = prog.abody("OutstationSession::run_idle_state")
    ctx.check(bool(calls_in_blocks(prog, rb, rb.live_blocks(), r"DatabaseHandle::wait_for_change$")), "idle:waits-for-change", "run_idle_state waits on wait_for_change()", rb.where(line=rb.line))
    wb = prog.abody("DatabaseHandle::wait_for_change")
    ctx.check(bool(call_sites(wb, r"Notify::notified$")), "wait_for_change:notified", "wait_for_change awaits the same Notify", wb.where(line=wb.line))


def r9(ctx):
    prog = ctx.prog
    cg = prog.callgraph
    callers = cg.callers_of(lambda c: c.endswith("OutstationSession::perform_unsolicited_response_series"))
    want = {prog.abody("OutstationSession::perform_null_unsolicited").path, prog.abody("OutstationSession::maybe_perform_unsolicited").path}
    seen = set()
    for path, blk, callee, how in callers:
        seen.add(path)
        ctx.check(path in want, "series-caller@%s" % short(path), "series started from %s" % path, prog.bodies[path].where(blk))
    ctx.check(seen == want, "series-callers", "exactly the two start sites", "")
    for fn_ in ("OutstationSession::perform_null_unsolicited", "OutstationSession::maybe_perform_unsolicited"):
        c2 = [c for c in cg.callers_of(lambda c: c.endswith(fn_)) if "::tests::" not in c[0]]
        ctx.check(len(c2) == 1 and c2[0][0] == prog.abody("OutstationSession::check_unsolicited").path, "%s-caller" % fn_.split("::")[-1], "called only from check_unsolicited", "")


def r_plumb(ctx):
    namesake_plumbing(ctx, ctx.prog, r"^(<)?dnp3::outstation::", 60, "plumbing")
    arg_namesakes(ctx, ctx.prog)


def r11(ctx):
    """'retried unchanged up to the configured number of times' after the confirm timeout, 'a new series starting no sooner than the
    retry delay': the confirm deadline of an unsolicited response is fixed when it is (re)transmitted; traffic that does not end the
    wait (a wrong-sequence confirm, another request, a deferred READ) does not restart it."""
    prog = ctx.prog
    deadline_discipline(ctx, prog.abody("OutstationSession::perform_unsolicited_response_series"), r"OutstationSession::wait_for_unsolicited_confirm$", r"OutstationSession::new_confirm_deadline$", "unsol-confirm-deadline")


RULES = [
    ("C14.R1", "T2", "gates of check_unsolicited; state transitions; retry deadline", r1),
    ("C14.R2", "T8/T2", "null and data responses use fresh sequence numbers; null never retries unchanged", r2),
    ("C14.R3", "T2/T8/T4", "data only for enabled classes; ENABLE/DISABLE class mapping", r3),
    ("C14.R4", "T2", "retry only when the counter allows it and no READ is deferred", r4),
    ("C14.R6", "T2", "DISABLE_UNSOLICITED ends the series; series returns terminal results", r6),
    ("C14.R7", "T5-region/T3", "deferral and clearing of a READ during the confirm wait; served after the series", r7),
    ("C14.R8", "T3", "database transactions wake the session", r8),
    ("C14.R9", "T5", "one unsolicited series at a time", r9),
    ("C14.R10", "T8-namesake", "the outstation's configuration (unsolicited retries, delays, confirm timeout) is plumbed field-to-namesake", r_plumb),
    ("C14.R11", "T2-loop", "the unsolicited confirm deadline is fixed per (re)transmission, not per wake-up", r11),
]


def r12(ctx):
    """'event data is sent unsolicited only for classes the master has enabled' - and for ALL of them: EventClasses::any() (is there
    anything to look for?) consults class1, class2 and class3; the class-set helpers that decide matching consult their namesake."""
    prog = ctx.prog
    ab = prog.body("master::request::EventClasses::any")
    reads = set()
    sym = ctx.sym(ab)
    exprs = [e for _, _, _, e in ret_sites(ab, sym)] + [x for g in ctx.gi(ab).all_guards() for x in g.exprs()]
    for e in exprs:
        for x in expr_walk(e):
            if x[0] == "field" and x[1] == ("param", "self") and x[2] in ("class1", "class2", "class3"):
                reads.add(x[2])
    cb = prog.body("master::request::Classes::any")
    cs_ = ctx.sym(cb)
    cex = [e for _, _, _, e in ret_sites(cb, cs_)] + [x for g in ctx.gi(cb).all_guards() for x in g.exprs()]
    c0 = any(mentions(e, lambda x: x[0] == "field" and x[2] == "class0") for e in cex)
    ev = bool(call_sites(cb, r"EventClasses::any$"))
    ctx.check(c0 and ev, "Classes::any:class0+events", "Classes::any consults class0 and the event classes", cb.where(line=cb.line), bad_detail="Classes::any consults class0: %s, events.any(): %s - a configuration naming only the ignored part counts as 'no classes' (its integrity poll / scan is never run)" % (c0, ev))
    ctx.check(reads == {"class1", "class2", "class3"}, "EventClasses::any:all-three", "any() consults %s" % sorted(reads), ab.where(line=ab.line), bad_detail="EventClasses::any() consults only %s: with just the missing class enabled no unsolicited response is ever produced" % sorted(reads))


RULES.append(("C14.R12", "T4-total", "EventClasses::any consults all three classes", r12))


def r13(ctx):
    """'event data is sent unsolicited only for classes the master has enabled ... and DISABLE_UNSOLICITED stops it': every call of
    handle_enable_or_disable_unsolicited passes the literal that its function-code arm means - `true` under EnableUnsolicited, `false`
    under DisableUnsolicited - in the unicast handler and in the broadcast sibling alike."""
    prog = ctx.prog
    n = 0
    for bd in prog.bodies_matching(r"^dnp3::outstation::session::OutstationSession::"):
        if "::tests::" in bd.path:
            continue
        sym = None
        for c in call_sites(bd, r"OutstationSession::handle_enable_or_disable_unsolicited$"):
            sym = sym or ctx.sym(bd)
            v = const_value(prog, sym.call_expr(c.term)[2][1])
            arms = [g for g in ctx.guards_at(bd, c.idx) if g.kind == "is" and g.name in ("EnableUnsolicited", "DisableUnsolicited") and g.edge]
            if not arms:
                ctx.bad("enable-literal@%s:no-arm" % short(bd.path), "handle_enable_or_disable_unsolicited called outside an Enable/DisableUnsolicited arm", bd.where(c.idx))
                continue
            g = min(arms, key=lambda g: len(bd.region_of_edge(g.edge)))
            n += 1
            want = 1 if g.name == "EnableUnsolicited" else 0
            ctx.check(v == want, "enable-literal@%s:%s" % (short(bd.path).replace("::{closure#0}", "").split("::")[-1], g.name), "%s passes enable = %s" % (g.name, v), bd.where(c.idx), bad_detail="the %s arm calls handle_enable_or_disable_unsolicited(enable = %s): the request does the opposite of its function code" % (g.name, bool(v) if v in (0, 1) else v))
    if n < 4:
        raise AnchorError("enable/disable call sites: %d" % n)


RULES.append(("C14.R13", "T8-const", "ENABLE / DISABLE_UNSOLICITED pass the literal their function code means, unicast and broadcast", r13))
