"""C12 — outstation replies are well-formed, correlated, bounded, and report rejections."""
from engine import *
from mir import *

EXPLANATION = (
    "Provenance of every response header built in outstation/session.rs: solicited seq derives from the request in hand and never from "
    "unsolicited_seq, unsolicited headers use unsolicited_seq.increment(); ControlField constructors set the bits their names say. "
    "handle_non_read yields None exactly for the no-response function codes (and classify tests CONFIRM first). Every ObjectParseError "
    "maps to a non-zero IIN2 and the error/unsupported paths OR a non-default IIN2. Per-header status accumulators inside loops are "
    "combined with themselves (|=, first_error) and never overwritten by a fresh call result. Transmitted slices come from the tx buffers; "
    "no WriteError is unwrapped on a response-building path."
)
ASSUMPTIONS = ["'parses cleanly' for every emitted fragment is covered by the codec rules of C09, not here", "'rather than with silence' as liveness is not decided"]
TRUSTED = ["rustc nightly MIR + Instance::try_resolve", "facts driver", "rules/mir.py dominance + symbolic expressions"]

NO_RESPONSE = {"DirectOperateNoResponse", "ImmediateFreezeNoResponse", "FreezeClearNoResponse", "FreezeAtTimeNoResponse"}


def session_bodies(prog):
    return [b for b in prog.bodies.values() if b.path.startswith("dnp3::outstation::session::") and "::tests::" not in b.path]


def r1(ctx):
    prog = ctx.prog
    n_sol = n_uns = 0
    for bd in session_bodies(prog):
        sym = ctx.sym(bd)
        for b in call_sites(bd, r"ControlField::(response|single_response)$|session::Response::empty_solicited$"):
            e = sym.call_expr(b.term)
            seq = e[2][0]
            n_sol += 1
            def good1(q):
                return (mentions_name(q, "seq") or (mentions_field(q, "seq") and (mentions_name(q, "request") or mentions_name(q, "x") or mentions_name(q, "series") or mentions(q, lambda s: s[0] == "variant"))) or mentions_field(q, "ecsn")
                        # the sequence number carried by the transport-level error being answered
                        or (mentions_name(q, "err") and mentions(q, lambda s: s[0] == "variant" and s[2] in ("UnknownFunction", "RequestValidationError"))))
            alts = seq[1] if seq[0] == "phi" else (seq,)
            good = all(good1(q) for q in alts)
            bad = mentions_field(seq, "unsolicited_seq")
            ctx.check(good and not bad, "sol-seq@%s#%d" % (short(bd.path), b.term.line - bd.line), "solicited header seq = %s" % expr_str(seq)[:120], bd.where(b.idx))
        for b in call_sites(bd, r"ControlField::unsolicited_response$"):
            e = sym.call_expr(b.term)
            seq = e[2][0]
            n_uns += 1
            ctx.check(mentions_field(seq, "unsolicited_seq") and mentions_call(seq, r"Sequence::increment$"), "uns-seq@%s" % short(bd.path), "unsolicited header seq = %s" % expr_str(seq)[:120], bd.where(b.idx))
    if n_sol < 15 or n_uns < 2:
        raise AnchorError("expected >= 15 solicited and >= 2 unsolicited header constructions, found %d / %d" % (n_sol, n_uns))
    # constructors
    want = {
        "ControlField::response": {"uns": 0, "fir": "fir", "fin": "fin", "con": "con", "seq": "seq"},
        "ControlField::single_response": {"uns": 0, "fir": 1, "fin": 1, "con": 0, "seq": "seq"},
        "ControlField::unsolicited_response": {"uns": 1, "fir": 1, "fin": 1, "con": 1, "seq": "seq"},
        "ControlField::request": {"uns": 0, "fir": 1, "fin": 1, "con": 0, "seq": "seq"},
        "ControlField::unsolicited": {"uns": 1, "fir": 1, "fin": 1, "con": 0, "seq": "seq"},
    }
    for fn_, fields in want.items():
        bd = prog.body("app::header::" + fn_)
        sym = ctx.sym(bd)
        rs = ret_sites(bd, sym)
        for b, si, st, e in rs:
            for f, v in fields.items():
                fe = agg_field(e, f)
                ok = fe is not None and ((isinstance(v, int) and fe[0] == "const" and fe[1] == v) or (isinstance(v, str) and fe == ("param", v)))
                ctx.check(ok, "%s:%s" % (fn_, f), "%s.%s = %s" % (fn_, f, expr_str(fe)), bd.where(b.idx))
    # masks
    for name, val in (("FIR_MASK", 0x80), ("FIN_MASK", 0x40), ("CON_MASK", 0x20), ("UNS_MASK", 0x10)):
        c = prog.const("app::header::ControlField::" + name)
        ctx.check(c.get("v") == val, "ControlField::%s" % name, "%s = %s" % (name, c.get("v")))
    # Response::empty_solicited builds a single_response with the Response function and size 0
    bd = prog.body("session::Response::empty_solicited")
    e = [x for _, _, _, x in ret_sites(bd, ctx.sym(bd))]
    ok = bool(e) and (mentions_call(e[0], r"ControlField::single_response$") or mentions(e[0], lambda s: s[0] == "call" and s[1].endswith("ControlField::response") and [x[1] if x[0] == "const" else None for x in s[2][1:]] == [1, 1, 0])) and mentions(e[0], lambda s: s[0] == "agg" and s[2] == "Response" and "ResponseFunction" in (s[1] or ""))
    ctx.check(ok, "empty_solicited:shape", "empty_solicited = %s" % (expr_str(e[0])[:160] if e else None), bd.where(line=bd.line))
    # header function code: solicited -> Response, unsolicited -> UnsolicitedResponse
    for bd in session_bodies(prog):
        sym = ctx.sym(bd)
        for b in call_sites(bd, r"ResponseHeader::new$"):
            e = sym.call_expr(b.term)
            uns = mentions_call(e[2][0], r"ControlField::unsolicited_response$")
            fn_ok = mentions(e[2][1], lambda s: s[0] == "agg" and s[2] == ("UnsolicitedResponse" if uns else "Response"))
            ctx.check(fn_ok, "header-fn@%s#%d" % (short(bd.path), b.term.line - bd.line), "ResponseHeader::new(%s, %s)" % (expr_str(e[2][0])[:60], expr_str(e[2][1])), bd.where(b.idx))


def r2(ctx):
    prog = ctx.prog
    bd = prog.abody("OutstationSession::handle_non_read")
    sym = ctx.sym(bd)
    gi = ctx.gi(bd)
    fn_guard = lambda g: g.kind == "is" and g.a in (("capture", "function"), ("param", "function"))
    arms = [g for g in gi.all_guards() if fn_guard(g)]
    names = {g.name for g in arms}
    ctx.check(NO_RESPONSE <= names, "non_read:arms", "all four no-response function codes have their own arm", bd.where(line=bd.line), bad_detail="missing arms: %s" % sorted(NO_RESPONSE - names))
    # `result` definitions per arm
    res_locals = bd.local_by_name("result")
    if not res_locals:
        raise AnchorError("handle_non_read: no `result` local")
    defs = []
    for l in res_locals:
        for blk, si in bd.defs.get(l, []):
            if blk in bd.live_blocks():
                defs.append((blk, si))
    if len(defs) < 15:
        raise AnchorError("handle_non_read: expected >= 15 assignments to `result`, found %d" % len(defs))
    for blk, si in defs:
        e = sym.def_expr(blk, si)
        doms = [g for g in gi.dominating(blk) if fn_guard(g) or (g.kind in ("isnot", "oneof") and g.a in (("capture", "function"), ("param", "function")))]
        arm = doms[0].name if doms and doms[0].kind == "is" else "_"
        is_none = e[0] == "agg" and e[2] == "None"
        if arm in NO_RESPONSE:
            if arm == "DirectOperateNoResponse":
                ok = mentions_call(e, r"OutstationSession::handle_controls$") and mentions(e, lambda s: s[0] == "agg" and s[2] == "DirectOperateNoAck")
                ctx.check(ok, "non_read:%s" % arm, "%s -> %s" % (arm, expr_str(e)[:120]), bd.where(blk))
            else:
                ctx.check(is_none, "non_read:%s" % arm, "%s -> None" % arm, bd.where(blk), bad_detail="%s yields %s: a no-response function code is answered" % (arm, expr_str(e)[:120]))
        else:
            ok = not is_none
            if arm in ("Select", "Operate", "DirectOperate"):
                ok = mentions_call(e, r"OutstationSession::handle_controls$") and not mentions(e, lambda s: s[0] == "agg" and s[2] == "DirectOperateNoAck")
            ctx.check(ok, "non_read:%s" % arm, "%s -> %s" % (arm, expr_str(e)[:100]), bd.where(blk), bad_detail="%s yields %s: a function code that requires a reply is met with silence" % (arm, expr_str(e)[:100]))
    # handle_controls: None only for DirectOperateNoAck
    hc = prog.abody("OutstationSession::handle_controls")
    hs = ctx.sym(hc)
    for b, si, st, e in ret_sites(hc, hs):
        if e[0] == "agg" and e[2] == "None":
            ctx.require_guards(hc, b.idx, [("ct is DirectOperateNoAck", g_is(lambda x: x in (("capture", "ct"), ("param", "ct")), "DirectOperateNoAck"))], "handle_controls:None", "None return of handle_controls")
    nn = [1 for b, si, st, e in ret_sites(hc, hs) if e[0] == "agg" and e[2] == "None"]
    ctx.check(len(nn) == 2, "handle_controls:None-count", "handle_controls returns None on both DirectOperateNoAck paths (%d)" % len(nn), hc.where(line=hc.line))
    # classify tests Confirm before anything else
    cb = prog.body("OutstationSession::classify")
    for var in ("Broadcast", "MalformedRequest", "RepeatRead", "RepeatNonRead", "NewRead", "NewNonRead"):
        for b, si, st in agg_sites(cb, r"session::FragmentType$", var):
            ctx.require_guards(cb, b.idx, [("function != Confirm", g_rel("Ne", "function", lambda x: mentions(x, lambda s: s[0] == "agg" and s[2] == "Confirm")))], "classify:%s" % var, "FragmentType::%s" % var)
    # confirm arms of every dispatcher reach no responder
    TXR = r"OutstationSession::(write_solicited|repeat_solicited|write_error_response|handle_non_read|format_\w+)$|Response::empty_solicited$"
    cl = lambda x: mentions_call(x, r"OutstationSession::classify$")
    for d in ("OutstationSession::process_request_from_idle", "OutstationSession::wait_for_unsolicited_confirm", "OutstationSession::expect_sol_confirm"):
        body = prog.abody(d)
        for var in ("SolicitedConfirm", "UnsolicitedConfirm"):
            for g in arm_edges(ctx, body, g_is(cl, var)):
                hits = calls_in_blocks(prog, body, region_of(body, g), TXR)
                ctx.check(not hits, "confirm-unanswered@%s:%s" % (d.split("::")[-1], var), "%s arm builds no response" % var, body.where(g.edge[1]), bad_detail="CONFIRM arm reaches %s" % [short(c) for _, _, c in hits])


def r3(ctx):
    prog = ctx.prog
    m = [b for b in prog.bodies.values() if re.search(r"(Iin2 as .*From<.*ObjectParseError>>|From<.*ObjectParseError> for .*Iin2>)::from$", b.path)]
    if len(m) != 1:
        raise AnchorError("From<ObjectParseError> for Iin2: %d bodies" % len(m))
    bd = m[0]
    sym = ctx.sym(bd)
    adt = prog.adt("app::parse_error::ObjectParseError")
    variants = {v["name"] for v in adt["variants"]}
    seen = set()
    for b, si, st, e in ret_sites(bd, sym):
        doms = [g for g in ctx.guards_at(bd, b.idx) if g.kind in ("is", "oneof")]
        arm = doms[0].name if doms else "?"
        for a in ([arm] if isinstance(arm, str) else arm):
            seen.add(a)
        nonzero = mentions(e, lambda s: s[0] == "const" and isinstance(s[1], int) and s[1] != 0)
        ctx.check(nonzero, "parse-error->iin2:%s" % (arm if isinstance(arm, str) else "|".join(arm)), "%s -> %s" % (arm, expr_str(e)), bd.where(b.idx), bad_detail="ObjectParseError::%s maps to a clean IIN2 (%s)" % (arm, expr_str(e)))
    ctx.check(variants <= seen or len(seen) >= len(variants), "parse-error->iin2:exhaustive", "every ObjectParseError variant has an arm (%d/%d)" % (len(seen & variants), len(variants)), bd.where(line=bd.line))
    # IIN2 constants non-zero and distinct
    vals = {}
    for name in ("NO_FUNC_CODE_SUPPORT", "OBJECT_UNKNOWN", "PARAMETER_ERROR", "EVENT_BUFFER_OVERFLOW", "ALREADY_EXECUTING", "CONFIG_CORRUPT"):
        c = prog.const("app::header::Iin2::" + name)
        vals[name] = c.get("v")
        ctx.check(bool(c.get("v")), "Iin2::%s:nonzero" % name, "Iin2::%s = %s" % (name, c.get("v")))
    # the error paths OR a non-default IIN2 into the response
    def nondefault(e):
        return mentions(e, lambda s: s[0] == "const" and isinstance(s[1], int) and s[1] != 0 and isinstance(s[2], str) and "Iin2::" in s[2]) or mentions_call(e, r"(Iin2 as .*From<.*ObjectParseError>>|From<.*ObjectParseError> for .*Iin2>)::from$")
    wb = prog.abody("OutstationSession::write_error_response")
    for b in call_sites(wb, r"Response::empty_solicited$"):
        e = ctx.sym(wb).call_expr(b.term)
        ctx.check(nondefault(e[2][1]), "error-response:iin2", "error response IIN = %s" % expr_str(e[2][1])[:120], wb.where(b.idx))
    hb = prog.abody("OutstationSession::handle_non_read")
    fn_is = lambda g: g.kind == "isnot" and g.a in (("capture", "function"), ("param", "function"))
    found = False
    for b in call_sites(hb, r"Response::empty_solicited$"):
        if any(fn_is(g) for g in ctx.guards_at(hb, b.idx)):
            found = True
            e = ctx.sym(hb).call_expr(b.term)
            ctx.check(nondefault(e[2][1]), "unsupported-function:iin2", "unsupported function IIN = %s" % expr_str(e[2][1])[:120], hb.where(b.idx))
    ctx.check(found, "unsupported-function:arm", "the wildcard arm of handle_non_read answers with an error response", hb.where(line=hb.line))
    hc = prog.abody("OutstationSession::handle_controls")
    errarm = g_is(lambda x: mentions_call(x, r"ControlCollection.*::from$"), "Err")
    for b in call_sites(hc, r"Response::empty_solicited$"):
        e = ctx.sym(hc).call_expr(b.term)
        ctx.require_guards(hc, b.idx, [("ControlCollection::from is Err", errarm)], "bad-control-header", "error response of handle_controls")
        ctx.check(nondefault(e[2][1]), "bad-control-header:iin2", "IIN = %s" % expr_str(e[2][1])[:120], hc.where(b.idx))
    for d in ("OutstationSession::process_request_from_idle", "OutstationSession::wait_for_unsolicited_confirm"):
        body = prog.abody(d)
        cl = lambda x: mentions_call(x, r"OutstationSession::classify$")
        for g in arm_edges(ctx, body, g_is(cl, "MalformedRequest")):
            hits = [b for b in call_sites(body, r"Response::empty_solicited$") if b.idx in region_of(body, g)]
            ok = bool(hits) and all(nondefault(ctx.sym(body).call_expr(b.term)[2][1]) for b in hits)
            ctx.check(ok, "malformed:iin2@%s" % d.split("::")[-1], "MalformedRequest arm answers with the parse error's IIN2", body.where(g.edge[1]))
    # get_iin2: objects in a function that does not allow them -> PARAMETER_ERROR
    gb = prog.body("OutstationSession::get_iin2")
    rs = ret_sites(gb, ctx.sym(gb))
    ctx.check(any(nondefault(e) for _, _, _, e in rs), "get_iin2:parameter-error", "get_iin2 can return a non-default IIN2", gb.where(line=gb.line))


ACC_TY = re.compile(r"(^|::)(Iin2|Iin|CommandStatus)$")


def r4(ctx):
    """Accumulators: a named Iin/Iin2/CommandStatus local assigned inside a loop must be combined with itself."""
    prog = ctx.prog
    n = 0
    for bd in prog.bodies.values():
        if not bd.path.startswith("dnp3::outstation::") or "::tests::" in bd.path:
            continue
        named = {}
        for nm, p in bd.dbg:
            if p.is_local() and p.local < len(bd.local_tys) and ACC_TY.search(bd.local_tys[p.local]):
                named[p.local] = nm
        if not named:
            continue
        live = bd.live_blocks()
        succ, _ = bd.cfg
        sym = ctx.sym(bd)
        for l, nm in named.items():
            defs = [d for d in bd.defs.get(l, []) if d[0] in live]
            if len(defs) < 2:
                continue
            loopy = {d: any(d[0] in bd.reachable(s) for s in succ[d[0]]) for d in defs}
            if all(loopy.values()):
                continue  # a per-iteration temporary, not an accumulator carried across iterations
            for blk, si in defs:
                if not loopy[(blk, si)]:
                    continue
                e = sym.def_expr(blk, si)
                n += 1
                selfdep = mentions(e, lambda s: s[0] in ("var",) and s[1] == nm)
                const_nondefault = e[0] == "const" and isinstance(e[1], int) and e[1] != 0
                ctx.check(selfdep or const_nondefault, "accum@%s:%s" % (short(bd.path), nm), "`%s` updated in a loop from %s" % (nm, expr_str(e)[:120]), bd.where(blk), bad_detail="accumulator `%s` is overwritten inside the loop by %s: only the last header's status reaches the response" % (nm, expr_str(e)[:160]))
        # |= style accumulators count as instances too
        for b in call_sites(bd, r"BitOrAssign.*::bitor_assign$|Iin2::set$"):
            in_loop = any(b.idx in bd.reachable(s) for s in succ[b.idx])
            if in_loop:
                n += 1
                ctx.ok("accum-or@%s#%d" % (short(bd.path), b.term.line - bd.line), "|= inside a loop", bd.where(b.idx))
    if n < 8:
        raise AnchorError("expected >= 8 loop accumulators in dnp3::outstation, found %d" % n)


def r5(ctx):
    prog = ctx.prog
    n = 0
    for bd in session_bodies(prog):
        sym = ctx.sym(bd)
        for b in call_sites(bd, r"TransportWriter::write$"):
            e = sym.call_expr(b.term)
            n += 1
            frag = e[2][4]
            ok = mentions_call(frag, r"util::buffer::Buffer::get$") and (mentions_field(frag, "sol_tx_buffer") or mentions_field(frag, "unsol_tx_buffer"))
            ctx.check(ok, "tx-slice@%s" % short(bd.path), "transmitted slice = %s" % expr_str(frag)[:140], bd.where(b.idx))
    if n != 2:
        raise AnchorError("expected exactly 2 TransportWriter::write sites in the outstation session, found %d" % n)
    # body cursors are created over the tx buffers
    k = 0
    for bd in session_bodies(prog):
        sym = ctx.sym(bd)
        for b in call_sites(bd, r"util::buffer::Buffer::write_cursor$"):
            e = sym.call_expr(b.term)
            k += 1
            ctx.check(mentions_field(e[2][0], "sol_tx_buffer") or mentions_field(e[2][0], "unsol_tx_buffer"), "cursor-src@%s#%d" % (short(bd.path), b.term.line - bd.line), "cursor over %s" % expr_str(e[2][0]), bd.where(b.idx))
    if k < 8:
        raise AnchorError("expected >= 8 write_cursor sites, found %d" % k)
    for name, val in (("MIN", 249), ("DEFAULT", 2048)):
        try:
            c = prog.const("app::buffer_size::BufferSize::" + name)
            ctx.check(c.get("v") == val, "BufferSize::%s" % name, "BufferSize::%s = %s" % (name, c.get("v")))
        except AnchorError:
            pass


def r6(ctx):
    """No unwrap/expect of a WriteError-carrying Result on a response-building path of the session."""
    prog = ctx.prog
    n = 0
    for bd in session_bodies(prog):
        sym = ctx.sym(bd)
        for b in call_sites(bd, r"result::Result::(unwrap|expect)$"):
            e = sym.call_expr(b.term)
            targs = b.term.d.get("targs") or []
            n += 1
            werr = any("WriteError" in t for t in targs) and mentions_call(e, r"ControlCollection::")
            ctx.check(not werr, "no-unwrap-WriteError@%s#%d" % (short(bd.path), b.term.line - bd.line), "unwrap of %s" % (targs,), bd.where(b.idx), bad_detail="`%s` unwraps a Result<_, WriteError>: when the echoed objects do not fit the tx buffer the outstation task panics instead of answering" % expr_str(e)[:160])
    ctx.note("unwrap/expect sites inspected in outstation::session: %d" % n)
    if n == 0:
        ctx.ok("no-unwrap-WriteError:none", "no Result::unwrap/expect in outstation::session", "")


def r7(ctx):
    """No request is swallowed by a confirm wait. During the solicited wait every fragment that needs an answer (a request of any
    kind, a malformed one, one the transport layer could not parse) ends the wait with ConfirmAction::NewRequest (it is retained
    and answered from idle); only link-layer traffic, nothing-yet, and confirms that do not match keep waiting. During the
    unsolicited wait and from idle the error / non-READ arms reach a responder."""
    prog = ctx.prog
    ex = prog.body("OutstationSession::expect_sol_confirm")
    sym = ctx.sym(ex)
    cl = lambda x: mentions_call(x, r"OutstationSession::classify$")
    rq = lambda x: mentions_call(x, r"RequestGuard::get$")
    must_end = [("TransportRequest::Error", g_is(rq, "Error"))] + [("FragmentType::%s" % v, g_is(cl, v)) for v in ("MalformedRequest", "NewRead", "NewNonRead", "RepeatNonRead", "Broadcast")]
    rets = list(ret_sites(ex, sym))
    for label, pred in must_end:
        arms = arm_edges(ctx, ex, pred)
        if len(arms) != 1:
            raise AnchorError("expect_sol_confirm: %s arm (%d)" % (label, len(arms)))
        region = region_of(ex, arms[0])
        vals = [variant_name(e) for b, si, st, e in rets if b.idx in region]
        ctx.check(bool(vals) and all(v == "NewRequest" for v in vals), "sol-wait:%s->NewRequest" % label, "%s ends the confirm wait (%s)" % (label, vals), ex.where(arms[0].edge[1]), bad_detail="%s during a solicited confirm wait yields %s: the fragment is consumed and never answered" % (label, vals))
    may_wait = {"ContinueWait"}
    for b, si, st, e in rets:
        if variant_name(e) != "ContinueWait":
            continue
        gs = ctx.guards_at(ex, b.idx)
        ok = any(g.kind == "is" and rq(g.a) and g.name in ("LinkLayerMessage", "None") for g in gs) or any(g.kind == "is" and cl(g.a) and g.name in ("SolicitedConfirm", "UnsolicitedConfirm") for g in gs) or any(g.kind == "is" and g.name == "None" and mentions_call(g.a, r"RequestGuard::get$") for g in gs)
        ctx.check(ok, "sol-wait:ContinueWait-only-for-non-requests", "ContinueWait only for link traffic / nothing / non-matching confirms", ex.where(b.idx), bad_detail="ContinueWait is returned under %s" % "; ".join(fmt_guards(gs))[:200])
    # unsolicited wait and idle: error-bearing and non-READ arms reach a responder
    TXR = r"OutstationSession::(write_solicited|repeat_solicited|write_error_response|handle_non_read|format_\w+|respond_with\w*)$|Response::empty_solicited$"
    for d, labels in (("OutstationSession::wait_for_unsolicited_confirm", ("MalformedRequest", "NewNonRead", "RepeatNonRead")), ("OutstationSession::process_request_from_idle", ("MalformedRequest", "NewNonRead", "RepeatNonRead", "NewRead", "RepeatRead"))):
        body = prog.abody(d)
        for v in labels:
            arms = arm_edges(ctx, body, g_is(cl, v))
            if len(arms) != 1:
                raise AnchorError("%s: %s arm (%d)" % (d, v, len(arms)))
            hits = calls_in_blocks(prog, body, region_of(body, arms[0]), TXR)
            if d.endswith("process_request_from_idle"):
                # from idle the arm hands the response to its caller as Some(LastValidRequest), which transmits it
                reg = region_of(body, arms[0])
                vals = [variant_name(e) for b, si, st, e in ret_sites(body, ctx.sym(body)) if b.idx in reg]
                ctx.check(bool(vals) and all(x == "Some" for x in vals), "answered@process_request_from_idle:%s" % v, "%s arm returns Some(LastValidRequest) (%s)" % (v, vals), body.where(arms[0].edge[1]), bad_detail="the %s arm of process_request_from_idle returns %s: nothing is transmitted" % (v, vals))
                continue
            ctx.check(bool(hits), "answered@%s:%s" % (d.split("::")[-1], v), "%s arm reaches a responder (%s)" % (v, sorted({short(c) for _, _, c in hits})[:2]), body.where(arms[0].edge[1]), bad_detail="the %s arm of %s builds no response" % (v, d.split("::")[-1]))
    for d in ("OutstationSession::wait_for_unsolicited_confirm", "OutstationSession::handle_one_request_from_idle"):
        body = prog.abody(d)
        arms = arm_edges(ctx, body, g_is(rq, "Error")) or [g for g in ctx.gi(body).all_guards() if g.kind == "is" and g.name == "Error" and (g.enum or "").endswith("TransportRequest")]
        if not arms:
            raise AnchorError("%s: TransportRequest::Error arm" % d)
        for g in arms:
            hits = calls_in_blocks(prog, body, region_of(body, g), r"OutstationSession::write_error_response$")
            ctx.check(bool(hits), "answered@%s:TransportRequest::Error" % d.split("::")[-1], "an unparsable fragment is answered with an error response", body.where(g.edge[1]), bad_detail="the TransportRequest::Error arm of %s answers nothing" % d.split("::")[-1])


def r_plumb(ctx):
    """'Each transmitted fragment fits the configured transmit size': the session's solicited / unsolicited transmit buffer sizes
    (and every other session parameter) come from the like-named configuration field."""
    namesake_plumbing(ctx, ctx.prog, r"^(<)?dnp3::outstation::", 60, "plumbing")
    arg_namesakes(ctx, ctx.prog)


TRANSACTIONAL = [
    # (body that owns the transaction, what its closure must reach, why)
    ("outstation::control::prefix::PrefixWriter::write", r"PrefixWriter<.*>::write_inner$|PrefixWriter::write_inner$", "one echoed control object (index + value + patched count)"),
    ("event::writer::EventWriter::try_write", r"::write$|write_fn", "one event appended to an open header"),
    ("event::writer::EventWriter::start_new_header", r"::write$|write_", "an event header plus its first event"),
    ("range::writer::RangeWriter::start_header", r"::write$|write_", "a static range header plus its first value"),
    ("range::writer::RangeWriter::write_next_value", r"TypeState<.*>::write_next_value$|write_next_value$", "one more value of an open static range"),
]


def r9(ctx):
    """'Each transmitted fragment ... parses cleanly': every multi-write item writer that can run out of transmit buffer half way
    through an object does its writes inside WriteCursor::transaction, so that the fragment that is sent ends on an object boundary."""
    prog = ctx.prog
    for fn_, inner, why in TRANSACTIONAL:
        bd = prog.body(fn_)
        tx = call_sites(bd, r"WriteCursor::transaction$")
        name = "::".join(fn_.split("::")[-2:])
        ctx.check(len(tx) >= 1, "transactional:%s" % name, "%s runs inside a cursor transaction (%s)" % (name, why), bd.where(line=bd.line), bad_detail="%s no longer wraps its writes in WriteCursor::transaction: when the buffer runs out mid-object the partial object stays in the fragment that is sent" % name)
        # nothing is appended to the cursor outside the transaction in the same body
        outside = [c for c in bd.calls() if re.search(inner, c.term.callee or c.term.declared or "") and not is_tracing(c.term.macros)]
        ctx.check(not outside or not tx or all(False for _ in []), "transactional:%s:all-inside" % name, "the item writes happen in the closure handed to the transaction", bd.where(line=bd.line)) if False else None
        if tx:
            kids = prog.children(bd)
            reach = any(call_sites(k, inner) or calls_in_blocks(prog, k, k.live_blocks(), inner) for k in kids) or bool(calls_in_blocks(prog, bd, bd.live_blocks(), inner, follow_closures=True))
            ctx.check(reach, "transactional:%s:closure-writes" % name, "the transaction closure performs the item writes", bd.where(tx[0].idx))
            direct = [c for c in call_sites(bd, inner)]
            ctx.check(not direct, "transactional:%s:no-direct-write" % name, "no item write bypasses the transaction", bd.where(direct[0].idx) if direct else bd.where(line=bd.line), bad_detail="%s calls %s outside the transaction" % (name, short((direct[0].term.callee or "")) if direct else ""))


def r9_attrs(ctx):
    """Device attributes (group 0) selected by a READ: a single attribute is header + type + length + value, written by
    HeaderWriter::write_attribute with one `?` per piece. It runs inside a roll-back scope (the closure handed to Selection::tx /
    WriteCursor::transaction), never directly in Selection::write_all: when the buffer runs out - or the value cannot be encoded - in
    the middle, the pieces already written would otherwise stay in the fragment that is transmitted (F18)."""
    prog = ctx.prog
    wa = prog.body("details::attrs::Selection::write_all")
    direct = call_sites(wa, r"HeaderWriter::write_attribute$")
    inside = []
    for ch in prog.children(wa):
        inside += call_sites(ch, r"HeaderWriter::write_attribute$")
    txs = call_sites(wa, r"attrs::Selection::tx$|WriteCursor::transaction$")
    ctx.check(not direct and bool(inside) and bool(txs), "transactional:Selection::write_all:attribute", "an attribute is written inside a roll-back scope", wa.where(direct[0].idx) if direct else wa.where(line=wa.line), bad_detail="Selection::write_all calls HeaderWriter::write_attribute directly on the response cursor: an attribute cut by the end of the buffer (or whose value cannot be encoded) leaves its first bytes in the transmitted fragment, which then does not parse")
    tb = prog.body("details::attrs::Selection::tx")
    sk = call_sites(tb, r"WriteCursor::seek_to$")
    ctx.check(bool(sk) and all(any(g.kind == "bool" and g.truth is True and mentions_call(g.a, r"::is_err$") or (g.kind == "is" and g.name == "Err") for g in ctx.guards_at(tb, s_.idx)) for s_ in sk), "transactional:Selection::tx:rolls-back", "Selection::tx restores the start position when the closure fails", tb.where(line=tb.line))


def r10(ctx):
    """'Each transmitted fragment ... parses cleanly' (back-patched range stops: C09.R10) and 'every solicited response carries the
    sequence number of the request it answers' (a request that differs only in its sequence number is a NEW request, answered with
    its own sequence number, not an echo of the old response: C05.R2). Shared code."""
    import c09, c05
    c09.r10(ctx)
    c05.r2(ctx)

def r11(ctx):
    """'a request ... of which any object header is rejected is answered with an IIN2 error bit': for a READ deferred during an
    unsolicited confirm wait the rejection is noted at deferral time (DeferredRead::set) and must survive the merge with the IIN2 of
    the selection made when the READ is finally answered."""
    prog = ctx.prog
    mb = prog.body("outstation::deferred::DeferredInfo::merge")
    ms = ctx.sym(mb)
    cs = call_sites(mb, r"DeferredInfo::new$")
    if len(cs) != 1:
        raise AnchorError("DeferredInfo::merge: DeferredInfo::new site")
    e = ms.call_expr(cs[0].term)
    a = e[2][3]
    own = ("field", ("param", "self"), "iin2")
    ok = mentions(a, lambda x: x == own) and mentions_name(a, "iin2") and (mentions(a, lambda x: x[0] == "bin" and x[1] == "BitOr") or mentions_call(a, r"BitOr.*::bitor$|::bitor$"))
    ctx.check(ok, "deferred-merge:iin2-accumulates", "merge: iin2 = %s" % expr_str(a)[:60], mb.where(cs[0].idx), bad_detail="DeferredInfo::merge builds the record with iin2 = `%s`: the rejection noted when the READ was deferred is lost" % expr_str(a)[:60])
    for i, nm in enumerate(("hash", "seq", "info")):
        ctx.check(e[2][i] == ("field", ("param", "self"), nm), "deferred-merge:%s" % nm, "merge keeps self.%s" % nm, mb.where(cs[0].idx))
    sb = prog.body("outstation::deferred::DeferredRead::set")
    ws = [ctx.sym(sb).rvalue_expr(st.rv) for b, si, st in sb.assigns() if st.dest.is_local() and sb.local_name(st.dest.local) == "iin2"]
    ctx.check(any(mentions_constdef(w, r"Iin2::PARAMETER_ERROR$") or mentions_const(w, 4) for w in ws), "deferred-set:notes-rejection", "DeferredRead::set notes PARAMETER_ERROR for a header that cannot be read", sb.where(line=sb.line))
    # ... and for a header that is readable but does not fit the pre-allocated list (documented: "Requesting more than this number
    # will result in the PARAMETER_ERROR IIN bit being set"; the same READ from idle is answered with it) - F19
    ss = ctx.sym(sb)
    pushes = call_sites(sb, r"Vec<.*>::push$|vec::Vec::push$")
    if len(pushes) != 1:
        raise AnchorError("DeferredRead::set: push sites %d" % len(pushes))
    cap = [g for g in ctx.guards_at(sb, pushes[0].idx) if g.kind == "rel" and g.op in ("Lt", "Le", "Ne") and (mentions_call(g.a, r"::capacity$") or mentions_call(g.b, r"::capacity$")) and g.edge]
    ctx.check(len(cap) == 1, "deferred-set:capacity-test", "the header is stored only while the list has room", sb.where(pushes[0].idx))
    for g in cap:
        S = g.edge[0]
        full = [t for t in sb.succs(S) if t != g.edge[1]]
        noted = False
        for t in full:
            reg = sb.region_of_edge((S, t))
            for b_ in reg:
                blk = sb.blocks[b_]
                for st in blk.stmts:
                    if st.kind == "assign" and st.dest.is_local() and sb.local_name(st.dest.local) == "iin2" and (mentions_constdef(ss.rvalue_expr(st.rv), r"Iin2::PARAMETER_ERROR$") or mentions_const(ss.rvalue_expr(st.rv), 4)):
                        noted = True
                if blk.term.kind == "call" and re.search(r"bitor_assign$|::bitor$", blk.term.callee or "") and (mentions_constdef(ss.call_expr(blk.term), r"Iin2::PARAMETER_ERROR$") or mentions_const(ss.call_expr(blk.term), 4)):
                    noted = True
        ctx.check(noted, "deferred-set:overflow-noted", "a header beyond the capacity is reported with PARAMETER_ERROR", sb.where(S), bad_detail="DeferredRead::set drops a readable header that does not fit its list with a log message only: the deferred READ is answered with a clean IIN2 although part of it was not processed")

RULES = [
    ("C12.R1", "T8/T11", "sequence/UNS/FIR/FIN/CON provenance of every response header", r1),
    ("C12.R2", "T4", "no-response function codes and CONFIRM produce no response; all others do", r2),
    ("C12.R3", "T4-total", "every rejection maps to a non-zero IIN2", r3),
    ("C12.R4", "T7", "per-header status accumulators are never overwritten", r4),
    ("C12.R5", "T5/T8", "transmitted slices and cursors come from the tx buffers", r5),
    ("C12.R6", "T1-link", "no WriteError unwrap on response-building paths", r6),
    ("C12.R7", "T4/T2-region", "no request is swallowed: confirm waits end on / answer every fragment that needs a reply", r7),
    ("C12.R8", "T8-namesake", "session parameters (transmit buffer sizes, limits) are plumbed from the like-named configuration field", r_plumb),
    ("C12.R9", "T3", "item writers that can overflow the transmit buffer mid-object are transactional", lambda ctx: (r9(ctx), r9_attrs(ctx))),
    ("C12.R10", "T3/T2", "fragments cut by a full buffer stay parseable (C09.R10); a repeat is recognised by sequence AND digest (C05.R2)", r10),
    ("C12.R11", "T7", "the IIN2 recorded when a READ is deferred is OR-ed with the IIN2 of its later selection", r11),
]


def r12(ctx):
    """'replies are ... correlated': every solicited reply (response, error reply, echo) is addressed to the sender of the request in
    hand - the address argument derives from the popped request / the stored deferred READ / what the confirm wait handed back, never
    from the session's configured destination (which is where UNSOLICITED responses go, and differs from the requester whenever
    respond_to_any_master is enabled)."""
    prog = ctx.prog
    SRC = r"RequestGuard::get$|DeferredRead::select$|OutstationSession::wait_for_sol_confirm$|OutstationSession::expect_sol_confirm$"
    ARG = {"write_solicited": 3, "repeat_solicited": 2, "write_error_response": 2}
    n = 0
    for bd in prog.bodies_matching(r"^dnp3::outstation::session::OutstationSession::"):
        if "::tests::" in bd.path:
            continue
        sym = None
        for b in call_sites(bd, r"OutstationSession::(write_solicited|repeat_solicited|write_error_response)$"):
            sym = sym or ctx.sym(bd)
            e = sym.call_expr(b.term)
            fn_ = b.term.callee.split("::")[-1]
            a = e[2][ARG[fn_]]
            n += 1
            fwd = a[0] in ("param", "capture") or (a[0] == "field" and a[1][0] in ("param", "capture") and a[1][1] in ("info", "respond_to"))
            ok = (fwd or mentions_call(a, SRC)) and not mentions_field(a, "destination") and not mentions_field(a, "config")
            ctx.check(ok, "reply-to-requester@%s:%s" % (short(bd.path).replace("::{closure#0}", "").split("::")[-1], fn_), "%s is addressed to %s" % (fn_, expr_str(a)[:70]), bd.where(b.idx), bad_detail="%s is addressed to `%s`, not to the sender of the request it answers" % (fn_, expr_str(a)[:80]))
    if n < 10:
        raise AnchorError("solicited reply sites: %d" % n)


RULES.append(("C12.R12", "T8", "every solicited reply is addressed to the sender of the request it answers", r12))


def r13(ctx):
    """'every solicited response carries the sequence number of the request it answers' - once: a deferred READ is released when it
    has been answered, else it is answered again from idle with the old request's sequence number, tied to no request (C14.R7,
    shared code). 'a request ... of which any object header is rejected is answered with an IIN2 error bit': an identifier that does
    not fit the type it is converted to is rejected, not wrapped - narrowing casts on the request path are range-guarded or listed
    (C10.R1 for the database, C09.R16 for the codecs; shared code)."""
    import c14, c10, c09
    c14.r7(ctx)
    c10.r1(ctx)
    c09.r16(ctx)


RULES.append(("C12.R13", "T2-region/T1-census", "a deferred READ is answered once (C14.R7); identifiers in requests are not narrowed silently (C10.R1, C09.R16)", r13))
