"""C04 — OPERATE actuates only after its own matching, fresh, directly preceding SELECT."""
from engine import *
from mir import *

EXPLANATION = (
    "Static rules over the resolved pre-coroutine-transform MIR of crate dnp3 (non-test build): every conjunct of the "
    "SELECT/OPERATE match dominates the Ok return of SelectState::match_operate; the only route to ControlTransaction::execute "
    "with OperateType::SelectBeforeOperate is dominated by `state.select is Some` and `match_operate(..) is Ok`; the recorded and "
    "compared hash/seq/frame id derive from the request in hand; SessionState::select has exactly three writers (new/reset: None, "
    "handle_select: Some under Ok(Success)); update_frame_id is only called in a RepeatNonRead arm; every exit of "
    "OutstationSession::run passes SessionState::reset; the fragment id counts every assembled fragment."
)
ASSUMPTIONS = [
    "decides the structural clauses only: hash-collision freedom and 'executed exactly once' are not decided",
    "rustc MIR construction and callee resolution are trusted",
    "cancellation of the session future at an await point is not modelled",
]
TRUSTED = ["rustc nightly MIR + Instance::try_resolve", "facts driver (/verif/driver)", "rules/mir.py dominance + symbolic expression builder"]

FIELD_PARAM = {"seq": "seq", "frame_id": "frame_id", "object_hash": "object_hash", "time": "timeout"}


def r1(ctx):
    prog = ctx.prog
    body = prog.body("SelectState::match_operate")
    sym = ctx.sym(body)
    adt = prog.adt("outstation::control::select::SelectState")
    fields = [f[0] for f in adt["variants"][0]["fields"]]
    oks = ret_sites(body, sym, lambda e: is_agg(e, r"result::Result$", "Ok"))
    if not oks:
        raise AnchorError("no `Ok` return in match_operate")
    for b, si, st, e in oks:
        reqs = []
        for f in fields:
            if f not in FIELD_PARAM:
                reqs.append(("field `%s` of SelectState is compared" % f, lambda g, f=f: g.kind in ("rel", "is") and any(mentions_field(x, f) for x in g.exprs())))
                continue
            p = FIELD_PARAM[f]
            if f == "seq":
                reqs.append(("Eq(next(self.seq), seq)", g_rel("Eq", lambda x: mentions_field(x, "seq") and mentions_call(x, r"Sequence::next$|wrapping_add|::increment$"), "seq")))
            elif f == "frame_id":
                reqs.append(("Eq(self.frame_id + 1, frame_id)", g_rel("Eq", lambda x: mentions_field(x, "frame_id") and (mentions_call(x, r"wrapping_add$") or mentions(x, lambda s: s[0] == "bin" and s[1] in ("Add", "AddWithOverflow"))) and mentions_const(x, 1), lambda x: mentions_name(x, "frame_id") and not mentions_field(x, "frame_id"))))
            elif f == "object_hash":
                reqs.append(("Eq(self.object_hash, object_hash)", g_rel("Eq", lambda x: mentions_field(x, "object_hash"), lambda x: mentions_name(x, "object_hash") and not mentions_field(x, "object_hash"))))
            elif f == "time":
                reqs.append(("elapsed since self.time is Some", g_is(lambda x: mentions_field(x, "time") and mentions_call(x, r"checked_duration_since$"), "Some")))
                # an OPERATE arriving exactly `timeout` after the SELECT is still within it: only elapsed > timeout is a TIMEOUT
                reqs.append(("elapsed(self.time) <= timeout", g_rel("Le", lambda x: mentions_field(x, "time"), lambda x: mentions_name(x, "timeout"))))
        ctx.require_guards(body, b.idx, reqs, "match_operate:Ok", "`Ok(())` return of match_operate")
    # every other return is an Err
    for b, si, st, e in ret_sites(body, sym):
        if not is_agg(e, r"result::Result$") and not (e[0] == "call" and (e[1] or "").endswith("from_residual")):
            ctx.bad("match_operate:ret-shape", "return value is not a Result aggregate: %s" % expr_str(e), body.where(b.idx))


ACTUATORS = r"ControlTransaction.*::execute$|::operate_with_response$|::operate_no_ack$|ControlSupport.*::operate$|ControlHandler"


def r2(ctx):
    prog = ctx.prog
    body = prog.abody("OutstationSession::handle_operate")
    sym = ctx.sym(body)
    sites = []  # (block, what)
    for b in call_sites(body, ACTUATORS):
        sites.append((b.idx, "call %s" % short(b.term.callee)))
    for b, si, st in body.assigns():
        if st.rv["k"] == "agg" and st.rv.get("def"):
            child = prog.bodies.get(st.rv["def"])
            if child is not None and call_sites(child, ACTUATORS):
                sites.append((b.idx, "closure reaching %s" % ", ".join(sorted({short(x.term.callee) for x in call_sites(child, ACTUATORS)}))))
    if not sites:
        raise AnchorError("no actuation site in handle_operate")
    mo = lambda x: mentions_call(x, r"SelectState::match_operate$")
    for blk, what in sites:
        ctx.require_guards(
            body,
            blk,
            [
                ("state.select is Some", g_is(lambda x: mentions_field(x, "select") and not mo(x), "Some")),
                ("match_operate(..) is Ok", g_is(mo, "Ok")),
            ],
            "handle_operate:%s" % what,
            what,
        )
    # the match_operate call is fed from the request in hand and the stored select
    for b in call_sites(body, r"SelectState::match_operate$"):
        e = sym.call_expr(b.term)
        args = e[2]
        ctx.check(len(args) == 5 and mentions_field(args[0], "select"), "match_operate:self", "receiver is state.select payload: %s" % expr_str(args[0]), body.where(b.idx))
        ctx.check(mentions_field(args[1], "select_timeout"), "match_operate:timeout", "timeout argument is config.select_timeout: %s" % expr_str(args[1]), body.where(b.idx))
        ctx.check(args[2] == ("capture", "seq") or args[2] == ("param", "seq"), "match_operate:seq", "seq argument is the request's seq: %s" % expr_str(args[2]), body.where(b.idx))
        ctx.check(args[3] in (("capture", "frame_id"), ("param", "frame_id")), "match_operate:frame_id", "frame_id argument: %s" % expr_str(args[3]), body.where(b.idx))
        ctx.check(args[4][0] == "call" and args[4][1].endswith("ControlCollection::hash") or mentions_call(args[4], r"ControlCollection.*::hash$") and mentions_name(args[4], "controls"), "match_operate:hash", "hash argument is controls.hash(): %s" % expr_str(args[4]), body.where(b.idx))
    # census: SelectBeforeOperate is constructed nowhere else on an execution path
    n = 0
    for bd in prog.bodies.values():
        if "::tests::" in bd.path:
            continue
        for b, si, st in agg_sites(bd, r"OperateType$", "SelectBeforeOperate"):
            n += 1
            inside = bd.path.startswith(prog.body("OutstationSession::handle_operate").path)
            ctx.check(inside, "SelectBeforeOperate@%s" % short(bd.path), "OperateType::SelectBeforeOperate constructed in %s" % bd.path, bd.where(b.idx))
    if n == 0:
        raise AnchorError("OperateType::SelectBeforeOperate never constructed")


def r3(ctx):
    prog = ctx.prog
    body = prog.abody("OutstationSession::handle_select")
    sym = ctx.sym(body)
    news = call_sites(body, r"SelectState::new$")
    if len(news) != 1:
        raise AnchorError("expected one SelectState::new in handle_select, found %d" % len(news))
    e = sym.call_expr(news[0].term)
    a = e[2]
    w = body.where(news[0].idx)
    ctx.check(a[0] in (("capture", "seq"), ("param", "seq")), "select:new:seq", "recorded seq is the request's: %s" % expr_str(a[0]), w)
    ctx.check(a[1] in (("capture", "frame_id"), ("param", "frame_id")), "select:new:frame_id", "recorded frame id is the request's: %s" % expr_str(a[1]), w)
    ctx.check(mentions_call(a[2], r"Instant::now$"), "select:new:time", "recorded time is now(): %s" % expr_str(a[2]), w)
    ctx.check(mentions_call(a[3], r"ControlCollection.*::hash$") and mentions_name(a[3], "controls"), "select:new:hash", "recorded hash is controls.hash(): %s" % expr_str(a[3]), w)
    # SelectState::new stores its arguments in the namesake fields
    nb = prog.body("SelectState::new")
    ns = ctx.sym(nb)
    for b, si, st, e in ret_sites(nb, ns):
        if e[0] == "agg":
            for fname, fe in e[3]:
                ctx.check(fe == ("param", fname), "SelectState::new:%s" % fname, "field %s <- %s" % (fname, expr_str(fe)), nb.where(b.idx))
    # frame id provenance: handle_non_read's frame_id argument is FragmentInfo.id at every call site
    for caller in ("OutstationSession::process_request_from_idle", "OutstationSession::wait_for_unsolicited_confirm"):
        cb = prog.abody(caller)
        cs = ctx.sym(cb)
        hits = call_sites(cb, r"OutstationSession::handle_non_read$")
        if not hits:
            raise AnchorError("no handle_non_read call in %s" % caller)
        for b in hits:
            e = cs.call_expr(b.term)
            ctx.check(mentions_field(e[2][4], "id") and (mentions_name(e[2][4], "info") or mentions_call(e[2][4], r"RequestGuard.*::get$")), "frame_id-src@%s" % caller.split("::")[-1], "frame_id argument = %s" % expr_str(e[2][4]), cb.where(b.idx))
    # handle_controls / handle_non_read forward seq and frame_id unchanged
    for fn_, callee in (("OutstationSession::handle_non_read", r"OutstationSession::handle_controls$"), ("OutstationSession::handle_controls", r"OutstationSession::handle_(select|operate)$")):
        fb = prog.abody(fn_)
        fs = ctx.sym(fb)
        for b in call_sites(fb, callee):
            e = fs.call_expr(b.term)
            names = [x[1] if x[0] in ("capture", "param") else None for x in e[2]]
            ctx.check("seq" in names and "frame_id" in names, "forward@%s->%s" % (fn_.split("::")[-1], short(b.term.callee)), "arguments %s" % [expr_str(x) for x in e[2]], fb.where(b.idx))


def r4(ctx):
    prog = ctx.prog
    writers = {}
    for bd in prog.bodies.values():
        for b, si, st in field_writes(bd, "select"):
            if st.dest.ty and "SelectState" in st.dest.ty:
                writers.setdefault(bd.path, []).append((bd, b, st))
    allowed = {
        prog.body("SessionState::reset").path: "None",
        prog.abody("OutstationSession::handle_select").path: "Some",
    }
    for path, lst in writers.items():
        for bd, b, st in lst:
            sym = ctx.sym(bd)
            e = sym.rvalue_expr(st.rv)
            if path not in allowed:
                ctx.bad("select-writer@%s" % short(path), "unexpected writer of SessionState::select: %s" % expr_str(e), bd.where(b.idx))
                continue
            want = allowed[path]
            ok = e[0] == "agg" and e[2] == want
            ctx.check(ok, "select-writer@%s" % short(path), "writes %s" % expr_str(e), bd.where(b.idx))
            if want == "Some":
                tx = lambda x: mentions_call(x, r"ControlTransaction.*::execute$")
                ctx.require_guards(bd, b.idx, [("transaction result is Ok", g_is(tx, "Ok")), ("status is Success", g_is(tx, "Success"))], "select-record", "recording the select")
    for need in allowed:
        if need not in writers:
            ctx.bad("select-writer-missing@%s" % short(need), "expected writer of SessionState::select not found")
    # constructor initialises to None
    nb = prog.body("SessionState::new")
    ns = ctx.sym(nb)
    found = False
    for b, si, st in agg_sites(nb, r"session::SessionState$"):
        e = ns.rvalue_expr(st.rv)
        f = agg_field(e, "select")
        found = True
        ctx.check(f is not None and f[0] == "agg" and f[2] == "None", "select-init", "SessionState::new select = %s" % expr_str(f), nb.where(b.idx))
    if not found:
        raise AnchorError("SessionState aggregate not found in SessionState::new")
    # update_frame_id callers
    cg = prog.callgraph
    callers = cg.callers_of(lambda c: c.endswith("SelectState::update_frame_id"))
    if not callers:
        raise AnchorError("update_frame_id has no callers")
    for path, blk, callee, how in callers:
        bd = prog.bodies[path]
        ok = path == prog.abody("OutstationSession::process_request_from_idle").path
        ctx.check(ok, "update_frame_id-caller@%s" % short(path), "caller %s" % path, bd.where(blk))
        if ok:
            ctx.require_guards(bd, blk, [("classify(..) is RepeatNonRead", g_is(lambda x: mentions_call(x, r"OutstationSession::classify$"), "RepeatNonRead"))], "update_frame_id", "update_frame_id call")
    # update_frame_id only touches frame_id
    ub = prog.body("SelectState::update_frame_id")
    ws = [st for b, si, st in ub.assigns() if st.dest.proj and st.dest.proj[-1].startswith(".")]
    # ...and only when the retransmission directly follows the SELECT (frame_id + 1 == new id): a retransmission of some OTHER request
    # that came in between must not make the stale SELECT look "directly preceding" again (F: 15eb43b)
    for b_, si_, st_ in field_writes(ub, "frame_id"):
        ctx.require_guards(ub, b_.idx, [("frame_id + 1 == new_frame_id", g_rel("Eq", lambda x: mentions_field(x, "frame_id") and (mentions_const(x, 1) or mentions_call(x, r"wrapping_add$|checked_add$")), lambda x: x in (("param", "new_frame_id"),) or mentions_name(x, "new_frame_id")))], "update_frame_id:adjacent-only", "refreshing SelectState::frame_id")
    ctx.check([w.dest.proj[-1] for w in ws] == [".frame_id"], "update_frame_id-body", "fields written: %s" % [w.dest.proj[-1] for w in ws], ub.where(line=ub.line))


def r5(ctx):
    prog = ctx.prog
    body = prog.abody("OutstationSession::run")
    resets = [b.idx for b in call_sites(body, r"SessionState::reset$")]
    if not resets:
        ctx.bad("run:reset", "OutstationSession::run never calls SessionState::reset", body.where(line=body.line))
        return
    rets = [b.idx for b in body.blocks if b.term.kind == "return" and b.idx in body.live_blocks()]
    for r in rets:
        reach = body.can_reach(0, r, removed_blocks=resets)
        ctx.check(not reach, "run:exit-passes-reset", "every normal path to the return of OutstationSession::run passes SessionState::reset", body.where(r), bad_detail="a path reaches the return of OutstationSession::run without SessionState::reset")
    # reset clears select
    rb = prog.body("SessionState::reset")
    ok = any(True for b, si, st in field_writes(rb, "select") if rb.block_dominates(b.idx, [x.idx for x in rb.blocks if x.term.kind == "return" and x.idx in rb.live_blocks()][0]))
    ctx.check(ok, "reset:clears-select", "SessionState::reset assigns select on every path", rb.where(line=rb.line))


def r6(ctx):
    prog = ctx.prog
    # FragmentInfo.id derives from the assembler's frame counter, which is bumped once per completed fragment
    writers = []
    for bd in prog.bodies.values():
        if "::transport::real::assembler" not in bd.path and "Assembler" not in bd.path:
            continue
        for b, si, st in field_writes(bd, "frame_id"):
            writers.append((bd, b, st))
    if not writers:
        raise AnchorError("no writer of Assembler::frame_id")
    for bd, b, st in writers:
        e = ctx.sym(bd).rvalue_expr(st.rv)
        ok = bd.path.endswith("Assembler::append") and mentions_call(e, r"wrapping_add$") and mentions_const(e, 1) and mentions_field(e, "frame_id")
        ctx.check(ok, "frame_id-writer@%s" % short(bd.path), "frame_id <- %s" % expr_str(e), bd.where(b.idx))
    ab = prog.body("Assembler::append")
    asym = ctx.sym(ab)
    # the counter is bumped exactly where the state becomes Complete
    comp = agg_sites(ab, r"InternalState$", "Complete")
    for b, si, st in comp:
        wblocks = [w[1].idx for w in writers if w[0] is ab]
        ctx.check(any(ab.block_dominates(wb, b.idx) or ab.block_dominates(b.idx, wb) for wb in wblocks), "frame_id-per-fragment", "frame counter bump and `Complete` are on the same path", ab.where(b.idx))
    if not comp:
        raise AnchorError("InternalState::Complete not constructed in Assembler::append")
    # FragmentInfo::new(id, ..) takes self.frame_id
    n = 0
    for bd in prog.bodies_matching(r"transport::real::assembler::Assembler"):
        for b in call_sites(bd, r"FragmentInfo::new$"):
            e = ctx.sym(bd).call_expr(b.term)
            n += 1
            ctx.check(mentions_field(e[2][0], "frame_id"), "FragmentInfo.id-src@%s" % short(bd.path), "FragmentInfo::new(id = %s, ..)" % expr_str(e[2][0]), bd.where(b.idx))
    if n == 0:
        raise AnchorError("FragmentInfo::new not called from the assembler")


def one_body(prog, rx):
    m = [b for b in prog.bodies_matching(rx) if "::tests::" not in b.path]
    if len(m) != 1:
        raise AnchorError("body anchor %r matched %d bodies" % (rx, len(m)))
    return m[0]


def r7(ctx):
    """A SELECT arms the OPERATE only when its overall status is Success (R4): that status is the fold, by first_error, of the
    status answered for EVERY object and every header -- an object answered with an error that is not folded in would let a
    partly rejected SELECT arm the OPERATE."""
    prog = ctx.prog

    def accumulator(bd, sym, key):
        # the returned Ok(acc): acc is written only as Success (initially) and by first_error(acc, _)
        rets = [(b, e) for b, si, st, e in ret_sites(bd, sym) if e[0] == "agg" and e[2] == "Ok"]
        if len(rets) != 1:
            raise AnchorError("%s: expected one Ok(..) return, found %d" % (bd.path, len(rets)))
        acc = agg_field(rets[0][1], "0")
        ctx.check(acc[0] == "var", key + ":returns-accumulator", "returns Ok(%s)" % expr_str(acc), bd.where(rets[0][0].idx))
        if acc[0] != "var":
            return None
        locs = bd.local_by_name(acc[1])
        for l in locs:
            for blk, si in bd.defs.get(l, []):
                if blk not in bd.live_blocks():
                    continue
                if si == "term":
                    e = sym.call_expr(bd.blocks[blk].term)
                    ok = e[0] == "call" and (e[1] or "").endswith("first_error") and e[2][0] == acc
                else:
                    e = sym.rvalue_expr(bd.blocks[blk].stmts[si].rv)
                    ok = (e[0] == "agg" and e[2] == "Success") or (e[0] == "call" and (e[1] or "").endswith("first_error") and e[2][0] == acc)
                ctx.check(ok, key + ":accumulator-writes", "%s = %s" % (acc[1], expr_str(e)[:100]), bd.where(blk), bad_detail="the status accumulator is overwritten by %s" % expr_str(e)[:120])
        return acc

    for fn_ in ("collection::select_header_with_response", "collection::operate_header_with_response"):
        bd = prog.body(fn_)
        sym = ctx.sym(bd)
        name = fn_.split("::")[-1]
        nexts = call_sites(bd, r"::next$")
        ws = call_sites(bd, r"ControlType::with_status$")
        fe = call_sites(bd, r"CommandStatus::first_error$|extensions::first_error$|::first_error$")
        if len(nexts) != 1 or not ws or not fe:
            raise AnchorError("%s: loop head/with_status/first_error not found (%d/%d/%d)" % (fn_, len(nexts), len(ws), len(fe)))
        acc = accumulator(bd, sym, name)
        for i, w in enumerate(ws):
            S = sym.call_expr(w.term)[2][1]
            through = {f.idx for f in fe if sym.call_expr(f.term)[2][1] == S and (acc is None or sym.call_expr(f.term)[2][0] == acc)}
            # within one iteration: folded after the answer is written, or already before it
            ok = bool(through) and (must_pass(bd, w.idx, nexts[0].idx, through) or must_pass(bd, bd.cfg[0][nexts[0].idx][0], w.idx, through))
            ctx.check(ok, "%s:answered-status-folded#%d" % (name, i + 1), "the status answered (%s) is folded into the returned status before the next object" % expr_str(S)[:80], bd.where(w.idx), bad_detail="an object is answered with status %s that is not folded into the returned status: the request as a whole can still report Success" % expr_str(S)[:80])
    for fn_, callee in (("ControlCollection::select_with_response", r"ControlHeader::select_with_response$"), ("ControlCollection::operate_with_response", r"ControlHeader::operate_with_response$")):
        bd = prog.body(fn_)
        sym = ctx.sym(bd)
        name = "collection." + fn_.split("::")[-1]
        nexts = call_sites(bd, r"::next$")
        hs = call_sites(bd, callee)
        fe = call_sites(bd, r"::first_error$")
        if len(nexts) != 1 or len(hs) != 1 or not fe:
            raise AnchorError("%s: loop head/header call/first_error not found" % fn_)
        acc = accumulator(bd, sym, name)
        through = {f.idx for f in fe if mentions_call(sym.call_expr(f.term)[2][1], callee) and (acc is None or sym.call_expr(f.term)[2][0] == acc)}
        ok = bool(through) and must_pass(bd, hs[0].idx, nexts[0].idx, through)
        ctx.check(ok, name + ":header-status-folded", "every header's status is folded into the returned status", bd.where(hs[0].idx))
    # first_error keeps the first non-success
    fb = one_body(prog, r"CommandStatus>::first_error$")
    fs = ctx.sym(fb)
    issucc = lambda x: mentions(x, lambda s_: s_[0] == "agg" and s_[2] == "Success")
    succ = lambda t: g_any(g_bool(lambda x: mentions_call(x, r"is_success$"), t), g_rel("Eq" if t else "Ne", ("param", "self"), issucc))
    n = 0
    for b, si, st, e in ret_sites(fb, fs):
        n += 1
        if e == ("param", "other"):
            ctx.require_guards(fb, b.idx, [("self.is_success()", succ(True))], "first_error:other", "returning `other`")
        else:
            ctx.check(mentions(e, lambda s_: s_ == ("param", "self")), "first_error:self", "returns %s" % expr_str(e), fb.where(b.idx))
            ctx.require_guards(fb, b.idx, [("!self.is_success()", succ(False))], "first_error:self", "returning `self`")
    ctx.check(n == 2, "first_error:shape", "first_error has two results", fb.where(line=fb.line))
    ib = one_body(prog, r"CommandStatus>::is_success$")
    es = [e for b, si, st, e in ret_sites(ib, ctx.sym(ib))]
    ok = len(es) == 1 and mentions(es[0], lambda s_: s_[0] == "agg" and s_[2] == "Success") and mentions(es[0], lambda s_: s_ == ("param", "self"))
    ctx.check(ok, "is_success", "is_success = %s" % (expr_str(es[0]) if es else "?"), ib.where(line=ib.line))


def r_plumb(ctx):
    namesake_plumbing(ctx, ctx.prog, r"^(<)?dnp3::outstation::", 60, "plumbing")
    arg_namesakes(ctx, ctx.prog)


def r9(ctx):
    """'...and no reconnect intervened': see engine.session_start_resets."""
    session_start_resets(ctx)

def r10(ctx):
    """The one exception of 'immediately preceding' - a retransmission of the SELECT itself - is recognised by comparing the incoming
    fragment with the LAST VALID REQUEST. A request that is executed but not recorded (so an older one is still 'last') makes the
    retransmission of that older request look like a repeat that directly follows the SELECT. Recording is rule C05.R6 (shared)."""
    import c05
    c05.r6(ctx)

def r11(ctx):
    """A SELECT (or OPERATE) whose echo outgrows the response buffer is abandoned as a whole: in the per-object loops of
    control::collection a failed echo write leaves the function through `?` (WriteError), so the caller never records a SELECT for a
    request whose objects were only partly selected, and an OPERATE never actuates objects beyond the point where its echo stopped.
    Swallowing the error in one of the two loops is harmless alone; in both it actuates objects that were never selected."""
    prog = ctx.prog
    n = 0
    for bd in prog.bodies_matching(r"^dnp3::outstation::control::collection::"):
        if "::test" in bd.path:
            continue
        sym = ctx.sym(bd)
        for c in call_sites(bd, r"PrefixWriter<.*>::write$|PrefixWriter::write$"):
            n += 1
            d = c.term.d["d"]
            # the Result goes straight into `?`
            nxt = bd.blocks[c.term.d["t"]] if c.term.d.get("t") is not None else None
            q = nxt is not None and nxt.term.kind == "call" and ((nxt.term.d.get("f") or "").endswith("Try::branch") or (nxt.term.d.get("r") or "").endswith("::Try>::branch")) and nxt.term.args and not nxt.term.args[0].is_const() and nxt.term.args[0].place.local == d.local
            ctx.check(q, "echo-write-propagates@%s#%d" % (short(bd.path), n), "a failed echo write leaves %s through `?`" % short(bd.path), bd.where(c.idx), bad_detail="%s does not propagate a failed echo write (PrefixWriter::write): the loop goes on or ends quietly, so the request counts as processed although its echo (and, for SELECT, its selection) is incomplete" % short(bd.path))
    if n < 3:
        raise AnchorError("PrefixWriter::write sites in control::collection: %d" % n)


RULES = [
    ("C04.R1", "T2", "every SelectState field is tested on the way to match_operate's Ok", r1),
    ("C04.R2", "T2", "actuation in handle_operate only under select is Some and match_operate is Ok", r2),
    ("C04.R3", "T8", "recorded/compared seq, frame id, hash derive from the request in hand", r3),
    ("C04.R4", "T2+T5", "writers of SessionState::select; update_frame_id only on RepeatNonRead", r4),
    ("C04.R5", "T3", "every exit of OutstationSession::run passes SessionState::reset", r5),
    ("C04.R6", "T5/T8", "fragment id counts every assembled fragment", r6),
    ("C04.R7", "T7", "the status that arms OPERATE folds the status answered for every object and header", r7),
    ("C04.R8", "T8-namesake", "the outstation's configuration and session state are plumbed field-to-namesake (select_timeout, confirm_timeout, ...)", r_plumb),
    ("C04.R9", "T2", "per-session state is reset before a session's first await (a pre-empted session is dropped without clean-up)", r9),
    ("C04.R10", "T8/T3", "every executed request is recorded as the last valid request (shared with C05.R6): the frame-id refresh relies on it", r10),
    ("C04.R11", "T3", "a failed control echo aborts the header through WriteError in every per-object loop", r11),
]


def r12(ctx):
    """'the next sequence number': what match_operate compares with is Sequence::next() - the 4-bit successor (shared code)."""
    app_sequence_wrap(ctx)


RULES.append(("C04.R12", "T11/T2", "the application sequence number is a 4-bit counter wrapping 15 -> 0 (next / increment / new)", r12))
