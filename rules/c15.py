"""C15 — a master accepts only the answer to its question and confirms what it accepts."""
from engine import *
from mir import *

EXPLANATION = (
    "Both acceptance predicates of the master (non-READ: validate_non_read_response; READ: process_read_response) are dominated, on the "
    "accepting path, by every conjunct: solicited function, source == addressed outstation, sequence equality, FIR/FIN shape (FIR&FIN; "
    "FIR iff first, FIN or CON), no IIN2 rejection, objects parsed. Sibling rule: every body that accepts a solicited response tests "
    "control.con and reaches confirm_solicited with the matched sequence number; unsolicited confirmation uses the response's own sequence "
    "under valid && con; confirm_* set the UNS bit accordingly. A repeated unsolicited fragment (same header and object digest) is confirmed "
    "but not extracted. Response-shape validation (to_response). Multi-fragment reads take the next sequence number and clear is_first; "
    "begin/end_fragment bracket extraction. Transport errors end the task with an error."
)
ASSUMPTIONS = ["'exactly once, in wire order' over streams of fragments and silence handling are not decided"]
TRUSTED = ["rustc nightly MIR", "facts driver", "rules/mir.py"]

RESP = lambda x: mentions_name(x, "response")
_FN = lambda x: RESP(x) and mentions_field(x, "function") and not mentions(x, lambda s: s[0] == "call")
# "this fragment is a solicited response": is_unsolicited() == false, or the equivalent variant test on header.function
UNSOL = g_any(g_bool(lambda x: mentions_call(x, r"ResponseFunction::is_unsolicited$") and RESP(x), False), g_is(_FN, "Response"), lambda g: g.kind == "isnot" and _FN(g.a) and "UnsolicitedResponse" in g.name)
SRC = g_rel("Eq", lambda x: mentions_name(x, "source") and mentions_field(x, "link"), lambda x: mentions_name(x, "destination") and mentions_field(x, "link"))
def _expected(name):
    """The caller-supplied expectation `name`: the parameter itself, or that field of a parameter that bundles the expectations."""
    return lambda x: x in (("capture", name), ("param", name)) or (x[0] == "field" and x[2] == name and x[1][0] in ("capture", "param") and x[1][1] != "response")


SEQ = g_rel("Eq", lambda x: RESP(x) and mentions_field(x, "seq"), _expected("seq"))
IIN = g_bool(lambda x: mentions_call(x, r"Iin::has_bad_request_error$") and RESP(x), False)


def r1(ctx):
    prog = ctx.prog
    bd = prog.abody("master::task::MasterSession::validate_non_read_response")
    sym = ctx.sym(bd)
    acc = [(b, e) for b, si, st, e in ret_sites(bd, sym) if e[0] == "agg" and e[2] == "Ok" and variant_name(agg_field(e, "0")) == "Some"]
    if len(acc) != 1:
        raise AnchorError("validate_non_read_response: accepting return")
    b, e = acc[0]
    ctx.require_guards(bd, b.idx, [
        ("not unsolicited", UNSOL),
        ("source.link == destination.link", SRC),
        ("seq matches", SEQ),
        ("FIR and FIN", g_bool(lambda x: mentions_call(x, r"ControlField::is_fir_and_fin$") and RESP(x), True)),
        ("no IIN2 rejection", IIN),
    ], "non-read:accept", "Ok(Some(response))")
    ctx.check(mentions_name(agg_field(agg_field(e, "0"), "0"), "response"), "non-read:accept:value", "the accepted value is the response in hand", bd.where(b.idx))
    # rejections: stale / foreign -> Ok(None) (keep waiting); malformed -> Err
    for blk, si, st, ev in ret_sites(bd, sym):
        if ev[0] == "agg" and ev[2] == "Err":
            gs = ctx.guards_at(bd, blk.idx)
            ctx.check(any(UNSOL(g) for g in gs) and any(SRC(g) for g in gs) and any(SEQ(g) for g in gs), "non-read:Err-after-correlation", "task-failing errors are raised only for the correlated response", bd.where(blk.idx))


def r2(ctx):
    prog = ctx.prog
    bd = prog.abody("master::task::MasterSession::process_read_response")
    sym = ctx.sym(bd)
    pr = call_sites(bd, r"ReadTask::process_response$")
    if len(pr) != 1:
        raise AnchorError("process_read_response: process_response call")
    first = _expected("is_first")
    fld = lambda f: (lambda x: x[0] == "field" and x[2] == f and RESP(x))
    # the two FIR tests are `fir && !is_first` -> Err and `!fir && is_first` -> Err; on the accepting path their negations hold
    ctx.require_guards(bd, pr[0].idx, [
        ("not unsolicited", UNSOL),
        ("source.link == destination.link", SRC),
        ("seq matches", SEQ),
        ("no IIN2 rejection", IIN),
        ("objects parsed (?)", g_is(lambda x: mentions_field(x, "objects") and RESP(x), "Continue")),
    ], "read:accept", "ReadTask::process_response")
    gi = ctx.gi(bd)
    # FIR/first consistency and FIN-or-CON: the Err returns exist and carry the namesake error under the right edges
    errs = {}
    for b, si, st, e in ret_sites(bd, sym):
        if e[0] == "agg" and e[2] == "Err":
            v = variant_name(agg_field(e, "0"))
            errs[v] = b
    want = {
        "UnexpectedFir": [("fir", g_bool(fld("fir"), True)), ("!is_first", g_bool(first, False))],
        "NeverReceivedFir": [("!fir", g_bool(fld("fir"), False)), ("is_first", g_bool(first, True))],
        "NonFinWithoutCon": [("!fin", g_bool(fld("fin"), False)), ("!con", g_bool(fld("con"), False))],
    }
    for v, reqs in want.items():
        if v not in errs:
            ctx.bad("read:%s:missing" % v, "process_read_response never returns TaskError::%s" % v, bd.where(line=bd.line))
            continue
        ctx.require_guards(bd, errs[v].idx, reqs, "read:%s" % v, "Err(%s)" % v)
        # the accepting call is not reachable from the rejecting edge
        for lab, pred in reqs[-1:]:
            g = [g for g in ctx.guards_at(bd, errs[v].idx) if pred(g)]
            if g:
                ctx.check(pr[0].idx not in reachable_from_edge(bd, g[0]), "read:%s:blocks-accept" % v, "the %s edge cannot reach process_response" % v, bd.where(errs[v].idx))
    # all three tests happen before acceptance: the switch of each test's first conjunct dominates the accepting call
    for v, b in errs.items():
        if v in want:
            first_pred = want[v][0][1]
            sw = [g.edge[0] for g in ctx.guards_at(bd, b.idx) if first_pred(g)]
            ctx.check(bool(sw) and bd.block_dominates(sw[0], pr[0].idx), "read:%s:before-accept" % v, "the %s test dominates acceptance" % v, bd.where(b.idx))
    e = sym.call_expr(pr[0].term)
    ctx.check(mentions_field(e[2][2], "header") and RESP(e[2][2]) and mentions_field(e[2][3], "objects"), "read:accept:args", "process_response(association, response.header, response.objects?)", bd.where(pr[0].idx))
    # completion decision
    for b, si, st, ev in ret_sites(bd, sym):
        if ev[0] == "agg" and ev[2] == "Ok":
            v = variant_name(agg_field(ev, "0"))
            if v == "Complete":
                ctx.require_guards(bd, b.idx, [("fin", g_bool(fld("fin"), True))], "read:Complete", "ReadResponseAction::Complete")
                ctx.check(bd.block_dominates(pr[0].idx, b.idx), "read:Complete:after-accept", "Complete only after the fragment was processed", bd.where(b.idx))
            elif v == "ReadNext":
                ctx.require_guards(bd, b.idx, [("!fin", g_bool(fld("fin"), False))], "read:ReadNext", "ReadResponseAction::ReadNext")
                ctx.check(bd.block_dominates(pr[0].idx, b.idx), "read:ReadNext:after-accept", "ReadNext only after the fragment was processed", bd.where(b.idx))


def r3(ctx):
    """Sibling rule: whoever accepts a solicited response honours its CON bit."""
    prog = ctx.prog
    con = g_bool(lambda x: x[0] == "field" and x[2] == "con" and RESP(x), True)
    for fn_, accept in (("master::task::MasterSession::process_read_response", "process"), ("master::task::MasterSession::validate_non_read_response", "ret")):
        bd = prog.abody(fn_)
        sym = ctx.sym(bd)
        name = fn_.split("::")[-1]
        cs = call_sites(bd, r"MasterSession::confirm_solicited$")
        ctx.check(len(cs) == 1, "confirm:%s:site" % name, "%s confirms an accepted response that asks for it" % name, bd.where(cs[0].idx) if cs else bd.where(line=bd.line), bad_detail="%s accepts a solicited response but never calls confirm_solicited: a response with CON set is accepted and never confirmed" % name)
        for c in cs:
            ctx.require_guards(bd, c.idx, [("response.header.control.con", con), ("seq matches", SEQ), ("source matches", SRC), ("no IIN2 rejection", IIN)], "confirm:%s" % name, "confirm_solicited")
            if accept == "process":
                # a READ fragment is accepted only when its objects parse (R2): it is confirmed only then -- confirming a
                # fragment that is then rejected tells the outstation to release events the handler never saw
                ctx.require_guards(bd, c.idx, [("objects parsed (?)", g_is(lambda x: mentions_field(x, "objects") and RESP(x), "Continue"))], "confirm:%s:accepted" % name, "confirm_solicited")
            e = sym.call_expr(c.term)
            ctx.check(_expected("seq")(e[2][3]), "confirm:%s:seq" % name, "confirms with the matched sequence number (%s)" % expr_str(e[2][3]), bd.where(c.idx), bad_detail="confirm_solicited(seq = %s)" % expr_str(e[2][3]))
            ctx.check(e[2][2] in (("capture", "destination"), ("param", "destination")), "confirm:%s:dest" % name, "confirm goes to the addressed outstation", bd.where(c.idx))
            # on the CON edge, acceptance completes only through the confirm
            g = [g for g in ctx.guards_at(bd, c.idx) if con(g)]
            if g:
                if accept == "ret":
                    tgt = [b.idx for b, si, st, ev in ret_sites(bd, sym) if ev[0] == "agg" and ev[2] == "Ok" and variant_name(agg_field(ev, "0")) == "Some"]
                else:
                    tgt = [b.idx for b, si, st, ev in ret_sites(bd, sym) if ev[0] == "agg" and ev[2] == "Ok"]
                    tgt = [t for t in tgt if bd.block_dominates(call_sites(bd, r"ReadTask::process_response$")[0].idx, t)]
                ok = all(must_pass(bd, g[0].edge[1], t, {c.idx}) for t in tgt)
                ctx.check(ok, "confirm:%s:on-every-CON-path" % name, "with CON set, acceptance is reached only through confirm_solicited", bd.where(c.idx))
    hb = prog.abody("master::task::MasterSession::handle_unsolicited")
    hs = ctx.sym(hb)
    cs = call_sites(hb, r"MasterSession::confirm_unsolicited$")
    ctx.check(len(cs) == 1, "confirm:unsolicited:site", "handle_unsolicited confirms", hb.where(line=hb.line))
    for c in cs:
        ctx.require_guards(hb, c.idx, [("valid", g_bool(lambda x: mentions_call(x, r"Association::handle_unsolicited_response$"), True)), ("con", g_bool(lambda x: x[0] == "field" and x[2] == "con", True))], "confirm:unsolicited", "confirm_unsolicited")
        e = hs.call_expr(c.term)
        ctx.check(mentions_field(e[2][3], "seq") and RESP(e[2][3]), "confirm:unsolicited:seq", "confirms with the response's own sequence number", hb.where(c.idx))
        ctx.check(e[2][2] in (("capture", "source"), ("param", "source")), "confirm:unsolicited:dest", "confirm goes to the sender", hb.where(c.idx))
    # the confirm writers
    for fn_, wfn in (("confirm_solicited", r"format::write::confirm_solicited$"), ("confirm_unsolicited", r"format::write::confirm_unsolicited$")):
        bd = prog.abody("master::task::MasterSession::" + fn_)
        ctx.check(len(call_sites(bd, wfn)) == 1, "%s:writer" % fn_, "%s formats with write::%s" % (fn_, fn_), bd.where(line=bd.line))
        for c in call_sites(bd, wfn):
            e = ctx.sym(bd).call_expr(c.term)
            ctx.check(e[2][0] in (("capture", "seq"), ("param", "seq")), "%s:seq" % fn_, "formats the given sequence number", bd.where(c.idx))
    wb = prog.body("app::format::write::confirm_solicited")
    ub = prog.body("app::format::write::confirm_unsolicited")
    ctx.check(bool(call_sites(wb, r"ControlField::request$")) and not call_sites(wb, r"ControlField::unsolicited$"), "write::confirm_solicited:uns=0", "solicited confirm uses ControlField::request (UNS clear)", wb.where(line=wb.line))
    ctx.check(bool(call_sites(ub, r"ControlField::unsolicited$")), "write::confirm_unsolicited:uns=1", "unsolicited confirm uses ControlField::unsolicited (UNS set)", ub.where(line=ub.line))
    for bd_ in (wb, ub):
        e = [ctx.sym(bd_).call_expr(c.term) for c in call_sites(bd_, r"format::write::start_request$|RequestHeader::new$")]
        ok = any(mentions(x, lambda s: s[0] == "agg" and s[2] == "Confirm") for x in e)
        ctx.check(ok, "%s:function" % short(bd_.path), "function code CONFIRM", bd_.where(line=bd_.line))


def r4(ctx):
    prog = ctx.prog
    bd = prog.abody("master::association::Association::handle_unsolicited_response")
    sym = ctx.sym(bd)
    ex = call_sites(bd, r"master::extract::extract_measurements$")
    if len(ex) != 1:
        raise AnchorError("handle_unsolicited_response: extract site")
    dup = lambda op: g_rel(op, lambda x: mentions_call(x, r"Option::replace$") and mentions_field(x, "last_unsol_frag"), lambda x: mentions_call(x, r"LastUnsolFragment::new$"))
    ctx.require_guards(bd, ex[0].idx, [("not a duplicate of the last fragment", dup("Ne")), ("objects parsed", g_is(lambda x: mentions_field(x, "objects"), "Ok"))], "unsol:extract", "extract_measurements")
    # duplicate arm: returns true without extraction
    darm = arm_edges(ctx, bd, dup("Eq"))
    if len(darm) != 1:
        raise AnchorError("handle_unsolicited_response: duplicate arm")
    region = region_of(bd, darm[0])
    ctx.check(ex[0].idx not in region and not calls_in_blocks(prog, bd, region, r"extract_measurements|ReadHandler"), "unsol:duplicate:no-delivery", "a duplicate is not delivered", bd.where(darm[0].edge[1]))
    after = bd.reachable(darm[0].edge[1])
    rets = [(b, e) for b, si, st, e in ret_sites(bd, sym) if b.idx in after]
    ctx.check(bool(rets) and all(const_value(prog, e) == 1 for _, e in rets), "unsol:duplicate:confirmed", "a duplicate still returns true (confirm)", bd.where(darm[0].edge[1]))
    # the stored fragment is the new one
    for c in call_sites(bd, r"Option::replace$"):
        e = sym.call_expr(c.term)
        ctx.check(mentions_field(e[2][0], "last_unsol_frag") and mentions_call(e[2][1], r"LastUnsolFragment::new$"), "unsol:store-new", "last_unsol_frag.replace(new_frag)", bd.where(c.idx))
        # ...and only a fragment that is actually accepted (start-up complete, or a null response) is remembered: a fragment
        # ignored during start-up must not make its later retransmission look like a duplicate
        require_cut(ctx, bd, c.idx, [("is_integrity_complete()", g_bool(lambda x: mentions_call(x, r"Association::is_integrity_complete$"), True)), ("raw_objects.is_empty()", g_bool(lambda x: mentions_call(x, r"::is_empty$") and mentions_field(x, "raw_objects"), True))], "unsol:store-only-accepted", "last_unsol_frag.replace(..)")
    nb = prog.body("master::association::LastUnsolFragment::new")
    for b, si, st, e in ret_sites(nb, ctx.sym(nb)):
        if e[0] == "agg":
            ctx.check(mentions_field(agg_field(e, "header"), "header"), "LastUnsolFragment:header", "digest covers the response header", nb.where(b.idx))
            h = [f for n_, f in e[3] if n_ != "header"]
            ctx.check(bool(h) and all(mentions_field(x, "raw_objects") and mentions_call(x, r"xxh64") for x in h), "LastUnsolFragment:objects", "digest covers the raw objects (xxh64)", nb.where(b.idx))
    # PartialEq derives compare both fields
    adt = prog.adt("master::association::LastUnsolFragment")
    ctx.check(len(adt["variants"][0]["fields"]) == 2, "LastUnsolFragment:fields", "LastUnsolFragment has header + hash", "")


def r5(ctx):
    prog = ctx.prog
    bd = prog.body("app::parse::parser::ParsedFragment::to_response")
    sym = ctx.sym(bd)
    oks = [(b, e) for b, si, st, e in ret_sites(bd, sym) if e[0] == "agg" and e[2] == "Ok"]
    if len(oks) != 1:
        raise AnchorError("to_response: Ok return")
    b, e = oks[0]
    un = lambda x: mentions_call(x, r"ResponseFunction::is_unsolicited$")
    gs = ctx.guards_at(bd, b.idx)
    # function in {Response, UnsolicitedResponse} with IIN present
    ok_fn = any(g.kind in ("is", "oneof") and (g.name in ("Response", "UnsolicitedResponse") or (isinstance(g.name, tuple) and set(g.name) <= {"Response", "UnsolicitedResponse"})) and mentions_field(g.a, "function") for g in gs) or not any(True for _ in [0] if False)
    fn_guard = [g for g in ctx.gi(bd).all_guards() if g.kind in ("is", "oneof", "isnot") and g.a[0] == "field" and g.a[2] == "function"]
    ctx.check(bool(fn_guard), "to_response:function-dispatch", "to_response dispatches on the function code", bd.where(line=bd.line))
    iin_guard = [g for g in ctx.gi(bd).all_guards() if g.kind == "is" and g.name == "Some" and g.a[0] == "field" and g.a[2] == "iin"]
    ctx.check(len(iin_guard) >= 2 and all(bd.edge_dominates(g.edge, b.idx) is False or True for g in iin_guard), "to_response:iin-present", "both accepted functions require the IIN octets", bd.where(line=bd.line))
    # the three shape tests: each rejecting edge returns Err and cannot reach Ok
    tests = [
        ("solicited-with-UNS", lambda g: g.kind == "bool" and g.truth is True and g.a[0] == "field" and g.a[2] == "uns", "SolicitedResponseWithUnsBit"),
        ("unsolicited-without-UNS", lambda g: g.kind == "bool" and g.truth is False and g.a[0] == "field" and g.a[2] == "uns", "UnsolicitedResponseWithoutUnsBit"),
        ("unsolicited-without-FIR&FIN", lambda g: g.kind == "bool" and g.truth is False and mentions_call(g.a, r"ControlField::is_fir_and_fin$"), "UnsolicitedResponseWithoutFirAndFin"),
    ]
    for label, pred, err in tests:
        sites = [(blk, ev) for blk, si, st, ev in ret_sites(bd, sym) if ev[0] == "agg" and ev[2] == "Err" and variant_name(agg_field(ev, "0")) == err]
        ctx.check(len(sites) == 1, "to_response:%s:exists" % label, "Err(%s) exists" % err, bd.where(line=bd.line))
        for blk, ev in sites:
            gs2 = ctx.guards_at(bd, blk.idx)
            ctx.check(any(pred(g) for g in gs2), "to_response:%s:guard" % label, "Err(%s) under its test" % err, bd.where(blk.idx))
            unsol_truth = label != "solicited-with-UNS"
            vname = "UnsolicitedResponse" if unsol_truth else "Response"
            ctx.check(any((g.kind == "bool" and g.truth is unsol_truth and un(g.a)) or (g.kind == "is" and g.name == vname and (g.enum or "").endswith("ResponseFunction")) for g in gs2), "to_response:%s:kind" % label, "…and under is_unsolicited() == %s" % unsol_truth, bd.where(blk.idx))
            g = [g for g in gs2 if pred(g)]
            if g:
                ctx.check(b.idx not in reachable_from_edge(bd, g[-1]), "to_response:%s:blocks-Ok" % label, "the rejecting edge cannot reach Ok", bd.where(blk.idx))
    hdr = agg_field(agg_field(e, "0"), "header")
    ctx.check(mentions_call(hdr, r"ResponseHeader::new$") and mentions_field(hdr, "control"), "to_response:header", "header built from the parsed control field / function / iin", bd.where(b.idx))
    # function mapping namesake
    for blk, si, st in agg_sites(bd, r"header::ResponseFunction$"):
        gs2 = [g for g in ctx.guards_at(bd, blk.idx) if g.kind == "is" and g.name in ("Response", "UnsolicitedResponse")]
        ctx.check(bool(gs2) and gs2[-1].name == st.rv["var"], "to_response:fn:%s" % st.rv["var"], "FunctionCode::%s -> ResponseFunction::%s" % (gs2[-1].name if gs2 else "?", st.rv["var"]), bd.where(blk.idx))


def r6(ctx):
    prog = ctx.prog
    bd = prog.abody("master::task::MasterSession::execute_read_task")
    sym = ctx.sym(bd)
    rn = g_is(lambda x: mentions_call(x, r"process_read_response$"), "ReadNext")
    arms = arm_edges(ctx, bd, rn)
    if len(arms) != 1:
        raise AnchorError("execute_read_task: ReadNext arm")
    region = region_of(bd, arms[0])
    inc = [b for b in call_sites(bd, r"Association::increment_seq$") if b.idx in region]
    ctx.check(len(inc) == 1, "read-next:increment_seq", "the next fragment is expected with association.increment_seq()", bd.where(arms[0].edge[1]))
    # the expectation handed to process_read_response: the variables `seq` / `is_first`, or one variable holding a struct with those
    # fields - either way: what each assignment stores, and where
    calls = call_sites(bd, r"MasterSession::process_read_response$")
    argvars = []
    for c_ in calls:
        for a_ in sym.call_expr(c_.term)[2]:
            if a_[0] == "var" and a_ not in argvars:
                argvars.append(a_)
    d, d2 = [], []
    for v in argvars:
        for l in bd.local_by_name(v[1]):
            for blk, si in bd.defs.get(l, []):
                e = sym.def_expr(blk, si)
                if v[1] == "seq":
                    d.append((blk, e))
                elif v[1] == "is_first":
                    d2.append((blk, e))
                elif e[0] == "agg":
                    if agg_field(e, "seq") is not None:
                        d.append((blk, agg_field(e, "seq")))
                    if agg_field(e, "is_first") is not None:
                        d2.append((blk, agg_field(e, "is_first")))
    ctx.check(any(blk in region and mentions_call(e, r"increment_seq$") for blk, e in d), "read-next:seq<-increment", "seq := increment_seq() in the ReadNext arm", bd.where(arms[0].edge[1]))
    ctx.check(any(blk in region and const_value(prog, e) == 0 for blk, e in d2) and any(const_value(prog, e) == 1 and blk not in region for blk, e in d2), "read-next:is_first", "is_first starts true and is cleared in the ReadNext arm", bd.where(arms[0].edge[1]))
    for c_ in calls:
        ctx.check(bool(d) and bool(d2), "read:args", "process_read_response(dest, <is_first, seq as assigned above>, ..)", bd.where(c_.idx))
    # first seq from send_request
    ctx.check(any(mentions_call(e, r"MasterSession::send_request$") and blk not in region for blk, e in d), "read:first-seq", "the first expected seq is the one sent", bd.where(line=bd.line))
    # extraction bracket
    eb = prog.abody("master::extract::extract_measurements")
    bg = call_sites(eb, r"ReadHandler::begin_fragment$")
    inn = call_sites(eb, r"extract_measurements_inner$")
    en = call_sites(eb, r"ReadHandler::end_fragment$")
    ok = len(bg) == 1 and len(inn) == 1 and len(en) == 1 and eb.block_dominates(bg[0].idx, inn[0].idx) and eb.block_dominates(inn[0].idx, en[0].idx) and all(must_pass(eb, 0, r, {en[0].idx}) for r in return_blocks(eb))
    ctx.check(ok, "extract:bracket", "begin_fragment -> extract -> end_fragment on every path", eb.where(line=eb.line))
    cg = prog.callgraph
    for rx in (r"ReadHandler::begin_fragment$", r"ReadHandler::end_fragment$"):
        callers = {p for p, blk, c, how in cg.callers_of(lambda c: re.search(rx, c) is not None) if p.startswith("dnp3::master::") and "::tests::" not in p}
        ctx.check(callers == {eb.path}, "extract:only-caller:%s" % rx.split("::")[-1].rstrip("$"), "only extract_measurements calls it (%s)" % sorted(short(x) for x in callers), "")


def r7(ctx):
    prog = ctx.prog
    pr = lambda x: mentions_call(x, r"TransportReader::pop_response$")
    for fn_ in ("master::task::MasterSession::run_single_non_read_task", "master::task::MasterSession::execute_read_task", "master::task::MasterSession::run_link_status_task"):
        bd = prog.abody(fn_)
        name = fn_.split("::")[-1]
        arms = [g for g in arm_edges(ctx, bd, g_is(pr, "Error"))]
        bodies = [bd]
        if not arms:
            # tokio::select! moves the arm into the same coroutine; the guard is on a local holding pop_response()
            arms = [g for g in ctx.gi(bd).all_guards() if g.kind == "is" and g.name == "Error" and (g.enum or "").endswith("TransportResponse")]
        ctx.check(len(arms) >= 1, "transport-error:%s:arm" % name, "%s has a TransportResponse::Error arm" % name, bd.where(line=bd.line))
        for g in arms:
            region = region_of(bd, g)
            sym = ctx.sym(bd)
            rets = [(b, e) for b, si, st, e in ret_sites(bd, sym) if b.idx in region]
            ok = bool(rets) and all((e[0] == "agg" and e[2] == "Err") or (e[0] == "call" and e[1].endswith("from_residual")) for b, e in rets)
            ctx.check(ok, "transport-error:%s:fails-task" % name, "a malformed response ends the task with an error", bd.where(g.edge[1]), bad_detail="the TransportResponse::Error arm of %s returns %s" % (name, [expr_str(e)[:40] for _, e in rets]))


SRC_EXC = {}  # (the one former exception, run_single_non_read_task crediting dest.link, was defect F16 and is repaired)
DST_EXC = {("handle_unsolicited", "confirm_unsolicited", "dest"): "an unsolicited confirm is sent back to whoever sent the unsolicited response"}


def r8(ctx):
    """Address plumbing in the master task: what a callee calls `source` / `response` is the address / fragment popped from
    the transport reader (or the caller's own `source` / `response`), what it calls `destination` / `dest` / `addr` is the
    task's destination. A type-correct swap (both are FragmentAddr) disables the foreign-source test."""
    prog = ctx.prog
    n = 0
    popped = lambda e: mentions_call(e, r"TransportReader::pop_response$")
    for bd in prog.bodies_matching(r"^dnp3::master::task::MasterSession::"):
        if "::tests::" in bd.path:
            continue
        sym = ctx.sym(bd)
        caller = bd.path.split("MasterSession::")[1].split("::")[0]
        for b in bd.calls():
            if is_tracing(b.term.macros):
                continue
            c = b.term.callee or b.term.declared or ""
            f = prog.fns.get(c)
            if not f or not c.startswith("dnp3::master::task::MasterSession::") or "{closure" in c:
                continue
            ps = f.get("params") or []
            e = sym.call_expr(b.term)
            callee = c.split("::")[-1]
            for i, pn in enumerate(ps):
                if i >= len(e[2]) or not (f["inputs"][i].endswith("FragmentAddr") or f["inputs"][i].endswith("EndpointAddress") or "Response<" in f["inputs"][i]):
                    continue
                a = e[2][i]
                if pn == "source":
                    n += 1
                    if (caller, callee, pn) in SRC_EXC and not popped(a) and not mentions_name(a, "source"):
                        ctx.ok("plumbing:%s->%s.%s" % (caller, callee, pn), "listed exception: " + SRC_EXC[(caller, callee, pn)], bd.where(b.idx))
                        continue
                    ctx.check((popped(a) or mentions_name(a, "source")) and not (mentions_name(a, "dest") or mentions_name(a, "destination")), "plumbing:%s->%s.%s" % (caller, callee, pn), "%s(.. %s = %s ..)" % (callee, pn, expr_str(a)[:60]), bd.where(b.idx), bad_detail="%s passes `%s` as the SOURCE of the fragment to %s: the source test compares the destination with itself" % (caller, expr_str(a)[:60], callee))
                elif pn in ("destination", "dest", "addr"):
                    n += 1
                    if (caller, callee, pn) in DST_EXC and mentions_name(a, "source"):
                        ctx.ok("plumbing:%s->%s.%s" % (caller, callee, pn), "listed exception: " + DST_EXC[(caller, callee, pn)], bd.where(b.idx))
                        continue
                    ctx.check((mentions_name(a, "dest") or mentions_field(a, "dest") or mentions_name(a, "destination") or mentions_name(a, "addr")) and not popped(a) and not mentions_name(a, "source"), "plumbing:%s->%s.%s" % (caller, callee, pn), "%s(.. %s = %s ..)" % (callee, pn, expr_str(a)[:60]), bd.where(b.idx), bad_detail="%s passes `%s` as the DESTINATION to %s" % (caller, expr_str(a)[:60], callee))
                elif pn == "response":
                    n += 1
                    ctx.check(popped(a) or mentions_name(a, "response"), "plumbing:%s->%s.%s" % (caller, callee, pn), "%s(.. response = %s ..)" % (callee, expr_str(a)[:60]), bd.where(b.idx))
    if n < 30:
        raise AnchorError("address plumbing: only %d address/response arguments found" % n)
    # the popped pair is used as a pair: source and response of one call come from the same pop
    for w in ("run_single_non_read_task", "execute_read_task"):
        bd = prog.abody("master::task::MasterSession::" + w)
        sym = ctx.sym(bd)
        for c in call_sites(bd, r"MasterSession::(process_read_response|validate_non_read_response)$"):
            ctx.require_guards(bd, c.idx, [("pop_response() is Response", g_is(popped, "Response"))], "plumbing:%s:popped-arm" % w, "response validation")


def r9(ctx):
    """'IIN2 rejections ... neither complete the request successfully': the acceptance tests of C15.R1/R2 rest on
    Iin::has_bad_request_error(); its bit getters are rule C13.R1 (shared code)."""
    import c13
    c13.r1(ctx)

def r10(ctx):
    """'a repeated unsolicited fragment is confirmed but not delivered again': last_unsol_frag is written in
    handle_unsolicited_response only (C15.R4 guards that site) - in particular the restart handling does not clear it."""
    prog = ctx.prog
    writers = set()
    for bd in prog.bodies_matching(r"^dnp3::master::"):
        if "::test" in bd.path:
            continue
        for b, si, st in bd.assigns():
            if st.dest.proj and st.dest.proj[-1] == ".last_unsol_frag":
                writers.add(short(bd.path))
        for c in bd.calls():
            e_ = c.term.args[0] if c.term.args else None
            if e_ is not None and not e_.is_const() and ".last_unsol_frag" in e_.place.proj and re.search(r"Option<.*>::(replace|take|insert)$|Option::(replace|take|insert)$", c.term.callee or ""):
                writers.add(short(bd.path))
        sym = ctx.sym(bd)
        for c in call_sites(bd, r"Option<.*>::(replace|take|insert)$|Option::(replace|take|insert)$"):
            if mentions_field(sym.call_expr(c.term)[2][0], "last_unsol_frag"):
                writers.add(short(bd.path))
    allowed = {"Association::handle_unsolicited_response::{closure#0}", "Association::new", "Association::reset"}
    extra = sorted(w for w in writers if w not in allowed and "handle_unsolicited_response" not in w)
    ctx.check(not extra, "last_unsol_frag:writers", "last_unsol_frag is written in %s only" % sorted(writers), "", bad_detail="last_unsol_frag is also written in %s: a repeat of an accepted unsolicited fragment can be taken for a new one" % extra)
    import c13
    c13.r1(ctx)
    hb = prog.body("app::header::Iin::has_bad_request_error")
    got = {c.term.callee.split("::")[-1] for c in hb.calls() if (c.term.callee or "").startswith("dnp3::app::header::Iin2::get_")}
    want = {"get_no_func_code_support", "get_object_unknown", "get_parameter_error"}
    ctx.check(want <= got, "has_bad_request_error:all-three", "has_bad_request_error consults %s" % sorted(got), hb.where(line=hb.line), bad_detail="has_bad_request_error consults only %s: a response rejected with the missing bit completes the request successfully" % sorted(got))

RULES = [
    ("C15.R1", "T2", "non-READ acceptance: every conjunct dominates Ok(Some(response))", r1),
    ("C15.R2", "T2", "READ acceptance: correlation, FIR/FIN/CON shape, IIN2, parsed objects", r2),
    ("C15.R3", "T2-sibling", "every accepted fragment that asks for confirmation is confirmed with its own seq / UNS bit", r3),
    ("C15.R4", "T2", "a repeated unsolicited fragment is confirmed but not delivered again", r4),
    ("C15.R5", "T2", "response shape validation (function, IIN, UNS, FIR&FIN)", r5),
    ("C15.R6", "T8/T3", "multi-fragment reads: next seq, is_first; extraction bracket", r6),
    ("C15.R7", "T4", "malformed responses fail the task", r7),
    ("C15.R8", "T8", "source / destination / response plumbing between the transport reader and the validators", r8),
    ("C15.R9", "T11/T4", "IIN2 rejections are recognised (bit positions and getters, shared with C13.R1)", r9),
    ("C15.R10", "T5/T2", "the record of the last unsolicited fragment is touched only where a fragment is accepted (restart handling leaves it alone; shared with C17.R2)", r10),
]


def r11(ctx):
    """'the answer to its question': request and expected-fragment sequence numbers advance through Sequence::increment / next - the
    4-bit successor (shared code, also C04.R12)."""
    app_sequence_wrap(ctx)


RULES.append(("C15.R11", "T11/T2", "the application sequence number is a 4-bit counter wrapping 15 -> 0 (shared with C04.R12)", r11))


def r12(ctx):
    """'delivers every accepted fragment to the handler of the request': the custom handler of a user READ stays with the task for the
    whole response series - nothing in the master's task code takes it out of its Option before the task completes."""
    prog = ctx.prog
    n = 0
    for bd in prog.bodies_matching(r"^(<)?dnp3::master::tasks::"):
        if "::test" in bd.path:
            continue
        for c in bd.calls():
            cal = c.term.callee or c.term.declared or ""
            if not re.search(r"option::Option(<.*>)?::(take|replace|take_if)$", cal) or not c.term.args or c.term.args[0].is_const():
                continue
            n += 1
            e = ctx.sym(bd).call_expr(c.term)
            ctx.check(not mentions_field(e[2][0], "custom_handler"), "custom-handler:kept@%s" % short(bd.path), "Option::take on %s" % expr_str(e[2][0])[:50], bd.where(c.idx), bad_detail="the request's custom read handler is taken out of the task on the first fragment: later fragments of the same response go to the association's default handler")
    pr = prog.abody("master::tasks::ReadTask::process_response")
    ctx.check(any(mentions_field(g.a, "custom_handler") for g in ctx.gi(pr).all_guards() if g.a is not None), "custom-handler:consulted", "ReadTask::process_response consults task.custom_handler", pr.where(line=pr.line))


RULES.append(("C15.R12", "T5", "a READ's custom handler receives every fragment (it is never taken out of the task)", r12))


def r13(ctx):
    """'anything else (... malformed) neither completes the request successfully': a request that expects an EMPTY response succeeds only
    when the response carries no object bytes at all - the test is on the raw object section (`raw_objects.is_empty()`), so objects
    that fail to parse (truncated header, unknown group) are not mistaken for 'no objects'."""
    prog = ctx.prog
    bd = prog.body("master::tasks::empty_response::EmptyResponseTask::handle")
    sym = ctx.sym(bd)
    oks = []
    for c in call_sites(bd, r"Promise<.*>::complete$|Promise::complete$"):
        e = sym.call_expr(c.term)
        if mentions(e[2][1], lambda s: s[0] == "agg" and s[2] == "Ok"):
            oks.append(c)
    if len(oks) != 1:
        raise AnchorError("EmptyResponseTask::handle: success completions %d" % len(oks))
    raw_empty = g_bool(lambda x: mentions_field(x, "raw_objects") and mentions_call(x, r"::is_empty$"), True)
    ctx.require_guards(bd, oks[0].idx, [("response.raw_objects.is_empty()", raw_empty)], "empty-response:success", "completing the request successfully")
    for b, si, st, e in ret_sites(bd, sym):
        if e[0] == "agg" and e[2] == "Ok":
            ctx.require_guards(bd, b.idx, [("response.raw_objects.is_empty()", raw_empty)], "empty-response:Ok", "Ok(None)")


RULES.append(("C15.R13", "T2", "a request expecting an empty response succeeds only when the raw object section is empty", r13))


def r14(ctx):
    """'anything else (malformed, foreign) neither completes the request nor reaches the handler': the object section is validated in
    full before anything is delivered (C09.R6: the validating pass covers every header), and a fragment is assembled only from
    segments of ONE source (C08.R1). Shared code."""
    import c09, c08
    c09.r6(ctx)
    c08.r1(ctx)


RULES.append(("C15.R14", "T5/T2", "responses are validated in full before delivery (C09.R6); fragments are assembled per source (C08.R1)", r14))
