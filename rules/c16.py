"""C16 — commands succeed only if truly accepted; every request gets exactly one outcome."""
from engine import *
from mir import *

EXPLANATION = (
    "CommandTask::handle: reporting success and moving from SELECT to OPERATE are dominated by a parsed response and a successful "
    "compare(); compare_items continues/accepts only under status == SUCCESS and Prefix::equals (index AND value) and rejects surplus or "
    "missing objects; header counts likewise. The objects sent are fixed at construction and re-used for every state; the state -> function "
    "code table is the namesake. Promise<T> cannot be cloned, complete() consumes it, Drop fires the callback variant; FileReaderType has the "
    "same shape. Every exit of the task runners consumes the task through on_task_error / handle_response / complete (the one `?` exit is a "
    "listed exception); queued tasks are failed on reset, on disconnected submission and on overflow; every task dispatcher is exhaustive "
    "(no wildcard arm); every per-task handle/on_task_error completes or forwards its promise on every path."
)
ASSUMPTIONS = ["the bound 'within a number of response timeouts' is not decided", "behaviour of the one-shot receiver when a promise is dropped is decided only as a type fact"]
TRUSTED = ["rustc nightly MIR + impl tables", "facts driver", "rules/mir.py"]


def r1(ctx):
    prog = ctx.prog
    bd = prog.body("master::tasks::command::CommandTask::handle")
    sym = ctx.sym(bd)
    parsed = g_is(lambda x: mentions_field(x, "objects") and mentions_name(x, "response"), "Ok")
    echoed = g_is(lambda x: mentions_call(x, r"CommandTask::compare$"), "Ok")
    n = 0
    for c in call_sites(bd, r"Promise::complete$"):
        e = sym.call_expr(c.term)
        if variant_name(e[2][1]) == "Ok":
            n += 1
            ctx.require_guards(bd, c.idx, [("response.objects is Ok", parsed), ("compare(headers) is Ok", echoed)], "command:success", "promise.complete(Ok(()))")
            ctx.require_guards(bd, c.idx, [("state is not Select", lambda g: g.a is not None and g.a[0] == "field" and g.a[2] == "state" and ((g.kind == "isnot" and "Select" in g.name) or (g.kind in ("is",) and g.name in ("Operate", "DirectOperate")) or (g.kind == "oneof" and set(g.name) <= {"Operate", "DirectOperate"})))], "command:success:state", "success is reported after OPERATE / DIRECT_OPERATE only")
    ctx.check(n == 1, "command:success:count", "one success completion (%d)" % n, bd.where(line=bd.line))
    cs = call_sites(bd, r"CommandTask::change_state$")
    ctx.check(len(cs) == 1, "command:change_state:site", "one SELECT->OPERATE transition", bd.where(line=bd.line))
    for c in cs:
        e = sym.call_expr(c.term)
        ctx.require_guards(bd, c.idx, [("response.objects is Ok", parsed), ("compare(headers) is Ok", echoed), ("state is Select", g_is("state", "Select"))], "command:operate-after-select-echo", "change_state(Operate)")
        ctx.check(variant_name(e[2][1]) == "Operate", "command:next-state", "next state = %s" % expr_str(e[2][1]), bd.where(c.idx))
    # compare() is fed with the objects of this response
    for c in call_sites(bd, r"CommandTask::compare$"):
        e = sym.call_expr(c.term)
        ctx.check(mentions_field(e[2][1], "objects") and mentions_name(e[2][1], "response"), "command:compare:arg", "compare(response.objects)", bd.where(c.idx))
    # every Err return completed the promise with an error first
    comp = {c.idx for c in call_sites(bd, r"Promise::complete$")}
    for b, si, st, e in ret_sites(bd, sym):
        ctx.check(any(bd.block_dominates(x, b.idx) for x in comp) or mentions_call(e, r"change_state$|CommandTask::wrap$"), "command:every-return-has-outcome", "return dominated by a completion or by forwarding the promise", bd.where(b.idx))
    cb = prog.body("master::tasks::command::CommandTask::compare")
    for c in call_sites(cb, r"CommandHeaders::compare$"):
        e = ctx.sym(cb).call_expr(c.term)
        ctx.check(e[2][0] == ("field", ("param", "self"), "headers") and e[2][1] == ("param", "headers"), "command:compare:self.headers", "self.headers.compare(headers)", cb.where(c.idx))


def _loop_latches(body, header_blk):
    succ, pred = body.cfg
    reach = body.reachable(header_blk)
    return [p for p in pred[header_blk] if p in reach]


def r2(ctx):
    prog = ctx.prog
    bd = prog.body("master::request::CommandHeader::compare_items")
    sym = ctx.sym(bd)
    succ, pred = bd.cfg
    # loop over `sent`: header = the Iterator::next on the slice iterator
    nexts = [b for b in bd.calls() if (b.term.declared or "").endswith("Iterator::next")]
    sent_next = [b for b in nexts if mentions_name(sym.call_expr(b.term), "sent")]
    recv_next = [b for b in nexts if mentions_name(sym.call_expr(b.term), "seq") or mentions_call(sym.call_expr(b.term), r"CountSequence::iter$")]
    if len(sent_next) != 1 or len(recv_next) < 2:
        raise AnchorError("compare_items: loop shape (sent next %d, received next %d)" % (len(sent_next), len(recv_next)))
    header = sent_next[0].idx
    # blocks inside the loop that jump back towards the header
    inloop = {b for b in bd.reachable(header) if header in bd.reachable(b)}
    latches = [b for b in inloop if header in succ[b] or any(s_ not in inloop and False for s_ in succ[b])]
    # walk back through trivial gotos to find the latch that carries the guards
    status_ok = g_rel("Eq", lambda x: mentions_call(x, r"Command::status$|::status$"), lambda x: mentions(x, lambda s: s[0] == "agg" and s[2] == "Success"))
    equal = g_bool(lambda x: mentions_call(x, r"Prefix::equals$"), True)
    have = g_is(lambda x: mentions_call(x, r"::next$") and (mentions_name(x, "seq") or mentions_call(x, r"CountSequence::iter$")), "Some")
    # the blocks of the received-object arm that leave it towards the next iteration
    arms = [g for g in arm_edges(ctx, bd, have) if header in bd.reachable(g.edge[1])]
    if len(arms) != 1:
        raise AnchorError("compare_items: received.next() arm")
    region = region_of(bd, arms[0])
    sites = sorted({b_ for b_ in region for s_ in succ[b_] if s_ not in region and header in bd.reachable(s_) and bd.blocks[b_].term.kind != "return"})
    if not sites:
        raise AnchorError("compare_items: no continue edge")
    for l in sites:
        ctx.require_guards(bd, l, [("status == SUCCESS", status_ok), ("x.equals(item)", equal)], "compare_items:continue", "continuing with the next sent item")
    oks = [(b, e) for b, si, st, e in ret_sites(bd, sym) if e[0] == "agg" and e[2] == "Ok"]
    ctx.check(len(oks) == 1, "compare_items:one-Ok", "one Ok(()) return", bd.where(line=bd.line))
    # "sent is exhausted" must be a statement about `sent` alone: an iterator that also draws from the received sequence
    # (zip / chain with `seq`) ends when EITHER side ends, so its None says nothing about sent objects left unanswered
    recv_in = lambda x: mentions_name(x, "seq") or mentions_call(x, r"CountSequence::iter$")
    sent_only = lambda x: mentions_call(x, r"::next$") and mentions_name(x, "sent") and not recv_in(x)
    # a sent item for which the reply has no object left is a count mismatch: the None arm of received.next() under
    # "sent item in hand" exists and never continues nor returns Ok
    missing = [g for g in arm_edges(ctx, bd, g_is(lambda x: mentions_call(x, r"::next$") and recv_in(x) and not mentions_name(x, "sent"), "None")) if any(h.kind == "is" and h.name == "Some" and sent_only(h.a) for h in ctx.guards_at(bd, g.edge[1]))]
    ctx.check(len(missing) >= 1, "compare_items:missing-object-arm", "a sent item without a received counterpart is tested (received.next() is None while an item of `sent` is in hand)", bd.where(line=bd.line), bad_detail="compare_items never tests received.next() == None while a sent item is in hand: a reply echoing only a prefix of the requested objects is accepted")
    for g in missing:
        reg = region_of(bd, g)
        leaks = [b_ for b_ in reg if header in bd.reachable(b_) and b_ != header] + [b.idx for b, e in oks if b.idx in reg]
        ctx.check(not leaks, "compare_items:missing-object-rejected", "the missing-object arm only returns an error", bd.where(g.edge[1]), bad_detail="the arm `received.next() is None` (sent item unanswered) continues or returns Ok")
    for b, e in oks:
        ctx.require_guards(bd, b.idx, [("all sent items consumed", g_is(sent_only, "None")), ("no surplus received object", g_any(g_bool(lambda x: mentions_call(x, r"Option::is_some$"), False), g_is(lambda x: mentions_call(x, r"::next$") and (mentions_name(x, "seq") or mentions_call(x, r"CountSequence::iter$")), "None")))], "compare_items:Ok", "Ok(()) of compare_items")
    errs = {}
    for b, si, st, e in ret_sites(bd, sym):
        if e[0] == "agg" and e[2] == "Err":
            errs.setdefault(variant_name(agg_field(e, "0")), []).append(b)
    for v in ("ObjectCountMismatch", "BadStatus", "ObjectValueMismatch"):
        ctx.check(v in errs, "compare_items:Err(%s)" % v, "Err(%s) is reported" % v, bd.where(line=bd.line))
    # Prefix::equals: index and value
    eb = prog.body("app::parse::prefix::Prefix::equals")
    es = ctx.sym(eb)
    rets = [e for _, _, _, e in ret_sites(eb, es)]
    text = " ".join(expr_str(e) for e in rets) + " " + " ".join(repr(g) for g in ctx.gi(eb).all_guards())
    ctx.check("index" in text and "value" in text, "Prefix::equals:index+value", "Prefix::equals compares index and value", eb.where(line=eb.line), bad_detail="Prefix::equals = %s" % text[:160])
    # CommandHeaders::compare
    hb = prog.body("master::request::CommandHeaders::compare")
    hs = ctx.sym(hb)
    oks = [(b, e) for b, si, st, e in ret_sites(hb, hs) if e[0] == "agg" and e[2] == "Ok"]
    for b, e in oks:
        ctx.require_guards(hb, b.idx, [("no surplus header", g_any(g_bool(lambda x: mentions_call(x, r"Option::is_some$"), False), g_is(lambda x: mentions_call(x, r"::next$") and mentions_call(x, r"HeaderCollection::iter$"), "None")))], "headers:Ok", "Ok(()) of CommandHeaders::compare")
    cmp_calls = call_sites(hb, r"CommandHeader::compare$")
    ctx.check(len(cmp_calls) == 1, "headers:per-header-compare", "each sent header is compared with the received one", hb.where(line=hb.line))
    for c in cmp_calls:
        ctx.require_guards(hb, c.idx, [("received header exists", g_is(lambda x: mentions_call(x, r"::next$"), "Some"))], "headers:compare", "sent.compare(received.details)")
        e = hs.call_expr(c.term)
        ctx.check(mentions_field(e[2][1], "details"), "headers:compare:arg", "compared with the received header's details", hb.where(c.idx))
    # the `?` on the per-header compare: its failure leaves the function
    ctx.check(any(g.kind == "is" and g.name == "Break" and mentions_call(g.a, r"CommandHeader::compare$") for g in ctx.gi(hb).all_guards()), "headers:compare:?-propagates", "a mismatching header fails the whole comparison", hb.where(line=hb.line))
    # CommandHeader::compare: each sent variant only matches the namesake response variation + prefix width
    cb = prog.body("master::request::CommandHeader::compare")
    csym = ctx.sym(cb)
    k = 0
    for c in call_sites(cb, r"CommandHeader::compare_items$"):
        gs = ctx.guards_at(cb, c.idx)
        sent_v = [g.name for g in gs if g.kind == "is" and g.a == ("param", "self")]
        resp_q = [g.name for g in gs if g.kind == "is" and g.a == ("param", "response")]
        resp_v = [g.name for g in gs if g.kind == "is" and g.a[0] == "field" and mentions(g.a, lambda s: s[0] == "variant")]
        k += 1
        m = re.match(r"G(\d+)V(\d+)U(8|16)$", sent_v[0]) if sent_v else None
        ok = bool(m) and resp_v and resp_v[0] == "Group%sVar%s" % (m.group(1), m.group(2)) and resp_q and resp_q[0] == ("OneByteCountAndPrefix" if m.group(3) == "8" else "TwoByteCountAndPrefix")
        ctx.check(ok, "header-kind:%s" % (sent_v[0] if sent_v else "?"), "%s is compared with %s / %s" % (sent_v, resp_q, resp_v), cb.where(c.idx))
    if k < 10:
        raise AnchorError("CommandHeader::compare: %d arms" % k)


def r3(ctx):
    prog = ctx.prog
    # writers of CommandTask::headers: only struct construction in new / from_mode
    for bd in prog.bodies_matching(r"master::tasks::command::"):
        for b, si, st in field_writes(bd, "headers"):
            ctx.bad("headers-writer@%s" % short(bd.path), "CommandTask::headers is assigned after construction", bd.where(b.idx))
    n = 0
    for fn_ in ("CommandTask::new", "CommandTask::from_mode"):
        bd = prog.body("master::tasks::command::" + fn_)
        for b, si, st in agg_sites(bd, r"command::CommandTask$"):
            e = ctx.sym(bd).rvalue_expr(st.rv)
            n += 1
            ctx.check(agg_field(e, "headers") == ("param", "headers") and agg_field(e, "promise") == ("param", "promise"), "%s:fields" % fn_, "headers/promise stored as given", bd.where(b.idx))
    ctx.check(n == 2, "CommandTask:constructors", "two constructors", "")
    cs = prog.body("master::tasks::command::CommandTask::change_state")
    for c in call_sites(cs, r"CommandTask::new$"):
        e = ctx.sym(cs).call_expr(c.term)
        ctx.check(e[2][0] == ("param", "state") and e[2][1] == ("field", ("param", "self"), "headers") and e[2][2] == ("field", ("param", "self"), "promise"), "change_state:forwards", "change_state keeps headers and promise", cs.where(c.idx))
    fb = prog.body("master::tasks::command::CommandTask::function")
    tab = {}
    for keys, e, blk in extract_table(ctx, fb, subject=lambda x: x[0] == "field" and x[2] == "state"):
        for k in keys:
            tab[k[1]] = variant_name(e)
    want = {"Select": "Select", "Operate": "Operate", "DirectOperate": "DirectOperate"}
    for k, v in want.items():
        ctx.check(tab.get(k) == v, "function:%s" % k, "State::%s -> FunctionCode::%s" % (k, tab.get(k)), fb.where(line=fb.line), bad_detail="State::%s is sent as FunctionCode::%s" % (k, tab.get(k)))
    wb = prog.body("master::tasks::command::CommandTask::write")
    for c in call_sites(wb, r"CommandHeaders::write$"):
        e = ctx.sym(wb).call_expr(c.term)
        ctx.check(e[2][0] == ("field", ("param", "self"), "headers"), "write:same-headers", "every state writes self.headers", wb.where(c.idx))
    ctx.check(not ctx.gi(wb).by_switch, "write:state-independent", "CommandTask::write does not depend on the state", wb.where(line=wb.line))
    mbs = [b for b in prog.bodies.values() if b.path.endswith("CommandMode>::to_state") or b.path.endswith("CommandMode::to_state")]
    if len(mbs) != 1:
        raise AnchorError("CommandMode::to_state")
    mb = mbs[0]
    t2 = {}
    for keys, e, blk in extract_table(ctx, mb, subject=lambda x: x == ("param", "self")):
        for k in keys:
            t2[k[1]] = variant_name(e)
    ctx.check(t2 == {"DirectOperate": "DirectOperate", "SelectBeforeOperate": "Select"}, "CommandMode::to_state", "CommandMode -> State: %s" % t2, mb.where(line=mb.line))


def r4(ctx):
    prog = ctx.prog
    for ty in ("master::promise::Promise<T>", "master::tasks::file::read::FileReaderType"):
        traits = [im.get("trait") for im in prog.impls if im["self"] == ty.replace("dnp3::", "") or im["self"].endswith(ty.split("::", 1)[-1]) and ty.split("::")[-1].split("<")[0] in im["self"]]
        traits = [t for t in traits if t]
        ctx.check(not any(t.endswith("::Clone") or t.endswith("::Copy") for t in traits), "%s:no-Clone" % ty.split("::")[-1], "%s has no Clone/Copy impl (traits: %s)" % (ty, sorted(short(t) for t in traits)), "", bad_detail="%s implements Clone/Copy: an outcome could be delivered twice" % ty)
    ctx.check(any((im.get("trait") or "").endswith("ops::drop::Drop") or (im.get("trait") or "").endswith("ops::Drop") for im in prog.impls if "promise::Promise" in im["self"]), "Promise:Drop", "Promise<T> implements Drop", "")
    f = prog.fns.get(prog.body("master::promise::Promise::complete").path)
    ctx.check(f and f["inputs"] and not f["inputs"][0].startswith("&"), "Promise::complete:by-value", "complete(self, ..) consumes the promise (%s)" % (f["inputs"][0] if f else None), "")
    for fn_ in ("master::promise::Promise::complete",):
        bd = prog.body(fn_)
        tk = call_sites(bd, r"Option::take$")
        ctx.check(len(tk) == 1, "Promise::complete:take", "complete take()s the inner value", bd.where(line=bd.line))
    db = [b for b in prog.bodies.values() if re.search(r"promise::Promise<T> as .*Drop>::drop$", b.path)]
    if len(db) != 1:
        raise AnchorError("Promise Drop body")
    ds = ctx.sym(db[0])
    tk = call_sites(db[0], r"Option::take$")
    cbs = [b for b in db[0].calls() if re.search(r"FnOnce.*::call_once$", b.term.declared or b.term.callee or "")]
    ctx.check(len(tk) == 1 and len(cbs) == 1, "Promise::drop:callback", "Drop take()s and fires the callback variant with its default", db[0].where(line=db[0].line))
    for c in cbs:
        ctx.require_guards(db[0], c.idx, [("variant is CallBack", g_is(lambda x: mentions_call(x, r"Option::take$"), "CallBack"))], "Promise::drop:CallBack", "callback on drop")
    # FileReaderType
    for fn_ in ("aborted", "completed"):
        m = [b for b in prog.bodies.values() if b.path.endswith("FileReaderType::" + fn_)]
        if len(m) == 1:
            bd = m[0]
            ctx.check(len(call_sites(bd, r"Option::take$")) >= 1, "FileReaderType::%s:take" % fn_, "%s take()s the reader" % fn_, bd.where(line=bd.line))
    fd = [b for b in prog.bodies.values() if re.search(r"file::read::FileReaderType as .*Drop>::drop$", b.path)]
    ctx.check(len(fd) == 1 and bool(calls_in_blocks(prog, fd[0], fd[0].live_blocks(), r"FileReader::aborted$|FileReaderType::aborted$")), "FileReaderType:Drop->aborted", "dropping a file reader reports aborted", fd[0].where(line=fd[0].line) if fd else "")


def r5(ctx):
    prog = ctx.prog
    bd = prog.abody("master::task::MasterSession::run_single_non_read_task")
    sym = ctx.sym(bd)
    consume = {b.idx for b in call_sites(bd, r"NonReadTask::on_task_error$|NonReadTask::handle_response$")}
    if len(consume) < 6:
        raise AnchorError("run_single_non_read_task: only %d consumption sites" % len(consume))
    rets = return_blocks(bd)
    # exits: every assignment to the return value
    n = 0
    for b, si, st, e in ret_sites(bd, sym):
        n += 1
        ok = not bd.can_reach(0, b.idx, removed_blocks=consume)
        if not ok and e[0] == "call" and e[1].endswith("from_residual") and mentions_call(e, r"AssociationMap::get_timeout$"):
            ctx.ok("exit:get_timeout?", "listed exception: the `?` on get_timeout cannot fire (send_request just resolved the same association and nothing between can remove it); the dropped task still completes its promise through Drop", bd.where(b.idx))
            continue
        ctx.check(ok, "exit#%d:%s" % (n, expr_str(e)[:40]), "exit passes on_task_error / handle_response", bd.where(b.idx), bad_detail="run_single_non_read_task can return `%s` without handing the task to on_task_error or handle_response: the request gets no outcome" % expr_str(e)[:80])
    rb = prog.abody("master::task::MasterSession::run_read_task")
    consume = {b.idx for b in call_sites(rb, r"ReadTask::complete$|ReadTask::on_task_error$")}
    ok = bool(consume) and all(not rb.can_reach(0, r, removed_blocks=consume) for r in return_blocks(rb))
    ctx.check(ok, "read-task:every-exit-has-outcome", "every exit of run_read_task passes complete / on_task_error", rb.where(line=rb.line))
    for c in call_sites(rb, r"ReadTask::complete$"):
        ctx.require_guards(rb, c.idx, [("execute_read_task is Ok", g_is(lambda x: mentions_call(x, r"execute_read_task$"), "Ok"))], "read-task:complete-on-Ok", "ReadTask::complete")
    tb = prog.abody("master::task::MasterSession::run_task")
    for c in call_sites(tb, r"MasterSession::run_link_status_task$"):
        pc = [x for x in call_sites(tb, r"Promise::complete$") if tb.block_dominates(c.idx, x.idx)]
        ctx.check(len(pc) == 1, "link-status:outcome", "the link status promise is completed with the task result", tb.where(c.idx))
        for x in pc:
            e = ctx.sym(tb).call_expr(x.term)
            ctx.check(mentions_call(e[2][1], r"run_link_status_task$"), "link-status:outcome:value", "completed with the result of the task", tb.where(x.idx))


DISPATCHERS = [
    ("master::tasks::NonReadTask::on_task_error", "master::tasks::NonReadTask"),
    ("master::tasks::NonReadTask::function", "master::tasks::NonReadTask"),
    ("master::tasks::NonReadTask::start", "master::tasks::NonReadTask"),
    ("master::tasks::ReadTask::on_task_error", "master::tasks::ReadTask"),
    ("master::tasks::ReadTask::complete", "master::tasks::ReadTask"),
    ("master::tasks::AppTask::on_task_error", "master::tasks::AppTask"),
    ("master::tasks::Task::on_task_error", "master::tasks::Task"),
]


def r6(ctx):
    prog = ctx.prog
    for fn_, enum in DISPATCHERS:
        bd = prog.body(fn_)
        adt = prog.adt(enum)
        variants = {v["name"] for v in adt["variants"]}
        gi = ctx.gi(bd)
        arms = set()
        wild = False
        for g in gi.all_guards():
            if g.a == ("param", "self") and g.kind == "is":
                arms.add(g.name)
            if g.a == ("param", "self") and g.kind in ("isnot",):
                wild = True
            if g.a == ("param", "self") and g.kind == "oneof":
                arms |= set(g.name)
        name = "::".join(fn_.split("::")[-2:])
        ctx.check(arms == variants and not wild, "exhaustive:%s" % name, "%s has one arm per variant (%d)" % (name, len(variants)), bd.where(line=bd.line), bad_detail="%s: arms %s, variants missing an own arm: %s, wildcard: %s" % (name, len(arms), sorted(variants - arms), wild))
    hb = prog.abody("master::tasks::NonReadTask::handle_response")
    adt = prog.adt("master::tasks::NonReadTask")
    arms = {g.name for g in ctx.gi(hb).all_guards() if g.kind == "is" and g.a in (("capture", "self"), ("param", "self"))}
    ctx.check(arms == {v["name"] for v in adt["variants"]}, "exhaustive:NonReadTask::handle_response", "handle_response has one arm per variant (%d)" % len(arms), hb.where(line=hb.line))
    # NonReadTask::on_task_error forwards to the namesake task
    ob = prog.body("master::tasks::NonReadTask::on_task_error")
    for c in ob.calls():
        cal = c.term.callee or ""
        if not cal.endswith("::on_task_error"):
            continue
        gs = [g for g in ctx.guards_at(ob, c.idx) if g.kind == "is" and g.a == ("param", "self")]
        e = ctx.sym(ob).call_expr(c.term)
        ok = bool(gs) and mentions(e[2][0], lambda s: s[0] == "variant" and s[2] == gs[0].name)
        ctx.check(ok, "on_task_error:forward:%s" % (gs[0].name if gs else "?"), "%s -> %s" % (gs[0].name if gs else "?", short(cal)), ob.where(c.idx))
    # every arm of the error dispatchers hands the task to something that reports
    for fn_ in ("master::tasks::NonReadTask::on_task_error", "master::tasks::ReadTask::on_task_error", "master::tasks::ReadTask::complete", "master::tasks::Task::on_task_error", "master::tasks::AppTask::on_task_error"):
        db_ = prog.body(fn_)
        for g in ctx.gi(db_).all_guards():
            if g.kind == "is" and g.a == ("param", "self"):
                hits = calls_in_blocks(prog, db_, region_of(db_, g), r"::on_task_error$|::complete$|::on_complete$|Association::\w+$|on_\w+_failure$")
                ctx.check(bool(hits), "arm-reports:%s:%s" % ("::".join(fn_.split("::")[-2:]), g.name), "the %s arm reports the outcome (%s)" % (g.name, sorted({short(c) for _, _, c in hits})[:2]), db_.where(g.edge[1]), bad_detail="the %s arm of %s drops the task without reporting an outcome" % (g.name, fn_))
    # queued tasks
    ab = prog.body("master::association::Association::reset")
    dr = calls_in_blocks(prog, ab, ab.live_blocks(), r"Task::on_task_error$")
    ctx.check(bool(dr) and bool(call_sites(ab, r"VecDeque.*::(drain|pop_front)$|::drain$")), "reset:drains-queue", "Association::reset fails every queued task", ab.where(line=ab.line), bad_detail="Association::reset does not fail the queued requests: they get no outcome")
    pm = prog.body("master::association::Association::process_message")
    ps = ctx.sym(pm)
    pushes = call_sites(pm, r"VecDeque.*::push_back$")
    ctx.check(len(pushes) >= 1, "process_message:queue", "process_message queues the task", pm.where(line=pm.line))
    for c in pushes:
        gs = ctx.guards_at(pm, c.idx)
        ctx.check(any(g.kind == "bool" and g.truth is True and g.a in (("param", "is_connected"),) for g in gs) or any(g.kind == "bool" and g.truth is False and mentions_name(g.a, "is_connected") for g in gs) is False and any(mentions_name(x, "is_connected") for g in gs for x in g.exprs()), "process_message:connected-only", "tasks are queued only while connected", pm.where(c.idx))
        ctx.check(any(g.kind == "rel" and (mentions_call(g.a, r"::len$") or mentions_call(g.b, r"::len$")) for g in gs), "process_message:bounded", "the queue is bounded", pm.where(c.idx))
    fails = calls_in_blocks(prog, pm, pm.live_blocks(), r"on_task_error$")
    ctx.check(len(fails) >= 2, "process_message:rejects-have-outcome", "rejected submissions are failed (%d sites)" % len(fails), pm.where(line=pm.line))
    mb = [b for b in prog.bodies.values() if b.path.endswith("AssociationMsg::on_association_failure")]
    if mb:
        ctx.check(bool(calls_in_blocks(prog, mb[0], mb[0].live_blocks(), r"on_task_error$|Promise::complete$|on_association_failure$")), "association-failure:outcome", "messages for an unknown association are failed", mb[0].where(line=mb[0].line))


TASK_BODIES = r"dnp3::master::tasks::(command|deadbands|empty_response|freeze|restart|read|file::\w+|time)::\w+::(handle\w*|on_task_error|on_complete)$"


def r7(ctx):
    prog = ctx.prog
    n = 0
    for bd in prog.bodies.values():
        if not re.search(TASK_BODIES, bd.path) or "::tests::" in bd.path:
            continue
        f = prog.fns.get(bd.path)
        if not f or not f["inputs"] or f["inputs"][0].startswith("&"):
            continue  # only bodies that consume the task
        bd = prog.coroutine_of(bd)  # async fn: the real code is in the coroutine
        sym = ctx.sym(bd)
        outcome = {b.idx for b in call_sites(bd, r"Association::on_time_sync_failure$|Promise::complete$|::on_task_error$|::report_(success|error)$|change_state$|::wrap$|Task(\w*)::new$|::get_procedure$|FileReaderType::(aborted|completed)$|::on_complete$|::handle_\w+$|::aborted$|::completed$|process_\w+$")}
        # also: returning a task built from self (promise moved)
        for b, si, st, e in ret_sites(bd, sym):
            n += 1
            ok = not bd.can_reach(0, b.idx, removed_blocks=outcome) or mentions(e, lambda s: s[0] == "agg" and "Task" in (s[1] or "")) and mentions_field(e, "promise")
            if not ok and any(g.kind == "is" and g.name == "None" and g.a[0] == "field" and g.a[2] == "promise" for g in ctx.guards_at(bd, b.idx)):
                ok = True  # an automatic task carries no promise: nothing to complete
            ctx.check(ok, "outcome@%s#%d" % ("::".join(bd.path.split("::")[-2:]), n), "return `%s` is preceded by a completion / forward" % expr_str(e)[:40], bd.where(b.idx), bad_detail="%s can return `%s` after consuming the task without completing or forwarding its promise" % (bd.path, expr_str(e)[:60]))
    if n < 25:
        raise AnchorError("expected >= 25 consuming task returns, found %d" % n)


WAITERS = ["run_single_non_read_task", "execute_read_task", "run_link_status_task"]


def r8(ctx):
    """A response wait that times out: the deadline handed to sleep_until is computed (clock read) before the wait loop,
    not inside it; otherwise every loop iteration (an unsolicited response, a stale reply, a channel message) re-arms the
    full timeout and a lost reply is never reported."""
    prog = ctx.prog
    n = 0
    for w in WAITERS:
        bd = prog.abody("master::task::MasterSession::" + w)
        sl = call_sites(bd, r"tokio::time::(sleep::)?sleep_until$")
        if not sl:
            raise AnchorError("%s: no sleep_until site" % w)
        for c in sl:
            lp = innermost_loop(bd, c.idx)
            if lp is None:
                raise AnchorError("%s: the timeout wait is not in a loop" % w)
            clock = slice_call_blocks(bd, c.term.args[0], r"Timeout::deadline_from_now$|Instant::now$")
            if not clock:
                raise AnchorError("%s: the deadline does not derive from a clock read" % w)
            inside = [b for b in clock if b in lp[1]]
            n += 1
            ctx.check(not inside, "deadline-before-wait-loop@%s" % w, "the deadline of the wait in %s is fixed before its wait loop (header bb%d)" % (w, lp[0]), bd.where(c.idx), bad_detail="%s re-computes its response deadline inside the wait loop (clock read at %s): any loop iteration postpones the timeout, a lost reply need never be reported" % (w, ", ".join(bd.where(b) for b in inside)))
    if n < 3:
        raise AnchorError("expected 3 response waits, found %d" % n)


def r9(ctx):
    """'...disconnect, disable or shutdown yields the corresponding error': wherever one of the stop / task error enums is translated
    into another (TaskError <-> StopReason <-> RunError <-> Shutdown), the variant built is the namesake of the variant matched
    (Disabled -> Disable, Shutdown -> Shutdown): a disable reported as a shutdown closes the channel for good and fails the queued
    requests with the wrong error."""
    prog = ctx.prog
    fam = r"(TaskError|StopReason|RunError|Shutdown|LinkError)$"
    def nm(x):
        return re.sub(r"[^a-z]", "", x.lower())
    n = 0
    for bd in prog.bodies_matching(r"^(<)?dnp3::(master|util|outstation)::"):
        if "::test" in bd.path:
            continue
        for b, si, st in bd.assigns():
            rv = st.rv
            if rv["k"] != "agg" or rv.get("ak") != "enum" or not re.search(r"(StopReason|TaskError)$", rv["adt"]) or rv.get("ops"):
                continue
            gs = [g for g in ctx.guards_at(bd, b.idx) if g.kind == "is" and g.enum and re.search(fam, g.enum) and g.enum != rv["adt"] and not is_tracing(g.macros)]
            if not gs:
                continue
            g = min(gs, key=lambda g: len(bd.region_of_edge(g.edge)))
            src, dst = nm(g.name), nm(rv["var"])
            if not (src.startswith(dst) or dst.startswith(src)) and not ({"shutdown", "disable", "disabled"} & {src, dst}):
                continue  # unrelated variants (e.g. Link(_) arms building something else) are not a stop-reason translation
            n += 1
            ctx.check(src.startswith(dst) or dst.startswith(src), "stop-reason@%s:%s::%s" % (short(bd.path), g.enum.split("::")[-1], g.name), "%s::%s -> %s::%s" % (g.enum.split("::")[-1], g.name, rv["adt"].split("::")[-1], rv["var"]), bd.where(b.idx), bad_detail="%s::%s is translated to %s::%s" % (g.enum.split("::")[-1], g.name, rv["adt"].split("::")[-1], rv["var"]))
    if n < 2:
        raise AnchorError("stop-reason translations: %d" % n)


def r10(ctx):
    """'IIN2 rejection ... yields the corresponding error': Iin::has_bad_request_error() looks at NO_FUNC_CODE_SUPPORT, OBJECT_UNKNOWN
    and PARAMETER_ERROR through their getters; a getter that tests the wrong bit lets a rejected command report success. Bit positions
    and getters are rule C13.R1 (shared code); here also: has_bad_request_error consults all three."""
    import c13
    c13.r1(ctx)
    prog = ctx.prog
    hb = prog.body("app::header::Iin::has_bad_request_error")
    got = {c.term.callee.split("::")[-1] for c in hb.calls() if (c.term.callee or "").startswith("dnp3::app::header::Iin2::get_")}
    want = {"get_no_func_code_support", "get_object_unknown", "get_parameter_error"}
    ctx.check(want <= got, "has_bad_request_error:all-three", "has_bad_request_error consults %s" % sorted(got), hb.where(line=hb.line), bad_detail="has_bad_request_error consults only %s" % sorted(got))

def r11(ctx):
    """'status SUCCESS' in the echo test means the octet 0 and nothing else: rests on C09.R14 (shared code). 'from the addressed
    outstation whose sequence number matches': the acceptance conjuncts of validate_non_read_response are rule C15.R1 (shared)."""
    import c09, c15
    c09.r14(ctx)
    c15.r1(ctx)

def r12(ctx):
    """'...timeout, disconnect, disable or shutdown yields the corresponding error', 'every user request ... completes exactly once
    within a number of response timeouts': while the channel has no connection (waiting to reconnect, disabled) a submitted request is
    failed immediately with NoConnection; only inside a running session is it queued. The flag is a literal at every call site."""
    prog = ctx.prog
    n = 0
    for bd in prog.bodies_matching(r"^dnp3::master::task::MasterSession::"):
        sym = ctx.sym(bd)
        for c in call_sites(bd, r"MasterSession::process_message$"):
            n += 1
            a = sym.call_expr(c.term)[2][1]
            caller = bd.path.split("MasterSession::")[1].split("::")[0]
            v = const_value(prog, a)
            want = 0 if caller == "process_next_message" else 1
            ctx.check(v == want, "process_message:connected@%s" % caller, "%s calls process_message(%s)" % (caller, expr_str(a)[:30]), bd.where(c.idx), bad_detail="%s calls process_message(is_connected = %s), expected the literal %s: requests submitted in that state are %s" % (caller, expr_str(a)[:40], bool(want), "queued with no session to run them" if not want else "rejected although a session is running"))
    if n < 4:
        raise AnchorError("process_message call sites: %d" % n)
    # a message stops a SESSION only (is_connected) and only once the channel is no longer enabled; while waiting to be enabled only a
    # shutdown ends the task - a redundant disable() must not turn every later request into Shutdown
    pm = prog.abody("master::task::MasterSession::process_message")
    for b, si, st in agg_sites(pm, r"StopReason$", "Disable"):
        ctx.require_guards(pm, b.idx, [
            ("is_connected", g_bool(lambda x: x in (("param", "is_connected"), ("capture", "is_connected")), True)),
            ("enabled != Yes", g_not_variant(lambda x: mentions_field(x, "enabled"), "Yes")),
        ], "process_message:Disable", "Err(StopReason::Disable)")
    we = prog.abody("util::session::Session::wait_for_enabled")
    ws = ctx.sym(we)
    sh = [(b, e) for b, si, st, e in ret_sites(we, ws) if e[0] == "agg" and e[2] == "Err"]
    ctx.check(bool(sh), "wait_for_enabled:Err-site", "wait_for_enabled has a shutdown exit", we.where(line=we.line))
    for b, e in sh:
        ctx.require_guards(we, b.idx, [("the stop reason is Shutdown", g_is(lambda x: mentions_call(x, r"process_next_message$"), "Shutdown"))], "wait_for_enabled:only-shutdown", "Err(Shutdown)")

RULES = [
    ("C16.R1", "T2", "command success and SELECT->OPERATE only behind a parsed, faithful echo", r1),
    ("C16.R2", "T2", "echo comparison: status SUCCESS, index+value equality, exact object and header counts", r2),
    ("C16.R3", "T5/T4", "the objects and the function code of each SBO step", r3),
    ("C16.R4", "T9", "promises / file readers complete at most once and fire on drop", r4),
    ("C16.R5", "T3", "task runners give every exit an outcome", r5),
    ("C16.R6", "T3/T4", "queued tasks are failed on reset / rejection; dispatchers are exhaustive", r6),
    ("C16.R7", "T3", "every task handle/on_task_error completes or forwards its promise", r7),
    ("C16.R8", "T2-loop", "response deadlines are fixed before the wait loop", r8),
    ("C16.R9", "T4-namesake", "stop / task error translations build the namesake variant (Disabled -> Disable, Shutdown -> Shutdown)", r9),
    ("C16.R10", "T11/T4", "the IIN2 rejection test sees every error bit (bit positions and getters, shared with C13.R1)", r10),
    ("C16.R11", "T4/T9", "command status codes: unknown octets preserved, equality variant-sensitive (shared with C09.R14); non-READ acceptance tests (shared with C15.R1)", r11),
    ("C16.R12", "T8-const", "requests submitted while no session is running fail at once (process_message(false)); inside a session they are queued (true)", r12),
]


def r13(ctx):
    """'the request carries the commands the user added': the ten CommandBuilder::add_g<G>v<V>_u<W> siblings agree - each either
    extends the header under construction when it has the namesake type, or pushes it (the value taken from self.partial) onto
    self.headers and starts a header of its own type; none drops the header in progress, none builds another sibling's header type."""
    prog = ctx.prog
    fns = [b for b in prog.bodies.values() if re.search(r"request::CommandBuilder::add_g\d+v\d+_u(8|16)$", b.path)]
    if len(fns) != 10:
        raise AnchorError("CommandBuilder::add_g*_u*: %d" % len(fns))
    for bd in fns:
        m = re.search(r"add_g(\d+)v(\d+)_u(8|16)$", bd.path)
        want = "G%sV%sU%s" % m.groups()
        sym = ctx.sym(bd)
        pushes = []
        for c in call_sites(bd, r"Vec<.*>::push$|vec::Vec::push$"):
            e = sym.call_expr(c.term)
            if mentions_field(e[2][0], "headers"):
                pushes.append(e[2][1])
        ok = len(pushes) == 1 and mentions_field(pushes[0], "partial") and mentions_call(pushes[0], r"Option(<.*>)?::take$")
        ctx.check(ok, "builder:keeps-partial@%s" % want, "the header in progress is pushed onto self.headers when the type changes", bd.where(line=bd.line), bad_detail="%s does not push the header it took from self.partial onto self.headers: the objects added before are silently dropped from the request" % short(bd.path))
        built = {st.rv["var"] for b, si, st in agg_sites(bd, r"request::CommandHeader$")}
        ctx.check(built <= {want} , "builder:namesake@%s" % want, "builds CommandHeader::%s only (%s)" % (want, sorted(built)), bd.where(line=bd.line))


RULES.append(("C16.R13", "T-sibling", "the CommandBuilder add_* siblings keep the header in progress and build their namesake header type", r13))


def r14(ctx):
    """'every user request completes exactly once within a number of response timeouts': a queued request whose start is cancelled
    must not strand the requests queued behind it - Association::priority_task keeps popping until a request starts or the queue is
    empty (C19.R9, shared code)."""
    import c19
    c19.r9(ctx)


RULES.append(("C16.R14", "T2-loop", "the user request queue is drained until a request starts (shared with C19.R9)", r14))


def r15(ctx):
    """'accepts only the echo of ITS command': the association's request sequence number is not part of what a session reset clears - a
    retried command after a reconnect carries a new number, so a late reply to the failed attempt is not taken for its echo (the reset
    discipline of Association::reset is rule C17.R3, shared code)."""
    import c17
    c17.r3(ctx)


RULES.append(("C16.R15", "T2", "a session reset clears only what C17.R3 lists (the request sequence number survives) (shared with C17.R3)", r15))


def r16(ctx):
    """'every user request completes': registering an association either succeeds or leaves the map and the scheduling order as they
    were - in AssociationMap::register every mutation of `map` / `priority` is behind the duplicate-address test, so a refused
    add_association cannot knock the existing association out of the rotation (its requests would be queued and never started)."""
    prog = ctx.prog
    bd = prog.body("master::association::AssociationMap::register")
    sym = ctx.sym(bd)
    dup = g_bool(lambda x: mentions_call(x, r"::contains_key$") and mentions_field(x, "map"), False)
    n = 0
    for c in bd.calls():
        cal = c.term.callee or c.term.declared or ""
        if is_tracing(c.term.macros) or not re.search(r"::(push_back|push_front|insert|retain|remove|clear|pop_front|pop_back|rotate_left|rotate_right|swap_remove_back|drain)$", cal):
            continue
        e = sym.call_expr(c.term)
        if not (mentions_field(e[2][0], "priority") or mentions_field(e[2][0], "map")):
            continue
        n += 1
        ctx.require_guards(bd, c.idx, [("the address is not registered yet", dup)], "register:mutation@%s" % cal.split("::")[-1], "a mutation of the association table")
    if n < 2:
        raise AnchorError("AssociationMap::register: mutations %d" % n)


RULES.append(("C16.R16", "T2", "a refused registration mutates nothing (every table mutation is behind the duplicate test)", r16))
