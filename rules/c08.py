"""C08 — the transport layer delivers exactly the fragments that were segmented."""
import json
import os

from engine import *
from mir import *

EXPLANATION = (
    "Assembler::assemble: a continuation segment is appended only under sequence equality with previous.seq.next() AND info equality with "
    "the previous segment's link info, each failing edge dropping to Empty and returning ReadMore; from Empty only a FIR segment is appended; "
    "FIR clears the state first; a Complete fragment is replaced. Assembler::append: Complete only under fin after a successful write, the "
    "overflow arm drops to Empty, the write offset is the accumulated length and the new length feeds both states; the fragment's source is "
    "the segment's. Writer::write: FIN <- count == last, FIR <- count == 0 (both bool: argument order is not type-checked), SEQ <- "
    "seq.increment(), segments of 249 bytes with the header octet from Header::to_u8. Header/Sequence masks equal the standard; sequence "
    "wraps at 0x3F. Reader and writer are reset on every exit of the session tasks."
)
ASSUMPTIONS = ["byte equality end to end and 'costs only the affected fragment' over all segment histories are not decided"]
TRUSTED = ["rustc nightly MIR", "facts driver", "tables/ieee1815.json", "rules/mir.py"]
REF = json.load(open(os.path.join(VERIF, "tables", "ieee1815.json")))
T = REF["transport"]


def r1(ctx):
    prog = ctx.prog
    bd = prog.body("transport::real::assembler::Assembler::assemble")
    sym = ctx.sym(bd)
    apps = call_sites(bd, r"Assembler::append$")
    if len(apps) != 4:
        raise AnchorError("assemble: expected 4 append sites (broadcast, Complete, Empty, Running), found %d" % len(apps))
    st_is = lambda n: g_is(lambda x: x[0] == "field" and x[2] == "state", n)
    running = [b for b in apps if any(st_is("Running")(g) for g in ctx.guards_at(bd, b.idx))]
    if len(running) != 1:
        raise AnchorError("assemble: Running-arm append")
    r = running[0]
    ctx.require_guards(bd, r.idx, [
        ("seq == previous.seq.next()", g_rel("Eq", lambda x: mentions_name(x, "header") and mentions_field(x, "seq"), lambda x: mentions_call(x, r"real::sequence::Sequence::next$") and mentions(x, lambda s: s[0] == "variant" and s[2] == "Running"))),
        ("info == previous_info", g_rel("Eq", lambda x: x in (("param", "info"),), lambda x: mentions(x, lambda s: s[0] == "variant" and s[2] == "Running"))),
        ("not a broadcast", g_is(lambda x: mentions_field(x, "broadcast"), "None")),
    ], "running-append", "append of a continuation segment")
    e = sym.call_expr(r.term)
    ctx.check(mentions(e[2][3], lambda s: s[0] == "variant" and s[2] == "Running"), "running-append:offset", "continuation is written at the accumulated length (%s)" % expr_str(e[2][3]), bd.where(r.idx))
    ctx.check(e[2][1] == ("param", "info") and e[2][2] == ("param", "header") and e[2][4] == ("param", "payload"), "running-append:args", "append(info, header, length, payload)", bd.where(r.idx))
    # failing edges: drop to Empty and ReadMore
    gi = ctx.gi(bd)
    fails = [g for g in gi.all_guards() if g.kind == "rel" and g.op == "Ne" and any(st_is("Running")(d) for d in gi.dominating(g.edge[0])) and not is_tracing(g.macros)]
    ctx.check(len(fails) == 2, "running:two-tests", "the Running arm has two rejecting tests (%d)" % len(fails), bd.where(line=bd.line))
    for g in fails:
        region = region_of(bd, g)
        emp = [b for b, si, st in field_writes(bd, "state") if b.idx in region and variant_name(sym.rvalue_expr(st.rv)) == "Empty"]
        rets = [(b, e2) for b, si, st, e2 in ret_sites(bd, sym) if b.idx in region]
        ok = bool(emp) and bool(rets) and all(variant_name(e2) == "ReadMore" for _, e2 in rets) and not [a for a in apps if a.idx in region]
        ctx.check(ok, "running-reject:%s" % ("seq" if mentions_field(g.a, "seq") or mentions_field(g.b, "seq") else "info"), "a mismatching segment drops the assembly (state = Empty, ReadMore, no append)", bd.where(g.edge[1]))
    # other arms start at offset 0
    for b in apps:
        if b is r:
            continue
        e = sym.call_expr(b.term)
        ctx.check(const_value(prog, e[2][3]) == 0, "fresh-append:offset0@%d" % apps.index(b), "a first segment is written at offset 0", bd.where(b.idx))


def r2(ctx):
    prog = ctx.prog
    bd = prog.body("transport::real::assembler::Assembler::assemble")
    sym = ctx.sym(bd)
    apps = call_sites(bd, r"Assembler::append$")
    st_is = lambda n: g_is(lambda x: x[0] == "field" and x[2] == "state", n)
    fir = g_bool(lambda x: x == ("field", ("param", "header"), "fir"), True)
    empty = [b for b in apps if any(st_is("Empty")(g) for g in ctx.guards_at(bd, b.idx))]
    ctx.check(len(empty) == 1, "empty-arm:append", "one append in the Empty arm", bd.where(line=bd.line))
    for b in empty:
        ctx.require_guards(bd, b.idx, [("header.fir", fir)], "empty-append", "append from the Empty state")
    # FIR clears the state before anything else
    first = [g for g in ctx.gi(bd).by_switch.get(0, [])]
    ws = [(b, si, st) for b, si, st in field_writes(bd, "state")]
    top = [b for b, si, st in ws if variant_name(sym.rvalue_expr(st.rv)) == "Empty" and any(fir(g) for g in ctx.guards_at(bd, b.idx)) and not any(g.kind == "is" and mentions_field(g.a, "broadcast") for g in ctx.guards_at(bd, b.idx)) and not any(st_is(n)(g) for n in ("Empty", "Running", "Complete") for g in ctx.guards_at(bd, b.idx) if not is_tracing(g.macros) and g.edge[0] != 0 and False)]
    ctx.check(bool(top), "fir-clears-state", "a FIR segment resets the state to Empty first", bd.where(top[0].idx) if top else bd.where(line=bd.line))
    if top:
        bc = [g for g in ctx.gi(bd).all_guards() if g.kind == "is" and mentions_field(g.a, "broadcast")]
        firs = [g for g in ctx.gi(bd).all_guards() if fir(g) and bc and bd.block_dominates(g.edge[0], bc[0].edge[0])]
        ok = bool(bc) and bool(firs) and all(must_pass(bd, g.edge[1], bc[0].edge[0], {top[0].idx}) for g in firs)
        ctx.check(ok, "fir-clear:before-dispatch", "on the FIR edge the reset precedes the broadcast test and the state dispatch", bd.where(top[0].idx))
    comp = [b for b in apps if any(st_is("Complete")(g) for g in ctx.guards_at(bd, b.idx))]
    for b in comp:
        pre = [w for w, si, st in ws if variant_name(sym.rvalue_expr(st.rv)) == "Empty" and bd.block_dominates(w.idx, b.idx) and any(st_is("Complete")(g) for g in ctx.guards_at(bd, w.idx))]
        ctx.check(bool(pre), "complete-arm:replaced", "an unread Complete fragment is discarded before the new segment is appended", bd.where(b.idx))


def r3(ctx):
    prog = ctx.prog
    bd = prog.body("transport::real::assembler::Assembler::append")
    sym = ctx.sym(bd)
    wr = call_sites(bd, r"WriteCursor::write_bytes$")
    sk = call_sites(bd, r"WriteCursor::skip$")
    if len(wr) != 1 or len(sk) != 1:
        raise AnchorError("append: write/skip")
    ctx.check(sym.call_expr(sk[0].term)[2][1] == ("param", "acc_length"), "append:offset", "cursor.skip(acc_length)", bd.where(sk[0].idx))
    ctx.check(sym.call_expr(wr[0].term)[2][1] == ("param", "data"), "append:data", "cursor.write_bytes(data)", bd.where(wr[0].idx))
    ctx.check(bd.block_dominates(sk[0].idx, wr[0].idx), "append:skip-before-write", "the skip precedes the write", bd.where(wr[0].idx))
    wok = lambda n: g_is(lambda x: mentions_call(x, r"WriteCursor::write_bytes$"), n)
    fin = lambda t: g_bool(lambda x: x == ("field", ("param", "header"), "fin"), t)
    n = {}
    writes = []
    for b, si, st in field_writes(bd, "state"):
        # one (value, block) pair per arm when the stored value is chosen by an `if` / `match` in front of a single store
        for gs_, e, vb in value_arms(ctx, bd, sym, sym.rvalue_expr(st.rv), b.idx):
            writes.append((e, vb))
    for e, vb in writes:
        class _B:  # the block whose guards decide this outcome
            idx = vb
        b = _B
        v = variant_name(e)
        n[v] = n.get(v, 0) + 1
        if v == "Complete":
            ctx.require_guards(bd, b.idx, [("write Ok", wok("Ok")), ("header.fin", fin(True))], "append:Complete", "state := Complete")
            ln = agg_field(e, "1")
            ctx.check(mentions_name(ln, "acc_length") and mentions_name(ln, "data") and mentions(ln, lambda s: s[0] == "bin" and s[1] in ("Add", "AddWithOverflow")), "append:Complete:length", "length = acc_length + data.len()", bd.where(b.idx))
            info = agg_field(e, "0")
            ctx.check(mentions_call(info, r"FragmentInfo::new$"), "append:Complete:info", "FragmentInfo::new(..)", bd.where(b.idx))
        elif v == "Running":
            ctx.require_guards(bd, b.idx, [("write Ok", wok("Ok")), ("!header.fin", fin(False))], "append:Running", "state := Running")
            ln = agg_field(e, "2")
            ctx.check(mentions_name(ln, "acc_length") and mentions_name(ln, "data"), "append:Running:length", "length = acc_length + data.len()", bd.where(b.idx))
            ctx.check(agg_field(e, "0") == ("param", "info") and agg_field(e, "1") == ("param", "header"), "append:Running:info+header", "Running(info, header, ..)", bd.where(b.idx))
        elif v == "Empty":
            ctx.require_guards(bd, b.idx, [("write Err (overflow)", wok("Err"))], "append:overflow", "state := Empty")
        else:
            ctx.bad("append:state-write", "unexpected state write %s" % expr_str(e), bd.where(b.idx))
    ctx.check(n == {"Complete": 1, "Running": 1, "Empty": 1}, "append:three-outcomes", "append has exactly the three outcomes (%s)" % n, bd.where(line=bd.line))
    # peek/pop hand out exactly the recorded size
    for fn_ in ("peek", "pop"):
        pb = prog.body("transport::real::assembler::Assembler::" + fn_)
        ps = ctx.sym(pb)
        for b in call_sites(pb, r"util::buffer::Buffer::get$"):
            e = ps.call_expr(b.term)
            ctx.check(mentions(e[2][1], lambda s: s[0] == "variant" and s[2] == "Complete"), "%s:size" % fn_, "%s returns buffer.get(size of Complete)" % fn_, pb.where(b.idx))
            ctx.require_guards(pb, b.idx, [("state is Complete", g_is("state", "Complete"))], "%s:only-complete" % fn_, "%s" % fn_)
    pb = prog.body("transport::real::assembler::Assembler::pop")
    ws = [variant_name(ctx.sym(pb).rvalue_expr(st.rv)) for b, si, st in field_writes(pb, "state")]
    ctx.check(ws == ["Empty"], "pop:consumes", "pop returns the state to Empty", pb.where(line=pb.line))


def r4(ctx):
    prog = ctx.prog
    bd = prog.body("transport::real::assembler::Assembler::append")
    sym = ctx.sym(bd)
    found = False
    for b, si, st in agg_sites(bd, r"transport::types::FragmentAddr$"):
        e = sym.rvalue_expr(st.rv)
        found = True
        ctx.check(agg_field(e, "link") == ("field", ("param", "info"), "source"), "fragment-addr:link", "FragmentAddr.link = %s" % expr_str(agg_field(e, "link")), bd.where(b.idx))
        ctx.check(agg_field(e, "phys") == ("field", ("param", "info"), "phys_addr"), "fragment-addr:phys", "FragmentAddr.phys = %s" % expr_str(agg_field(e, "phys")), bd.where(b.idx))
    if not found:
        raise AnchorError("FragmentAddr not built in append")
    for b in call_sites(bd, r"FragmentInfo::new$"):
        e = sym.call_expr(b.term)
        ctx.check(e[2][2] == ("field", ("param", "info"), "broadcast"), "fragment-info:broadcast", "broadcast flag = %s" % expr_str(e[2][2]), bd.where(b.idx))
    fb = prog.body("transport::types::FragmentInfo::new")
    for b, si, st, e in ret_sites(fb, ctx.sym(fb)):
        if e[0] == "agg":
            for fname, fe in e[3]:
                ctx.check(fe == ("param", fname), "FragmentInfo::new:%s" % fname, "%s <- %s" % (fname, expr_str(fe)), fb.where(b.idx))
    # the reader hands the segment's own link info and payload to the assembler
    rb = prog.abody("transport::real::reader::Reader::read")
    rs = ctx.sym(rb)
    for b in call_sites(rb, r"Assembler::assemble$"):
        e = rs.call_expr(b.term)
        ctx.check(mentions_call(e[2][1], r"link::layer::Layer::read$"), "assemble:info-src", "info = the frame just read", rb.where(b.idx))
        ctx.check(mentions_call(e[2][2], r"real::header::Header::from_u8$") and mentions_call(e[2][2], r"FramePayload::get$"), "assemble:header-src", "header = Header::from_u8(first payload octet)", rb.where(b.idx))
        ctx.check(mentions_call(e[2][3], r"FramePayload::get$"), "assemble:data-src", "data = rest of the payload", rb.where(b.idx))
        ctx.require_guards(rb, b.idx, [("frame_type is Data", g_is("frame_type", "Data"))], "assemble:only-data-frames", "assemble")


def r5(ctx):
    prog = ctx.prog
    bd = prog.abody("transport::real::writer::Writer::write")
    sym = ctx.sym(bd)
    hs = call_sites(bd, r"real::header::Header::new$")
    if len(hs) != 1:
        raise AnchorError("Writer::write: Header::new")
    e = sym.call_expr(hs[0].term)
    fin, fir, seq = e[2]
    is_eq = lambda x, pred: x[0] == "bin" and x[1] == "Eq" and pred(x)
    # FIN <- count == (index of the last chunk): `len - 1` guarded for the empty case, or `len.saturating_sub(1)`; via a variable or not
    minus1 = lambda d: (mentions(d, lambda s: s[0] == "bin" and s[1] in ("Sub", "SubWithOverflow")) or mentions_call(d, r"saturating_sub$")) and mentions_const(d, 1) and mentions_call(d, r"::len$")
    lasts = [x for side in (fin[2], fin[3]) for x in resolve_defs(bd, sym, side, depth=3)] if fin[0] == "bin" and fin[1] == "Eq" else []
    lasts = [x for x in lasts if not mentions_call(x, r"enumerate$")]
    ctx.check(bool(lasts) and any(minus1(x) for x in lasts) and all(minus1(x) or const_value(prog, x) == 0 for x in lasts), "writer:fin", "FIN <- count == last (%s)" % expr_str(fin)[:80], bd.where(hs[0].idx), bad_detail="FIN argument = %s" % expr_str(fin)[:100])
    ctx.check(is_eq(fir, lambda x: mentions_const(x, 0) and not mentions_name(x, "last")), "writer:fir", "FIR <- count == 0 (%s)" % expr_str(fir)[:80], bd.where(hs[0].idx), bad_detail="FIR argument = %s" % expr_str(fir)[:100])
    ctx.check(mentions_call(seq, r"real::sequence::Sequence::increment$") and mentions_field(seq, "seq"), "writer:seq", "SEQ <- self.seq.increment()", bd.where(hs[0].idx))
    hb = prog.body("transport::real::header::Header::new")
    for b, si, st, e2 in ret_sites(hb, ctx.sym(hb)):
        if e2[0] == "agg":
            for fname, fe in e2[3]:
                ctx.check(fe == ("param", fname), "Header::new:%s" % fname, "%s <- %s" % (fname, expr_str(fe)), hb.where(b.idx))
    params = prog.fns.get(hb.path, {}).get("params")
    ctx.check(params == ["fin", "fir", "seq"], "Header::new:param-order", "Header::new(fin, fir, seq): %s" % params, hb.where(line=hb.line))
    # `last`
    sat = any(mentions_call(x, r"saturating_sub$") for x in lasts)
    ok = sat or (any(const_value(prog, d) == 0 for d in lasts) and any(minus1(d) for d in lasts))
    ctx.check(ok, "writer:last", "last = chunks.len() - 1 (0 when empty)", bd.where(line=bd.line))
    ch = [c for c in bd.calls() if re.search(r"::chunks$", c.term.callee or "")]
    ok = len(ch) == 1 and (const_value(prog, sym.call_expr(ch[0].term)[2][1]) == T["MAX_PAYLOAD"]) and sym.call_expr(ch[0].term)[2][0] in (("capture", "fragment"), ("param", "fragment"))
    ctx.check(ok, "writer:chunks(249)", "the fragment is cut into 249-byte segments", bd.where(ch[0].idx) if ch else "")
    for b in call_sites(bd, r"link::format::Payload::new$"):
        e = sym.call_expr(b.term)
        ctx.check(mentions_call(e[2][0], r"real::header::Header::to_u8$"), "writer:payload-header", "Payload::new(header.to_u8(), chunk)", bd.where(b.idx))
        ctx.check(mentions_call(e[2][1], r"::next$"), "writer:payload-chunk", "payload = the current chunk", bd.where(b.idx))
    for b in call_sites(bd, r"link::header::Header::unconfirmed_user_data$"):
        e = sym.call_expr(b.term)
        ctx.check(mentions_call(e[2][0], r"EndpointType::dir_bit$") and mentions_field(e[2][1], "link") and mentions_name(e[2][1], "destination") and mentions_field(e[2][2], "local_address"), "writer:link-header", "unconfirmed_user_data(dir, destination.link, local_address)", bd.where(b.idx))
    for b in call_sites(bd, r"PhysLayer::write$"):
        e = sym.call_expr(b.term)
        ctx.check(mentions_call(e[2][1], r"format_data_frame$") and mentions_field(e[2][1], "frame"), "writer:tx-frame", "transmits the formatted frame", bd.where(b.idx))


def r6(ctx):
    prog = ctx.prog
    for name, key in (("FIN_MASK", "FIN_MASK"), ("FIR_MASK", "FIR_MASK")):
        v = prog.const("transport::real::constants::" + name).get("v")
        ctx.check(v == T[key], "transport:%s" % name, "%s = %s" % (name, v))
    v = prog.const("transport::real::sequence::Sequence::MAX_VALUE").get("v")
    ctx.check(v == T["SEQ_MASK"], "transport:SEQ_MASK", "Sequence::MAX_VALUE = %s" % v)
    fb = prog.body("transport::real::header::Header::from_u8")
    for b, si, st, e in ret_sites(fb, ctx.sym(fb)):
        if e[0] != "agg":
            continue
        for f, m in (("fin", "FIN_MASK"), ("fir", "FIR_MASK")):
            fe = agg_field(e, f)
            ctx.check(fe is not None and mentions_constdef(fe, m + "$") and mentions(fe, lambda s: s[0] == "bin" and s[1] == "BitAnd") and mentions(fe, lambda s: s[0] == "bin" and s[1] == "Ne"), "Header::from_u8:%s" % f, "%s <- value & %s != 0" % (f, m), fb.where(b.idx))
        ctx.check(mentions_call(agg_field(e, "seq"), r"real::sequence::Sequence::new$"), "Header::from_u8:seq", "seq <- Sequence::new(value)", fb.where(b.idx))
    tb = prog.body("transport::real::header::Header::to_u8")
    ts = ctx.sym(tb)
    seen = {}
    for b, si, st in tb.assigns():
        e = ts.rvalue_expr(st.rv)
        for c in expr_walk(e):
            if c[0] == "const" and isinstance(c[2], str) and c[2].endswith("_MASK"):
                for g in ctx.guards_at(tb, b.idx):
                    if g.kind == "bool" and g.truth and g.a[0] == "field":
                        seen[g.a[2]] = c[2].split("::")[-1]
    ctx.check(seen.get("fin") == "FIN_MASK" and seen.get("fir") == "FIR_MASK", "Header::to_u8:masks", "fin -> FIN_MASK, fir -> FIR_MASK (%s)" % seen, tb.where(line=tb.line))
    e = [x for _, _, _, x in ret_sites(tb, ts)]
    ctx.check(bool(e) and mentions_call(e[0], r"real::sequence::Sequence::value$") and mentions(e[0], lambda s: s[0] == "bin" and s[1] == "BitOr"), "Header::to_u8:seq", "acc | seq.value()", tb.where(line=tb.line))
    nb = prog.body("transport::real::sequence::Sequence::new")
    e = [x for _, _, _, x in ret_sites(nb, ctx.sym(nb))]
    ctx.check(bool(e) and mentions_constdef(e[0], r"MAX_VALUE$") and mentions(e[0], lambda s: s[0] == "bin" and s[1] == "BitAnd"), "Sequence::new:mask", "value & MAX_VALUE", nb.where(line=nb.line))
    cb = prog.body("transport::real::sequence::Sequence::calc_next")
    cs = ctx.sym(cb)
    for b, si, st, e in ret_sites(cb, cs):
        gs = ctx.guards_at(cb, b.idx)
        if const_value(prog, e) == 0:
            ctx.require_guards(cb, b.idx, [("value == MAX_VALUE", g_rel("Eq", "value", lambda x: mentions_constdef(x, r"MAX_VALUE$") or const_value(prog, x) == 63))], "calc_next:wrap", "wrap to 0")
        else:
            ok = mentions(e, lambda s: s[0] == "bin" and s[1] in ("Add", "AddWithOverflow")) and mentions_const(e, 1)
            ctx.check(ok, "calc_next:+1", "value + 1 otherwise", cb.where(b.idx))
            ctx.require_guards(cb, b.idx, [("value != MAX_VALUE", g_rel("Ne", "value", lambda x: mentions_constdef(x, r"MAX_VALUE$") or const_value(prog, x) == 63))], "calc_next:+1", "value + 1")
    ib = prog.body("transport::real::sequence::Sequence::increment")
    ctx.check(bool(call_sites(ib, r"Sequence::calc_next$")) and bool(field_writes(ib, "value")), "Sequence::increment", "increment stores calc_next and returns the old value", ib.where(line=ib.line))
    xb = prog.body("transport::real::sequence::Sequence::next")
    ctx.check(bool(call_sites(xb, r"Sequence::calc_next$")), "Sequence::next", "next = calc_next(value)", xb.where(line=xb.line))


def r7(ctx):
    prog = ctx.prog
    ob = prog.abody("outstation::task::OutstationTask::run")
    for rx, nm in ((r"TransportReader::reset$", "reader"), (r"TransportWriter::reset$", "writer")):
        rs = {b.idx for b in call_sites(ob, rx)}
        ok = bool(rs) and all(must_pass(ob, 0, r, rs) for r in return_blocks(ob))
        ctx.check(ok, "outstation-task:%s-reset" % nm, "every exit of OutstationTask::run resets the %s" % nm, ob.where(line=ob.line))
    mb = prog.abody("master::task::MasterTask::run")
    for rx, nm in ((r"TransportReader::reset$", "reader"), (r"TransportWriter::reset$", "writer")):
        rs = {b.idx for b in call_sites(mb, rx)}
        ok = bool(rs) and all(must_pass(mb, 0, r, rs) for r in return_blocks(mb))
        ctx.check(ok, "master-task:%s-reset" % nm, "every exit of MasterTask::run resets the %s" % nm, mb.where(line=mb.line))
    rb = prog.body("transport::real::reader::Reader::reset")
    ctx.check(bool(call_sites(rb, r"Assembler::reset$")) and bool(call_sites(rb, r"link::layer::Layer::reset$")), "Reader::reset", "Reader::reset resets assembler and link layer", rb.where(line=rb.line))
    ab = prog.body("transport::real::assembler::Assembler::reset")
    ws = [variant_name(ctx.sym(ab).rvalue_expr(st.rv)) for b, si, st in field_writes(ab, "state")]
    ctx.check(ws == ["Empty"], "Assembler::reset", "Assembler::reset -> Empty", ab.where(line=ab.line))
    lb = prog.body("link::layer::Layer::reset")
    ctx.check(bool(call_sites(lb, r"link::reader::Reader::reset$")), "Layer::reset", "Layer::reset resets the link reader", lb.where(line=lb.line))
    # ...down to the bottom: the link reader drops its buffered bytes AND its parser state, the parser goes back to FindSync1,
    # the link layer forgets the secondary-station state. A reset that leaves the parser mid-frame makes the next session's first
    # bytes the "body" of a stale header (lost frame in discard mode, every following session failing in close mode).
    sb_ = ctx.sym(lb)
    ws_ = [variant_name(sb_.rvalue_expr(st.rv)) for b, si, st in field_writes(lb, "secondary_state")]
    ctx.check(ws_ == ["NotReset"], "Layer::reset:secondary", "Layer::reset -> SecondaryState::NotReset (%s)" % ws_, lb.where(line=lb.line))
    lr = prog.body("link::reader::Reader::reset")
    for rx, nm in ((r"link::reader::ReadBuffer::reset$", "buffer"), (r"link::parser::Parser::reset$", "parser")):
        rs = {b.idx for b in call_sites(lr, rx)}
        ok = bool(rs) and all(must_pass(lr, 0, r, rs) for r in return_blocks(lr))
        ctx.check(ok, "link-Reader::reset:%s" % nm, "link::reader::Reader::reset resets its %s on every path" % nm, lr.where(line=lr.line), bad_detail="link::reader::Reader::reset does not reset its %s: state of the previous session leaks into the next one" % nm)
    pb_ = prog.body("link::parser::Parser::reset")
    ws_ = [variant_name(ctx.sym(pb_).rvalue_expr(st.rv)) for b, si, st in field_writes(pb_, "state")]
    ctx.check(ws_ == ["FindSync1"], "Parser::reset", "Parser::reset -> FindSync1 (%s)" % ws_, pb_.where(line=pb_.line))
    bb_ = prog.body("link::reader::ReadBuffer::reset")
    zs = {st.dest.proj[-1]: const_value(prog, ctx.sym(bb_).rvalue_expr(st.rv)) for b, si, st in bb_.assigns() if st.dest.proj}
    ctx.check(zs.get(".begin") == 0 and zs.get(".end") == 0, "ReadBuffer::reset", "ReadBuffer::reset -> begin = end = 0 (%s)" % zs, bb_.where(line=bb_.line))
    wb = prog.body("transport::real::writer::Writer::reset")
    ctx.check(bool(call_sites(wb, r"real::sequence::Sequence::reset$")), "Writer::reset", "Writer::reset resets the sequence", wb.where(line=wb.line))
    for fn_, callee in (("transport::reader::TransportReader::reset", r"real::reader::Reader::reset$"), ("transport::writer::TransportWriter::reset", r"real::writer::Writer::reset$")):
        tb = prog.body(fn_)
        ctx.check(bool(call_sites(tb, callee)), "forward:%s" % fn_.split("::")[-2], "%s forwards to the real layer" % fn_, tb.where(line=tb.line))


def r8(ctx):
    """'whatever the chunking in transit' rests on the link receive buffer's compaction (C06.R9) and 'lack a FIR segment' also on
    the broadcast acceptance test of the assembler (C07.R8); both are evaluated here as well."""
    import c06
    import c07
    c06.r9(ctx)
    c07.r8(ctx)

def r9(ctx):
    """'a damaged segment stream costs only the affected fragment': a duplicate confirmed link frame must be ACKed and ignored without
    toggling the expected FCB, else every later confirmed frame (the rest of the fragment and all following ones) is discarded.
    FCB handling is rule C07.R3 (shared)."""
    import c07
    c07.r3(ctx)

def r10(ctx):
    """Delivery from the transport reader: a completed fragment is taken out of the assembler only when it is what pop() returns.
    pop() hands out a pending link-layer message first and leaves the assembler alone in that case; read() returns as soon as it has
    recorded a link-layer message, so a message and a newly completed fragment are never both pending behind one read. Either half
    alone is harmless; together they throw away the fragment that follows a link status request."""
    prog = ctx.prog
    pb = prog.body("transport::real::reader::Reader::pop")
    ps = ctx.sym(pb)
    ap = call_sites(pb, r"real::assembler::Assembler::pop$")
    if len(ap) != 1:
        raise AnchorError("Reader::pop: Assembler::pop sites %d" % len(ap))
    ctx.require_guards(pb, ap[0].idx, [("no link-layer message pending", g_is(lambda x: mentions_call(x, r"Option<.*>::take$|Option::take$") and mentions_field(x, "pending_link_layer_message"), "None"))], "pop:fragment-only-when-returned", "Assembler::pop() in Reader::pop")
    rb = prog.abody("transport::real::reader::Reader::read")
    reads = {c.idx for c in call_sites(rb, r"link::layer::Layer::read$")}
    if not reads:
        raise AnchorError("Reader::read: Layer::read call")
    n = 0
    for b, si, st in field_writes(rb, "pending_link_layer_message"):
        rv = st.rv
        n += 1
        # after recording a message the function returns without reading another frame
        again = any(rb.can_reach(b.idx, r_) and r_ != b.idx for r_ in reads if r_ in rb.reachable(b.idx) and r_ != b.idx)
        after = set()
        for s_ in rb.succs(b.idx):
            after |= rb.reachable(s_)
        ctx.check(not (after & reads), "read:returns-after-link-message#%d" % n, "read() returns once a link-layer message is recorded", rb.where(b.idx), bad_detail="Reader::read keeps reading after recording a link-layer message: a fragment completed by a later frame is pending together with the message, and pop() returns only one of them")
    if n < 1:
        raise AnchorError("Reader::read: pending_link_layer_message writes %d" % n)
    # both link status frame types are recorded (one store per arm, or one store behind the match)
    wblocks = {b.idx for b, si, st in field_writes(rb, "pending_link_layer_message")}
    for var in ("LinkStatusRequest", "LinkStatusResponse"):
        arms = arm_edges(ctx, rb, g_is("frame_type", var))
        ok = bool(arms) and all(rb.reachable(a.edge[1]) & wblocks for a in arms)
        ctx.check(ok, "read:records:%s" % var, "a %s frame is recorded as a pending link-layer message" % var, rb.where(arms[0].edge[1]) if arms else "")


RULES = [
    ("C08.R1", "T2", "continuation segments: sequence AND source equality; rejects drop the assembly", r1),
    ("C08.R2", "T2", "no assembly without FIR; FIR restarts; unread fragment replaced", r2),
    ("C08.R3", "T2/T8", "append: Complete only under fin after a successful write; overflow discards", r3),
    ("C08.R4", "T8", "fragment source/broadcast derive from the segment in hand", r4),
    ("C08.R5", "T8", "what the writer puts in FIN/FIR/SEQ and the 249-byte segmentation", r5),
    ("C08.R6", "T4/T11", "transport header and sequence masks equal the standard; wrap at 0x3F", r6),
    ("C08.R7", "T3", "reader and writer are reset on every task exit", r7),
    ("C08.R8", "T8/T2", "fragments survive the link receive buffer wrap-around; a broadcast is a single FIR&FIN segment (shared with C06.R9, C07.R8)", r8),
    ("C08.R9", "T2+T4", "the expected frame-count bit toggles only on delivery (shared with C07.R3)", r9),
    ("C08.R10", "T2/T3", "the assembler is popped only when its fragment is returned; read() returns after recording a link-layer message", r10),
]


def r11(ctx):
    """'delivers exactly what was segmented': the segments reach the assembler through the link parser - a frame that follows line
    noise (or whose leading bytes came with the previous read) is still found (C06.R7), and the payload handed up is exactly the
    blocks of that frame, cleared per frame and pushed only after each block's CRC test (C06.R3). A segment lost or padded there is a
    fragment lost or corrupted here. Shared code."""
    import c06
    c06.r7(ctx)
    c06.r3(ctx)


RULES.append(("C08.R11", "T2/T3", "segments survive the link parser: discard-mode recovery loses no frame, the payload is exactly the frame's blocks (shared with C06.R7, C06.R3)", r11))
