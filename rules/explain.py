"""Developer tool: print a body's MIR sites with their dominating guards.
usage: python3 rules/explain.py <facts.json> <body-suffix> [--all]"""
import sys
from mir import *

def main():
    prog = Program(sys.argv[1])
    suffix = sys.argv[2]
    show_all = "--all" in sys.argv
    bodies = prog.find_bodies(suffix)
    if not bodies:
        bodies = prog.bodies_matching(suffix)
    for b in bodies:
        print("=" * 100)
        print(b.path, b.where(line=b.line), "blocks", len(b.blocks), "coroutine" if b.coroutine else "")
        sym = Sym(b)
        gi = GuardIndex(b, sym)
        live = b.live_blocks()
        for blk in b.blocks:
            if blk.idx not in live or blk.cleanup:
                continue
            items = []
            for si, st in enumerate(blk.stmts):
                if st.kind != "assign" or (is_tracing(st.macros) and not show_all):
                    continue
                interesting = st.dest.proj or st.dest.local == 0 or st.rv["k"] in ("agg",) or show_all
                if interesting:
                    items.append("  %r = %s   [L%s]" % (st.dest, expr_str(sym.rvalue_expr(st.rv)), st.line))
            t = blk.term
            if is_tracing(t.macros) and not show_all:
                pass
            elif t.kind == "call":
                items.append("  call %r = %s   [L%s]" % (t.d["d"], expr_str(sym.call_expr(t)), t.line))
            elif t.kind == "assert":
                items.append("  assert %s %s [L%s]" % (t.d["mk"], [expr_str(sym.operand_expr(o)) for o in t.d["ops"]], t.line))
            elif t.kind in ("return", "yield"):
                items.append("  %s" % t.kind)
            elif t.kind == "switch":
                items.append("  switch %s -> %s o=%s [L%s]" % (expr_str(sym.operand_expr(t.d["a"])), t.d["ts"], t.d["o"], t.line))
            if items:
                gs = gi.dominating(blk.idx)
                print("bb%d  guards: %s" % (blk.idx, "; ".join(fmt_guards(gs))))
                for it in items:
                    print(it)

main()
