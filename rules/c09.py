"""C09 — what one side encodes, the other side's parser decodes to the same objects."""
import json
import os

from engine import *
from mir import *

EXPLANATION = (
    "For every `impl FixedSize` (group/variation objects, prefixes, timestamps, integer indices): the sequence of (width kind, field) read "
    "equals the sequence written and the widths sum to the evaluated SIZE. Variation::lookup and to_group_and_var are inverse tables whose "
    "variant names equal the numbers; every FixedSizeVariation::VARIATION names its own type. Every arm of the generated parse/get tables "
    "routes Variation::GxVy to the namesake variant. FunctionCode/QualifierCode/CommandStatus/OpType/TripCloseCode/DoubleBit tables are "
    "inverses of their siblings and equal the standard; HeaderDetails::qualifier and the qualifier dispatcher agree. Validation and "
    "iteration are the same one_pass over the stored options/function. Free-format headers require count == 1 and an exhausted sub-cursor. "
    "Sequences take exactly SIZE*count bytes before any object is decoded; range iterators cannot wrap their index."
)
ASSUMPTIONS = ["round-trip equality of values and acceptance/rejection of every mutated byte string are not decided", "'iterating yields that many objects' is decided only through the byte-count rule (R8)"]
TRUSTED = ["rustc nightly MIR + const evaluation", "facts driver", "tables/ieee1815.json", "rules/mir.py"]
REF = json.load(open(os.path.join(VERIF, "tables", "ieee1815.json")))

RKIND = {"read_u8": ("u8", 1), "read_u16_le": ("u16", 2), "read_i16_le": ("i16", 2), "read_u32_le": ("u32", 4), "read_i32_le": ("i32", 4), "read_u48_le": ("u48", 6), "read_f32_le": ("f32", 4), "read_f64_le": ("f64", 8)}
WKIND = {"write_u8": ("u8", 1), "write_u16_le": ("u16", 2), "write_i16_le": ("i16", 2), "write_u32_le": ("u32", 4), "write_i32_le": ("i32", 4), "write_u48_le": ("u48", 6), "write_f32_le": ("f32", 4), "write_f64_le": ("f64", 8)}
# wrappers that write exactly one primitive (checked in r1 against their own bodies)
W_WRAPPERS = {"CommandStatus::write": "u8", "Timestamp::write": "u48"}


def _fields_of(e):
    """names of `self.<field>` mentioned in e"""
    return [s[2] for s in expr_walk(e) if s[0] == "field" and s[1] in (("param", "self"),)]


def r1(ctx):
    prog = ctx.prog
    ims = [im for im in prog.impls if (im.get("trait") or "").endswith("parse::traits::FixedSize")]
    if len(ims) < 95:
        raise AnchorError("expected >= 95 FixedSize impls, found %d" % len(ims))
    # wrappers
    for w, kind in W_WRAPPERS.items():
        wb = prog.body("app::" + ("types::" if w.startswith("Timestamp") else "extensions::") + w) if False else None
    for path_suffix, kind in (("CommandStatus::write", "u8"), ("Timestamp::write", "u48")):
        m = [b for b in prog.bodies.values() if b.path.endswith(path_suffix) and "::tests::" not in b.path]
        if len(m) != 1:
            raise AnchorError("wrapper %s" % path_suffix)
        cs = [b for b in m[0].calls() if re.search(r"WriteCursor::write_\w+$", b.term.callee or "")]
        ok = len(cs) == 1 and WKIND.get((cs[0].term.callee).split("::")[-1], (None,))[0] == kind
        ctx.check(ok, "wrapper:%s" % path_suffix, "%s writes one %s" % (path_suffix, kind), m[0].where(line=m[0].line))
    n = 0
    for im in ims:
        items = {nm: p for nm, p, tag in im["items"]}
        ty = im["self"].split("::")[-1]
        rb = prog.bodies.get(items.get("read"))
        wb = prog.bodies.get(items.get("write"))
        if rb is None or wb is None:
            ctx.bad("codec:%s:bodies" % ty, "read/write bodies not found")
            continue
        size_c = prog.consts.get(items.get("SIZE"))
        reads, rs = spine_calls(ctx, rb, r"ReadCursor::read_\w+$|parse::traits::FixedSize>?::read$")
        writes, ws = spine_calls(ctx, wb, r"WriteCursor::write_\w+$|parse::traits::FixedSize>?::write$|CommandStatus::write$|Timestamp::write$")
        if not rs or not ws:
            ctx.bad("codec:%s:shape" % ty, "read/write is not straight-line (`?`-only) code", rb.where(line=rb.line))
            continue
        # read side: which field does each read feed?
        rsym = ctx.sym(rb)
        ret = [e for _, _, _, e in ret_sites(rb, rsym) if e[0] == "agg" and e[2] == "Ok"]
        agg = unwrap_ok(ret[0]) if ret else None
        # which read call feeds which field: backward slice of each operand of the struct aggregate
        feeds = {}
        for b_, si_, st_ in rb.assigns():
            if st_.rv["k"] == "agg" and st_.rv.get("ak") == "struct" and st_.rv.get("adt", "").split("::")[-1].split("<")[0] == ty.split("<")[0]:
                for fname, op in zip(st_.rv["fields"], st_.rv["ops"]):
                    for blk_ in slice_call_blocks(rb, op, r"ReadCursor::read_\w+$|parse::traits::FixedSize>?::read$"):
                        feeds[blk_] = fname
        rseq = []
        for blk, callee, e in reads:
            meth = callee.split("::")[-1]
            kind = RKIND.get(meth, ("nested:" + (blk.term.d.get("targs") or ["?"])[0].split("::")[-1], None))
            rseq.append((kind[0], kind[1], feeds.get(blk.idx)))
        wsym = ctx.sym(wb)
        wseq = []
        for blk, callee, e in writes:
            meth = callee.split("::")[-1]
            if meth in WKIND:
                kind = WKIND[meth]
                arg = e[2][1]
            elif callee.endswith("CommandStatus::write"):
                kind = ("u8", 1)
                arg = e[2][0]
            elif callee.endswith("Timestamp::write"):
                kind = ("u48", 6)
                arg = e[2][0]
            else:
                kind = ("nested:" + (blk.term.d.get("targs") or ["?"])[0].split("::")[-1], None)
                arg = e[2][0]
            fl = _fields_of(arg)
            wseq.append((kind[0], kind[1], fl[0] if fl else None))
        n += 1
        primitive = agg is None or agg[0] != "agg" or not feeds
        if primitive or (not rseq and not wseq):
            # u8/u16 index impls: the value itself
            ok = [k for k, _, _ in rseq] == [k for k, _, _ in wseq] and len(rseq) == 1
            ctx.check(ok, "codec:%s" % ty, "read %s / write %s" % ([k for k, _, _ in rseq], [k for k, _, _ in wseq]), rb.where(line=rb.line))
        else:
            same_kinds = [k for k, _, _ in rseq] == [k for k, _, _ in wseq]
            same_fields = [f for _, _, f in rseq] == [f for _, _, f in wseq] and all(f is not None for _, _, f in rseq)
            ctx.check(same_kinds, "codec:%s:widths" % ty, "read widths %s = write widths" % [k for k, _, _ in rseq], rb.where(line=rb.line), bad_detail="read %s but write %s" % ([k for k, _, _ in rseq], [k for k, _, _ in wseq]))
            ctx.check(same_fields, "codec:%s:field-order" % ty, "fields in the same order: %s" % [f for _, _, f in rseq], wb.where(line=wb.line), bad_detail="read order %s but write order %s" % ([f for _, _, f in rseq], [f for _, _, f in wseq]))
            if agg is not None and agg[0] == "agg":
                nf = len(agg[3])
                ctx.check(nf == len(rseq), "codec:%s:all-fields" % ty, "every field of %s is decoded (%d)" % (ty, nf), rb.where(line=rb.line))
        if size_c is not None and size_c.get("v") is not None and all(w is not None for _, w, _ in rseq):
            tot = sum(w for _, w, _ in rseq)
            ctx.check(tot == size_c["v"], "codec:%s:SIZE" % ty, "sum of widths %d = SIZE %s" % (tot, size_c["v"]), rb.where(line=rb.line), bad_detail="widths sum to %d but SIZE = %s" % (tot, size_c["v"]))
    if n < 95:
        raise AnchorError("only %d codecs analysed" % n)


def r2(ctx):
    prog = ctx.prog
    lb = prog.body("app::variations::Variation::lookup")
    tb = prog.body("app::variations::Variation::to_group_and_var")
    lsym = ctx.sym(lb)
    # lookup: nested integer switches over (group, var)
    look = {}
    for b, si, st, e in ret_sites(lb, lsym):
        v = unwrap_ok(e)
        if v[0] != "agg" or v[2] == "None":
            continue
        g = var = None
        for gd in ctx.guards_at(lb, b.idx):
            if gd.kind == "int" and gd.a == ("param", "group"):
                g = gd.name
            if gd.kind == "int" and gd.a == ("param", "var"):
                var = gd.name
        look[(g, var)] = (v[2], agg_field(v, "0"))
    to = {}
    for keys, e, blk in extract_table(ctx, tb, subject=lambda x: x == ("param", "self")):
        if e[0] == "tuple":
            for k in keys:
                to[k[1]] = (const_value(prog, e[1][0]), const_value(prog, e[1][1]) if const_value(prog, e[1][1]) is not None else e[1][1])
    if len(look) < 120:
        raise AnchorError("Variation::lookup: only %d rows extracted" % len(look))
    for (g, var), (name, payload) in sorted(look.items(), key=lambda kv: (kv[0][0] or 0, kv[0][1] or -1)):
        m = re.match(r"Group(\d+)(?:Var(\d+))?$", name)
        if not m:
            ctx.bad("lookup:%s:name" % name, "variant name does not encode group/variation")
            continue
        if m.group(2) is None:
            ok = int(m.group(1)) == g
        else:
            ok = int(m.group(1)) == g and int(m.group(2)) == var
        ctx.check(ok, "lookup:(%s,%s)" % (g, var), "(%s, %s) -> %s" % (g, var, name), lb.where(line=lb.line), bad_detail="lookup(%s, %s) yields %s" % (g, var, name))
        if name in to and m.group(2) is not None:
            ctx.check(to[name] == (g, var), "inverse:%s" % name, "%s -> %s" % (name, to[name]), tb.where(line=tb.line), bad_detail="to_group_and_var(%s) = %s but lookup(%s,%s) = %s" % (name, to[name], g, var, name))
    missing = [nm for nm in to if nm not in {v[0] for v in look.values()}]
    ctx.check(not missing, "inverse:coverage", "every variant with a number pair is reachable by lookup", tb.where(line=tb.line), bad_detail="not reachable by lookup: %s" % missing[:5])
    # FixedSizeVariation::VARIATION names its own type
    k = 0
    for im in prog.impls:
        if not (im.get("trait") or "").endswith("parse::traits::FixedSizeVariation"):
            continue
        ty = im["self"].split("::")[-1]
        items = {nm: p for nm, p, tag in im["items"]}
        cb = prog.bodies.get(items.get("VARIATION"))
        if cb is None:
            continue
        vs = [variant_name(e) for _, _, _, e in ret_sites(cb, ctx.sym(cb))]
        vn = vs[0] if vs else None
        k += 1
        ctx.check(vn == ty, "VARIATION:%s" % ty, "%s::VARIATION = Variation::%s" % (ty, vn))
    if k < 80:
        raise AnchorError("only %d VARIATION constants evaluated" % k)


def _exceptions(rule):
    out = {}
    for line in open(os.path.join(VERIF, "tables", "name_exceptions.tsv")):
        if line.startswith("#") or not line.strip():
            continue
        r_, src, tgts, why = line.rstrip("\n").split("\t")
        if r_ == rule:
            out[src] = set(tgts.split(","))
    return out


ROUTERS = [
    ("app::gen::ranged::RangedVariation::parse_non_read", "v"),
    ("app::gen::ranged::RangedVariation::parse_read", "v"),
    ("app::gen::count::CountVariation::parse", "v"),
    ("app::gen::prefixed::PrefixedVariation::parse", "v"),
    ("app::gen::all::AllObjectsVariation::get", "v"),
]


def r3(ctx):
    prog = ctx.prog
    total = 0
    exc = _exceptions("C09.R3")
    for fn_, param in ROUTERS:
        bd = prog.body(fn_)
        rows = extract_table(ctx, bd, subject=lambda x: x == ("param", param))
        n = 0
        for keys, e, blk in rows:
            v = unwrap_ok(e)
            names = [k[1] for k in keys if k[0] == "variant"]
            if not names:
                continue
            if v[0] == "agg" and v[2] in ("Err", "None"):
                continue
            if e[0] == "agg" and e[2] == "Err":
                continue
            if e[0] == "call" and e[1].endswith("::from_residual"):
                continue  # the `?` error path of the arm
            got = v[2] if v[0] == "agg" else None
            if got is None:
                # value flows through a local (e.g. built in several steps): look for the aggregate in the expression
                cands = [s[2] for s in expr_walk(e) if s[0] == "agg" and re.search(r"(Ranged|Count|Prefixed|AllObjects|FreeFormat)Variation$", s[1] or "")]
                got = cands[0] if cands else None
            n += 1
            ok = got in names or any(got in exc.get(nm, ()) for nm in names)
            ctx.check(ok, "route@%s:%s->%s" % (fn_.split("::")[-2], names[0], got) if names[0] in exc else "route@%s:%s" % (fn_.split("::")[-2], names[0]), "Variation::%s -> %s" % (names[0], got), bd.where(blk), bad_detail="Variation::%s is routed to %s::%s" % (names[0], fn_.split("::")[-2], got))
        total += n
    ff = [b for b in prog.bodies.values() if re.search(r"FreeFormatVariation::parse$", b.path)]
    for bd in ff:
        for keys, e, blk in extract_table(ctx, bd, subject=lambda x: x[0] == "param"):
            v = unwrap_ok(e)
            names = [k[1] for k in keys if k[0] == "variant"]
            if names and v[0] == "agg" and v[2] not in ("Err", "None"):
                total += 1
                ctx.check(v[2] in names, "route@FreeFormatVariation:%s" % names[0], "Variation::%s -> %s" % (names[0], v[2]), bd.where(blk))
    if total < 250:
        raise AnchorError("expected >= 250 routing arms, found %d" % total)


def _pair(ctx, from_fn, to_fn, ref, label, from_wraps_option):
    prog = ctx.prog
    fb = prog.body(from_fn)
    tb = prog.body(to_fn)
    frm = {}
    for keys, e, blk in extract_table(ctx, fb):
        v = unwrap_ok(e) if from_wraps_option else e
        for k in keys:
            if k[0] == "int" and v[0] == "agg" and v[2] not in ("None",):
                frm[k[1]] = v[2]
    to = {}
    for keys, e, blk in extract_table(ctx, tb, subject=lambda x: x == ("param", "self")):
        val = const_value(prog, e)
        for k in keys:
            if k[0] == "variant" and val is not None:
                to[k[1]] = val
    for name, val in ref.items():
        ctx.check(to.get(name) == val, "%s::as_u8:%s" % (label, name), "%s -> %s (standard %s)" % (name, to.get(name), val), tb.where(line=tb.line), bad_detail="%s::%s encodes as %s, the standard says %s" % (label, name, to.get(name), val))
        ctx.check(frm.get(val) == name, "%s::from:%s" % (label, val), "%s -> %s" % (val, frm.get(val)), fb.where(line=fb.line), bad_detail="%s::from(%s) = %s, expected %s" % (label, val, frm.get(val), name))
    for name, val in to.items():
        if name not in ref:
            ctx.check(frm.get(val) == name, "%s:inverse:%s" % (label, name), "%s <-> %s" % (name, val), fb.where(line=fb.line))


def r4(ctx):
    prog = ctx.prog
    _pair(ctx, "app::app_enums::FunctionCode::from", "app::app_enums::FunctionCode::as_u8", REF["function_codes"], "FunctionCode", True)
    _pair(ctx, "app::app_enums::QualifierCode::from", "app::app_enums::QualifierCode::as_u8", REF["qualifiers"], "QualifierCode", True)
    _pair(ctx, "app::control_enums::CommandStatus::from", "app::control_enums::CommandStatus::as_u8", REF["command_status"], "CommandStatus", False)
    _pair(ctx, "app::control_enums::OpType::from", "app::control_enums::OpType::as_u8", REF["op_type"], "OpType", False)
    _pair(ctx, "app::control_enums::TripCloseCode::from", "app::control_enums::TripCloseCode::as_u8", REF["trip_close_code"], "TripCloseCode", False)
    # HeaderDetails::qualifier <-> dispatcher of parse_one_inner
    qb = prog.body("app::parse::parser::HeaderDetails::qualifier")
    q_of = {}
    for keys, e, blk in extract_table(ctx, qb, subject=lambda x: x == ("param", "self")):
        for k in keys:
            q_of[k[1]] = variant_name(e)
    pb = prog.body("app::parse::parser::ObjectParser::parse_one_inner")
    ps = ctx.sym(pb)
    disp = {}
    for b in call_sites(pb, r"ObjectParser::parse_\w+$"):
        for g in ctx.guards_at(pb, b.idx):
            if g.kind == "is" and g.name in REF["qualifiers"] and mentions_call(g.a, r"QualifierCode>?::parse$"):
                disp[g.name] = b.term.callee.split("::")[-1]
    if len(disp) != 8:
        raise AnchorError("parse_one_inner: %d qualifier arms" % len(disp))
    for q, fn_ in disp.items():
        fb = prog.body("app::parse::parser::ObjectParser::" + fn_)
        built = {st.rv["var"] for b, si, st in agg_sites(fb, r"parser::HeaderDetails$")}
        ok = len(built) == 1 and q_of.get(list(built)[0]) == q
        ctx.check(ok, "qualifier-dispatch:%s" % q, "%s -> %s builds %s which reports %s" % (q, fn_, sorted(built), q_of.get(list(built)[0]) if built else None), fb.where(line=fb.line), bad_detail="qualifier %s is parsed by %s into HeaderDetails::%s, which reports qualifier %s" % (q, fn_, sorted(built), [q_of.get(x) for x in built]))
    # widths read by each header parser
    want = {"parse_count_u8": ["read_u8"], "parse_count_u16": ["read_u16_le"], "parse_start_stop_u8": ["read_u8", "read_u8"], "parse_start_stop_u16": ["read_u16_le", "read_u16_le"], "parse_count_and_prefix_u8": ["read_u8"], "parse_count_and_prefix_u16": ["read_u16_le"], "parse_free_format_u16": ["read_u8", "read_u16_le", "read_bytes"], "parse_all_objects": []}
    for fn_, w in want.items():
        fb = prog.body("app::parse::parser::ObjectParser::" + fn_)
        got = [b.term.callee.split("::")[-1] for b in sorted(call_sites(fb, r"ReadCursor::read_\w+$"), key=lambda b: b.idx)]
        ctx.check(got == w, "header-width:%s" % fn_, "%s reads %s" % (fn_, got), fb.where(line=fb.line))
    # start/stop order
    for fn_ in ("parse_start_stop_u8", "parse_start_stop_u16"):
        fb = prog.body("app::parse::parser::ObjectParser::" + fn_)
        reads, straight = spine_calls(ctx, fb, r"ReadCursor::read_\w+$")
        for b in call_sites(fb, r"parse::range::Range::from$"):
            e = ctx.sym(fb).call_expr(b.term)
            ok = len(reads) == 2 and mentions(e[2][0], lambda s: s == reads[0][2]) and mentions(e[2][1], lambda s: s == reads[1][2])
            ctx.check(ok, "range-order:%s" % fn_, "Range::from(first read, second read)", fb.where(b.idx))
    # Variation::parse reads group then variation
    vb = [b for b in prog.bodies.values() if b.path.endswith("Variation::parse") and "app::parse::parser" in b.path]
    if vb:
        reads, straight = spine_calls(ctx, vb[0], r"ReadCursor::read_u8$")
        for b in call_sites(vb[0], r"Variation::lookup$"):
            e = ctx.sym(vb[0]).call_expr(b.term)
            ok = len(reads) == 2 and mentions(e[2][0], lambda s: s == reads[0][2]) and mentions(e[2][1], lambda s: s == reads[1][2])
            ctx.check(ok, "group-then-variation", "lookup(first octet, second octet)", vb[0].where(b.idx))


def r6(ctx):
    prog = ctx.prog
    pb = prog.body("app::parse::parser::ObjectParser::parse")
    ib = prog.body("app::parse::parser::HeaderCollection::iter")
    for bd, nm in ((pb, "validate"), (ib, "iterate")):
        cs = call_sites(bd, r"ObjectParser::one_pass$")
        ctx.check(len(cs) == 1, "one_pass@%s" % nm, "%s goes through ObjectParser::one_pass" % nm, bd.where(line=bd.line))
    e = ctx.sym(ib).call_expr(call_sites(ib, r"ObjectParser::one_pass$")[0].term)
    ok = e[2][0] == ("field", ("param", "self"), "options") and e[2][1] == ("field", ("param", "self"), "function") and e[2][2] == ("field", ("param", "self"), "data")
    ctx.check(ok, "iterate:stored-args", "iteration uses the options/function/data stored at validation", ib.where(line=ib.line), bad_detail="HeaderCollection::iter calls one_pass(%s)" % ", ".join(expr_str(x) for x in e[2]))
    for b, si, st in agg_sites(pb, r"parser::HeaderCollection$"):
        ev = ctx.sym(pb).rvalue_expr(st.rv)
        ok = all(agg_field(ev, f) == ("param", f) for f in ("options", "function", "data"))
        ctx.check(ok, "validate:stores-args", "HeaderCollection stores the validated options/function/data", pb.where(b.idx))
        full = g_any(g_is(lambda x: mentions_call(x, r"::next$|ObjectParser::parse_one$"), "None"),
                     # the same pass written as one_pass(..).try_for_each(..)? : the header collection exists only if no header failed
                     g_is(lambda x: mentions_call(x, r"Iterator::try_for_each$|::try_for_each$|::try_fold$") and mentions_call(x, r"ObjectParser::one_pass$"), "Continue"))
        ctx.require_guards(pb, b.idx, [("all headers parsed", full)], "validate:after-full-pass", "HeaderCollection construction")
    # the zero-length-string switch is read in options.rs only
    readers = set()
    for bd in prog.bodies.values():
        if "::tests::" in bd.path:
            continue
        for blk in bd.blocks:
            for st in blk.stmts:
                if st.kind == "assign":
                    for k in ("a",):
                        o = st.rv.get(k)
                        if isinstance(o, Operand) and o.is_const() and "PARSE_ZERO_LENGTH_STRINGS" in str(o.const.get("s") or o.const.get("def") or ""):
                            readers.add(bd.path)
            t = blk.term
            if t.kind == "call":
                for a in t.d["args"]:
                    if a.is_const() and "PARSE_ZERO_LENGTH_STRINGS" in str(a.const.get("s") or a.const.get("def") or ""):
                        readers.add(bd.path)
    for p in readers:
        ctx.check("app::parse::options" in p, "zero-length-flag-reader@%s" % short(p), "PARSE_ZERO_LENGTH_STRINGS read in %s" % p)
    if not readers:
        ctx.note("PARSE_ZERO_LENGTH_STRINGS readers not visible as constant operands (static accessed by address)")
    # parse_one: stops after the first error
    ob = prog.body("app::parse::parser::ObjectParser::parse_one")
    for b in call_sites(ob, r"ObjectParser::parse_one_inner$"):
        ctx.require_guards(ob, b.idx, [("!errored", g_bool(lambda x: x == ("field", ("param", "self"), "errored"), False)), ("!cursor.is_empty()", g_bool(lambda x: mentions_call(x, r"ReadCursor::is_empty$"), False))], "parse_one", "parsing the next header")
    ws = field_writes(ob, "errored")
    ctx.check(len(ws) == 1, "parse_one:sets-errored", "errored is set once", ob.where(line=ob.line))
    for b, si, st in ws:
        ctx.require_guards(ob, b.idx, [("result is Err", g_any(g_bool(lambda x: mentions_call(x, r"Result::is_err$"), True), g_is(lambda x: mentions_call(x, r"parse_one_inner$"), "Err")))], "parse_one:errored-on-err", "errored = true")


def r7(ctx):
    prog = ctx.prog
    bd = prog.body("app::parse::parser::ObjectParser::parse_free_format_u16")
    sym = ctx.sym(bd)
    oks = [(b, e) for b, si, st, e in ret_sites(bd, sym) if e[0] == "agg" and e[2] == "Ok"]
    if len(oks) != 1:
        raise AnchorError("parse_free_format_u16: Ok return")
    b, e = oks[0]
    ctx.require_guards(bd, b.idx, [
        ("count == 1", g_rel("Eq", lambda x: mentions_call(x, r"ReadCursor::read_u8$"), lambda x: const_value(prog, x) == 1)),
        ("sub-cursor exhausted (expect_empty()?)", g_is(lambda x: mentions_call(x, r"ReadCursor::expect_empty$") and mentions_call(x, r"ReadCursor::new$") and mentions_call(x, r"ReadCursor::read_bytes$") and not (x[0] == "try" and x[1][0] == "call" and x[1][2] and x[1][2][0] == ("field", ("param", "self"), "cursor")), "Continue")),
        ("variation parsed", g_is(lambda x: mentions_call(x, r"FreeFormatVariation::parse$"), "Continue")),
    ], "free-format:Ok", "Ok(header) of parse_free_format_u16")
    for c in call_sites(bd, r"FreeFormatVariation::parse$"):
        ce = sym.call_expr(c.term)
        ctx.check(mentions_call(ce[2][1], r"ReadCursor::new$") and mentions_call(ce[2][1], r"ReadCursor::read_bytes$"), "free-format:sub-cursor", "the object is parsed from a sub-cursor over exactly `length` bytes", bd.where(c.idx))
    for c in call_sites(bd, r"ReadCursor::read_bytes$"):
        ce = sym.call_expr(c.term)
        ctx.check(mentions_call(ce[2][1], r"ReadCursor::read_u16_le$"), "free-format:length", "read_bytes(length read from the header)", bd.where(c.idx))


def r8(ctx):
    prog = ctx.prog
    n = 0
    for fn_ in ("app::parse::range::RangedSequence::parse", "app::parse::count::CountSequence::parse", "app::parse::prefix", ):
        pass
    cands = [b for b in prog.bodies.values() if re.search(r"app::parse::(range::RangedSequence|count::CountSequence|bytes::RangedBytesSequence|bytes::PrefixedBytesSequence|bit::BitSequence|bit::DoubleBitSequence)::parse$", b.path)]
    if len(cands) < 5:
        raise AnchorError("sequence parse bodies: %d" % len(cands))
    for bd in cands:
        sym = ctx.sym(bd)
        rb = call_sites(bd, r"ReadCursor::read_bytes$")
        name = bd.path.split("::")[-2]
        ctx.check(len(rb) == 1, "seq:%s:one-read" % name, "%s::parse takes its bytes in one read_bytes" % name, bd.where(line=bd.line))
        for b in rb:
            e = sym.call_expr(b.term)
            amount = e[2][1]
            if name in ("RangedSequence", "CountSequence"):
                ok = mentions_constdef(amount, r"FixedSize>?::SIZE$|::SIZE$") and (mentions_call(amount, r"Range::get_count$") or mentions_name(amount, "count") or mentions_field(amount, "count")) and mentions(amount, lambda s: s[0] == "bin" and s[1] in ("Mul", "MulWithOverflow")) or mentions_call(amount, r"checked_mul$|saturating_mul$")
                ctx.check(ok, "seq:%s:bytes=SIZE*count" % name, "byte count = %s" % expr_str(amount)[:100], bd.where(b.idx))
            else:
                ok = mentions_name(amount, "range") or mentions_name(amount, "count") or mentions_call(amount, r"num_bytes_for|get_count$")
                ctx.check(ok, "seq:%s:bytes<-count" % name, "byte count = %s" % expr_str(amount)[:100], bd.where(b.idx))
        # the sequence is constructed only after the read succeeded
        for b, si, st, e in ret_sites(bd, sym):
            if e[0] == "agg" and e[2] == "Ok":
                ctx.require_guards(bd, b.idx, [("read_bytes(..)? succeeded", g_is(lambda x: mentions_call(x, r"ReadCursor::read_bytes$"), "Continue"))], "seq:%s:Ok-after-read" % name, "Ok(sequence)")
        n += 1
    # iterators cannot wrap their index
    its = [b for b in prog.bodies.values() if re.search(r"app::parse::(range::RangeIterator|bytes::RangedBytesIterator|bit::(Bit|DoubleBit|IndexedBit|IndexedDoubleBit)\w*Iterator).* as std::iter::Iterator>::next$", b.path) or re.search(r"<dnp3::app::parse::(range|bytes|bit)::\w*Iterator.* as std::iter::Iterator>::next$", b.path)]
    if len(its) < 3:
        raise AnchorError("parse iterators: %d" % len(its))
    for bd in its:
        name = re.search(r"::(\w+Iterator)", bd.path).group(1)
        bad = [b for b in bd.blocks if b.idx in bd.live_blocks() and b.term.kind == "assert" and b.term.d["mk"].startswith("Overflow(Add)") and any(mentions_field(ctx.sym(bd).operand_expr(o), "index") for o in b.term.d["ops"])
               # reviewed idiom: the increment is skipped after the last element (`if self.pos < self.count { self.index += 1 }`)
               and not any(g.kind == "rel" and g.op == "Lt" and mentions_field(g.a, "pos") and mentions_field(g.b, "count") for g in ctx.guards_at(bd, b.idx))]
        ctx.check(not bad, "iter:%s:index-cannot-overflow" % name, "%s advances its index without a checked `+ 1`" % name, bd.where(bad[0].idx) if bad else bd.where(line=bd.line), bad_detail="%s::next advances its u16 index with a plain `+ 1`: a range ending at index 65535 overflows after yielding the last element (panic with overflow checks)" % name)


BITS = {"u8": 8, "i8": 8, "u16": 16, "i16": 16, "u32": 32, "i32": 32, "u64": 64, "i64": 64, "f32": 32, "f64": 64}
ATTR_CODECS = [
    # writer enum, its constructor, the parser, signed?
    ("app::attr::Int", "app::attr::AttrValue::parse_signed_int", True),
    ("app::attr::UInt", "app::attr::AttrValue::parse_unsigned_int", False),
]


def _op_ty(callee):
    m = re.search(r"::(?:read|write)_([uif]\d+)(?:_le)?$", callee or "")
    return m.group(1) if m else None


def r9(ctx):
    """Device attribute (group 0) integer / float values: for every encoded length the writer's cursor operation and the parser's
    have the same width, and the parser restores the sign the writer's narrowing kept: a value widened to the result type is
    widened FROM a type of the signedness of the attribute (reading a two's complement byte as u8 and widening turns -1 into 255)."""
    prog = ctx.prog
    for enum, parser, signed in ATTR_CODECS:
        wl = {}
        lb = prog.body(enum + "::len")
        for keys, e, blk in extract_table(ctx, lb, subject=lambda x: x == ("param", "self")):
            for k in keys:
                wl[k[1]] = const_value(prog, e)
        wb = prog.body(enum + "::write")
        wop = {}
        for c in wb.calls():
            t = _op_ty(c.term.callee or c.term.declared)
            gs = [g for g in ctx.guards_at(wb, c.idx) if g.kind == "is" and g.a == ("param", "self")]
            if t and gs:
                wop[gs[-1].name] = t
        if len(wl) < 3 or set(wl) != set(wop):
            raise AnchorError("%s: len table %s / write table %s" % (enum, wl, wop))
        pb = prog.body(parser)
        sym = ctx.sym(pb)
        arms = {}
        for b, si, st, e in ret_sites(pb, sym):
            if e[0] == "agg" and e[2] == "Ok":
                ln = [g.name for g in ctx.guards_at(pb, b.idx) if g.kind == "int" and g.a == ("param", "len")]
                if ln:
                    arms[ln[-1]] = (b, agg_field(e, "0"))
        name = enum.split("::")[-1]
        for v, n_ in sorted(wl.items()):
            ctx.check(BITS.get(wop[v]) == 8 * n_, "attr:%s:%s:write-width" % (name, v), "%s::%s is announced with length %s and written with %s" % (name, v, n_, wop[v]), wb.where(line=wb.line))
            if n_ not in arms:
                ctx.bad("attr:%s:%s:parsed" % (name, v), "length %s written by %s::%s has no arm in %s" % (n_, name, v, parser), pb.where(line=pb.line))
                continue
            b, e = arms[n_]
            reads = [x for x in expr_walk(e) if x[0] == "call" and _op_ty(x[1])]
            ctx.check(len(reads) == 1 and BITS.get(_op_ty(reads[0][1])) == 8 * n_, "attr:%s:%s:read-width" % (name, v), "length %s is parsed with %s" % (n_, [short(x[1]) for x in reads]), pb.where(b.idx))
            # sign: every widening cast on the way to the result starts from a type of the attribute's signedness
            wid = [x for x in expr_walk(e) if x[0] == "cast" and BITS.get(x[1], 0) > BITS.get(x[3], 99)]
            rd_ty = _op_ty(reads[0][1]) if reads else "?"
            eff = [x[3] for x in wid] or [rd_ty]
            ok = all(t.startswith("i") == signed for t in eff)
            ctx.check(ok, "attr:%s:%s:sign" % (name, v), "length %s: value reaches the result as %s (%s)" % (n_, "/".join(eff), "signed" if signed else "unsigned"), pb.where(b.idx), bad_detail="%s arm `len == %s` widens the value from %s: a %s attribute written in %s byte(s) is parsed back as a different number (e.g. -1 as %d)" % (parser.split("::")[-1], n_, "/".join(eff), "signed" if signed else "unsigned", n_, (1 << (8 * n_)) - 1))
        extra = set(arms) - set(wl.values())
        ctx.check(True, "attr:%s:parser-lengths" % name, "parser accepts lengths %s; writer emits %s" % (sorted(arms), sorted(wl.values())), pb.where(line=pb.line))
        # the constructor picks a variant whose type can hold the value it is given (narrowing only under its range test)
        nb = prog.body(enum + "::new")
        for b, si, st, e in ret_sites(nb, ctx.sym(nb)):
            if e[0] != "agg":
                continue
            v = e[2]
            val = agg_field(e, "0")
            if val[0] == "cast" and BITS.get(val[1], 99) < BITS.get(val[3], 0):
                gs = ctx.guards_at(nb, b.idx)
                ok = any((g.kind == "bool" and g.truth is True and mentions_call(g.a, r"Range(Inclusive)?::contains$")) or (g.kind == "rel" and g.op in ("Le", "Lt") and g.a == ("param", "value")) for g in gs)
                ctx.check(ok, "attr:%s:%s:narrow-under-range-test" % (name, v), "%s::%s narrows the value only under its range test" % (name, v), nb.where(b.idx))
    # floats: length 4 <-> f32, 8 <-> f64 on both sides
    fb = prog.body("app::attr::AttrValue::parse_floating_point")
    fs = ctx.sym(fb)
    for b, si, st, e in ret_sites(fb, fs):
        if e[0] == "agg" and e[2] == "Ok":
            ln = [g.name for g in ctx.guards_at(fb, b.idx) if g.kind == "int" and g.a == ("param", "len")]
            reads = [x for x in expr_walk(e) if x[0] == "call" and _op_ty(x[1])]
            ctx.check(bool(ln) and len(reads) == 1 and BITS.get(_op_ty(reads[0][1])) == 8 * ln[-1] and variant_name(agg_field(e, "0")) == _op_ty(reads[0][1]).upper(), "attr:float:len%s" % (ln[-1] if ln else "?"), "length %s is parsed as %s" % (ln, [short(x[1]) for x in reads]), fb.where(b.idx))
    wf = prog.body("app::attr::OwnedAttrValue::write_float")
    ws = ctx.sym(wf)
    for c in wf.calls():
        t = _op_ty(c.term.callee or c.term.declared)
        if not t:
            continue
        gs = [g for g in ctx.guards_at(wf, c.idx) if g.kind == "is" and g.a == ("param", "x")]
        hdr = [h for h in call_sites(wf, r"write_header$") if wf.block_dominates(h.idx, c.idx) and (not gs or wf.edge_dominates(gs[-1].edge, h.idx))]
        ln = const_value(prog, ws.call_expr(hdr[-1].term)[2][-1]) if hdr else None
        ctx.check(bool(gs) and gs[-1].name == t.upper() and ln is not None and 8 * ln == BITS[t], "attr:float:write:%s" % t, "FloatType::%s is announced with length %s and written with %s" % (gs[-1].name if gs else "?", ln, t), wf.where(c.idx))


def r10(ctx):
    """Back-patching of bytes already in the fragment (a count, a range stop, a packed bit byte) through WriteCursor::at_pos is the
    last fallible step of its function: WriteCursor::transaction restores only the position, never patched bytes, so an append
    that fails AFTER the patch leaves a header announcing an object that is not there (the peer's parser rejects the fragment)."""
    prog = ctx.prog
    n = 0
    for bd in prog.bodies.values():
        if "::test" in bd.path or not bd.path.startswith("dnp3::"):
            continue
        sites = call_sites(bd, r"WriteCursor::at_pos$")
        if not sites:
            continue
        sym = ctx.sym(bd)
        rets = list(ret_sites(bd, sym))
        for c in sites:
            n += 1
            own = sym.call_expr(c.term)
            after = set()
            for s_ in bd.succs(c.idx):
                after |= bd.reachable(s_)
            late = [(b, e) for b, si, st, e in rets if b.idx in after and e[0] == "call" and e[1].endswith("from_residual") and not (e[2] and e[2][0][0] == "tryerr" and e[2][0][1] == own)]
            late += [(b, e) for b, si, st, e in rets if b.idx in after and e[0] == "agg" and e[2] == "Err"]
            name = "::".join(bd.path.replace("::{closure#0}", "").split("::")[-2:])
            ctx.check(not late, "patch-last@%s#%d" % (name, sites.index(c)), "no error exit after the at_pos patch", bd.where(c.idx), bad_detail="%s patches bytes already written (at_pos) and can still fail afterwards at %s: a rolled-back transaction keeps the patch, the header then announces an object that was not written" % (name, ", ".join(bd.where(b.idx) for b, _ in late[:3])))
    if n < 7:
        raise AnchorError("at_pos patch sites: %d (expected >= 7)" % n)


def r11(ctx):
    """Width / length agreement outside the fixed-size codecs: (a) the qualifier constants of the 1- and 2-byte index types are the
    8- and 16-bit codes of their kind; (b) the extended attribute list length is biased by the same constant on both sides;
    (c) every variable-length string of a file object (g70) is announced with the BYTE length of exactly the bytes written."""
    prog = ctx.prog
    # (a)
    qv = dict(prog.enum_variants("dnp3::app::app_enums::QualifierCode"))
    if len(qv) < 7:
        raise AnchorError("QualifierCode variants")
    base = {"COUNT_AND_PREFIX_QUALIFIER": "CountAndPrefix", "RANGE_QUALIFIER": "Range", "LIMITED_COUNT_QUALIFIER": "Count"}
    n = 0
    for ty, bits in (("u8", "8"), ("u16", "16")):
        for cn, stem in base.items():
            c = prog.consts.get("<%s as dnp3::app::parse::traits::Index>::%s" % (ty, cn))
            if c is None:
                raise AnchorError("<%s as Index>::%s" % (ty, cn))
            n += 1
            got = qv.get(c.get("v"))
            ctx.check(got == stem + bits, "index-qualifier:%s:%s" % (ty, cn), "<%s as Index>::%s = QualifierCode::%s" % (ty, cn, got), "", bad_detail="<%s as Index>::%s is QualifierCode::%s, expected %s%s: headers written with a %s-byte count/index are announced with the other width and the parser mis-frames the fragment" % (ty, cn, got, stem, bits, "1" if ty == "u8" else "2"))
    # (b)
    wb = prog.body("attrs::get_list_encoding")
    wsub = [const_value(prog, ctx.sym(wb).call_expr(b.term)[2][1]) for b in call_sites(wb, r"::checked_sub$")]
    pb = prog.body("app::attr::AttrValue::parse")
    ps = ctx.sym(pb)
    padd = []
    for b, si, st in pb.assigns():
        if st.rv["k"] == "bin" and st.rv["op"].startswith("Add"):
            e = ps.rvalue_expr(st.rv)
            if mentions_call(e, r"ReadCursor::read_u8$"):
                padd.append(const_value(prog, e[3]))
    ctx.check(len(wsub) == 1 and len(padd) == 1 and wsub[0] == padd[0] == 256, "ext-attr-list:bias", "extended attribute list: writer subtracts %s, parser adds %s" % (wsub, padd), wb.where(line=wb.line), bad_detail="extended attribute list length: the outstation subtracts %s, the parser adds %s (must both be 256)" % (wsub, padd))
    # (c)
    k = 0
    for bd in prog.bodies_matching(r"^dnp3::app::file::g70v\d::Group70Var\d::write$"):
        sym = ctx.sym(bd)
        strings = {}
        for b in call_sites(bd, r"WriteCursor::write_bytes$"):
            e = sym.call_expr(b.term)[2][1]
            for x in expr_walk(e):
                if x[0] == "field" and x[1] in (("param", "self"),):
                    strings[x[2]] = b
        for b in call_sites(bd, r"WriteCursor::write_u(16|32)_le$"):
            v = sym.call_expr(b.term)[2][1]
            fs = [f for f in strings if mentions_field(v, f)]
            if not fs:
                continue
            k += 1
            ok = (mentions_call(v, r"file::byte_length$|str::len$|\]>::len$|::len$")) and not mentions_call(v, r"chars$|::count$|char_indices$")
            ctx.check(ok, "g70-length:%s:%s" % (bd.path.split("::")[-2], fs[0]), "length of %s = %s" % (fs[0], expr_str(v)[:60]), bd.where(b.idx), bad_detail="%s announces `%s` with `%s`, which is not the number of BYTES written for it: a name with a multi-byte character is cut short by the parser" % (bd.path.split("::")[-2], fs[0], expr_str(v)[:80]))
    if k < 4:
        raise AnchorError("g70 length fields: %d (expected >= 4)" % k)
    bl = prog.body("app::file::byte_length")
    ctx.check(bool(call_sites(bl, r"str>::len$|str::len$")) and not call_sites(bl, r"chars$|::count$"), "byte_length", "byte_length() is str::len (bytes)", bl.where(line=bl.line))


def r12(ctx):
    """'parsed ... into exactly the ... object values that were encoded': an event older than the open header's CTO must start a new
    header; encoded as |time - CTO| it decodes to CTO + d instead of CTO - d. The guards of write_cto are rule C10.R4 (shared)."""
    import c10
    c10.r4(ctx)

def r13(ctx):
    """File permissions (g70v3 / g70v7): the 9-bit field is written and parsed with the same layout - world in bits 0-2, group in
    bits 3-5, owner in bits 6-8, execute/write/read = bit 0/1/2 within a set (IEEE 1815 file permissions). Writer and reader are
    separate hand-written tables; a test with symmetric permissions cannot tell them apart."""
    prog = ctx.prog
    P = "app::file::permissions::"
    want_shift = {"world": 0, "group": 3, "owner": 6}
    want_bit = {"execute": 0, "write": 1, "read": 2}
    vb = prog.body(P + "Permissions::value")
    vs = ctx.sym(vb)
    rets = [e for _, _, _, e in ret_sites(vb, vs)]
    if len(rets) != 1:
        raise AnchorError("Permissions::value: return")
    got = {}
    def walk(e, shift):
        if e[0] == "bin" and e[1] == "BitOr":
            walk(e[2], shift)
            walk(e[3], shift)
        elif e[0] == "bin" and e[1] in ("Shl", "ShlUnchecked") and const_value(prog, e[3]) is not None:
            walk(e[2], shift + const_value(prog, e[3]))
        elif e[0] == "cast":
            walk(e[2], shift)
        elif e[0] == "call" and (e[1] or "").endswith("PermissionSet::value") and e[2] and e[2][0][0] == "field":
            got[e[2][0][2]] = shift
    walk(rets[0], 0)
    for f, sh in want_shift.items():
        ctx.check(got.get(f) == sh, "permissions:write:%s" % f, "Permissions::value puts %s at bit %s" % (f, got.get(f)), vb.where(line=vb.line), bad_detail="Permissions::value writes `%s` at bit %s, the parser reads it from bit %d" % (f, got.get(f), sh))
    # the reader: Permissions { set: PermissionSet { perm: MASK.is_set(bits) } }
    rb = prog.body(P + "Permissions::read")
    rs = ctx.sym(rb)
    n = 0
    for b, si, st, e in ret_sites(rb, rs):
        if not (e[0] == "agg" and e[2] == "Ok"):
            continue
        pe = agg_field(e, "0")
        for setname, sh in want_shift.items():
            se = agg_field(pe, setname)
            for perm, bit in want_bit.items():
                me = agg_field(se, perm) if se is not None and se[0] == "agg" else None
                mask = const_value(prog, me[2][0]) if me is not None and me[0] == "call" and (me[1] or "").endswith("Mask::is_set") else None
                n += 1
                ctx.check(mask == 1 << (sh + bit), "permissions:read:%s.%s" % (setname, perm), "%s.%s <- mask %s" % (setname, perm, mask), rb.where(b.idx), bad_detail="Permissions::read takes %s.%s from mask %s, expected bit %d" % (setname, perm, mask, sh + bit))
    if n != 9:
        raise AnchorError("Permissions::read: %d permission bits" % n)
    # within a set
    sb = prog.body(P + "PermissionSet::value")
    seen = {}
    for b, si, st in sb.assigns():
        if st.rv["k"] == "bin" and st.rv["op"] == "BitOr":
            c = [o.value() for o in (st.rv["a"], st.rv["b"]) if o.is_const()]
            gs = [g for g in ctx.guards_at(sb, b.idx) if g.kind == "bool" and g.truth is True and g.a[0] == "field"]
            if c and gs:
                seen[gs[-1].a[2]] = c[0]
    for perm, bit in want_bit.items():
        ctx.check(seen.get(perm) == 1 << bit, "permissions:set:%s" % perm, "PermissionSet::value: %s -> %s" % (perm, seen.get(perm)), sb.where(line=sb.line))
    for nm, bit in (("WE", 0), ("WW", 1), ("WR", 2), ("GE", 3), ("GW", 4), ("GR", 5), ("OE", 6), ("OW", 7), ("OR", 8)):
        c = prog.const(P + "Permissions::" + nm)
        ctx.check(c.get("v") == 1 << bit, "permissions:mask:%s" % nm, "%s = bit %d" % (nm, bit))


CODE_ENUMS = ["app::control_enums::CommandStatus", "app::control_enums::OpType", "app::control_enums::TripCloseCode", "link::function::Function"]


def r14(ctx):
    """`from(u8)` keeps a code it has no name for as `Unknown(x)` with x exactly as received (a masked or shifted payload maps two
    wire values to one), and equality on these enums is the derived one (variant AND payload): a hand-written `eq` that compares
    `as_u8()` makes `Unknown(0)` equal `Success`, so a status octet that merely normalises to 0 passes the command echo check."""
    prog = ctx.prog
    n = 0
    for bd in prog.bodies.values():
        if "::test" in bd.path:
            continue
        sym = None
        for b, si, st in bd.assigns():
            rv = st.rv
            if rv["k"] == "agg" and rv.get("ak") == "enum" and rv.get("var") == "Unknown" and rv.get("ops") and any(rv["adt"].endswith(x.split("::")[-1]) for x in CODE_ENUMS):
                sym = sym or ctx.sym(bd)
                e = sym.rvalue_expr(rv)
                v = e[3][0][1]
                n += 1
                ctx.check(v[0] == "param", "unknown-preserved@%s" % short(bd.path), "%s::Unknown(%s)" % (rv["adt"].split("::")[-1], expr_str(v)[:40]), bd.where(b.idx), bad_detail="%s builds Unknown(%s): the received code is altered before it is stored" % (short(bd.path), expr_str(v)[:60]))
    if n < 4:
        raise AnchorError("Unknown(x) constructions: %d" % n)
    for en in CODE_ENUMS:
        name = en.split("::")[-1]
        eqs = [b for b in prog.bodies.values() if re.search(r"<dnp3::%s as std::cmp::PartialEq>::eq$" % re.escape(en), b.path)]
        if len(eqs) != 1:
            raise AnchorError("PartialEq for %s (%d)" % (name, len(eqs)))
        eb = eqs[0]
        # the derive compares discriminants first (intrinsics::discriminant_value); a hand-written eq over a projection does not
        derived = any((c.term.callee or c.term.declared or "").endswith("discriminant_value") for c in eb.calls()) and not any((c.term.callee or "").startswith("dnp3::") and "as_u8" in (c.term.callee or "") for c in eb.calls())
        ctx.check(derived, "derived-eq:%s" % name, "%s == is variant-sensitive (derived)" % name, eb.where(line=eb.line), bad_detail="PartialEq for %s is not the derived, variant-sensitive comparison" % name)

RULES = [
    ("C09.R1", "T6", "FixedSize codecs: read sequence = write sequence, widths sum to SIZE", r1),
    ("C09.R2", "T4", "Variation::lookup / to_group_and_var inverse; names equal numbers; VARIATION constants", r2),
    ("C09.R3", "T4-namesake", "every generated routing arm constructs the namesake variant", r3),
    ("C09.R4", "T4-reference", "code tables inverse and equal to the standard; qualifier dispatch agrees with its reporter", r4),
    ("C09.R6", "T5", "validation and iteration are the same pass over the stored options", r6),
    ("C09.R7", "T2", "free-format: count == 1 and an exhausted sub-cursor", r7),
    ("C09.R8", "T2/T8", "sequences take exactly their byte count before decoding; iterator indices cannot wrap", r8),
    ("C09.R10", "T3", "back-patched counts / range stops are written after the data they announce", r10),
    ("C09.R11", "T11/T8", "index qualifier constants, attribute-list bias and file-object length fields agree between writer and parser", r11),
    ("C09.R13", "T4/T11", "file permissions: writer and parser use the same bit layout (world/group/owner x execute/write/read)", r13),
    ("C09.R9", "T6/T10", "device attribute values: writer and parser agree on width and signedness for every encoded length", r9),
    ("C09.R12", "T2", "relative-time events are written as time - CTO only when representable (shared with C10.R4)", r12),
    ("C09.R14", "T4/T9", "codes without a named variant are preserved unmodified (Unknown(x)); code enums compare by derived, variant-sensitive equality", r14),
]


def r15(ctx):
    """Variation namesakes on the outstation's writers: inside the match arm of a variation variant named `Group<g>Var<v>`, a call
    instantiated with an object type named `Group<g'>Var<v'>` uses that very (g, v) - the object written is the one the header
    announces (`Self::Group42Var7 => write_fixed_size::<Group42Var7, _>`); and every `get_group_var` arm reports the numbers in the
    variant's name. The header and the object bytes otherwise disagree silently whenever two variations have the same size."""
    prog = ctx.prog
    rx = re.compile(r"(?:^|::)Group(\d+)Var(\d+)$")
    n = m = k = 0
    for bd in prog.bodies.values():
        if "::tests::" in bd.path or "::test::" in bd.path:
            continue
        sites = []
        for b in bd.calls():
            for ta in (b.term.d.get("targs") or []):
                mm = rx.search(ta)
                if mm:
                    sites.append((b, (int(mm.group(1)), int(mm.group(2)))))
                    break
        if sites:
            for b, gv in sites:
                arms = [g for g in ctx.guards_at(bd, b.idx) if g.kind == "is" and rx.search(str(g.name)) and g.edge]
                if not arms:
                    continue
                g = min(arms, key=lambda g: len(bd.region_of_edge(g.edge)))
                mm = rx.search(str(g.name))
                n += 1
                ctx.check((int(mm.group(1)), int(mm.group(2))) == gv, "variation-namesake@%s:%s" % (short(bd.path), g.name), "the %s arm is instantiated with Group%dVar%d" % (g.name, gv[0], gv[1]), bd.where(b.idx), bad_detail="the %s arm calls %s instantiated with Group%dVar%d: the header announces one variation and the object bytes are another's" % (g.name, short(b.term.callee or ""), gv[0], gv[1]))
        # ... and an enum value named Group<g>Var<v> built inside such an arm (READ header -> static variation) is the arm's namesake
        if re.search(r"outstation::database::read::ReadHeader::", bd.path):
            for b, si, st in bd.assigns():
                rv = st.rv
                if rv["k"] != "agg" or rv.get("ak") != "enum" or not rx.search(str(rv.get("var"))):
                    continue
                arms = [g for g in ctx.guards_at(bd, b.idx) if g.kind == "is" and rx.search(str(g.name)) and g.edge]
                if not arms:
                    continue
                g = min(arms, key=lambda g: len(bd.region_of_edge(g.edge)))
                k += 1
                ctx.check(str(g.name) == rv["var"], "variation-namesake@%s:%s" % (short(bd.path), g.name), "the %s arm selects %s::%s" % (g.name, rv["adt"].split("::")[-1], rv["var"]), bd.where(b.idx), bad_detail="a READ of %s is mapped to %s::%s: the objects reported are of another variation than the one requested" % (g.name, rv["adt"].split("::")[-1], rv["var"]))
        if bd.path.endswith("::get_group_var"):
            sym = ctx.sym(bd)
            for b, si, st, e in ret_sites(bd, sym):
                arms = [g for g in ctx.guards_at(bd, b.idx) if g.kind == "is" and rx.search(str(g.name)) and g.edge]
                if not arms or e[0] != "tuple" or len(e[1]) != 2:
                    continue
                g = min(arms, key=lambda g: len(bd.region_of_edge(g.edge)))
                mm = rx.search(str(g.name))
                got = (const_value(prog, e[1][0]), const_value(prog, e[1][1]))
                m += 1
                ctx.check(got == (int(mm.group(1)), int(mm.group(2))), "group-var@%s:%s" % (short(bd.path), g.name), "%s reports %s" % (g.name, got), bd.where(b.idx), bad_detail="get_group_var reports %s for %s" % (got, g.name))
    if n < 300 or m < 30 or k < 100:  # counted on the reviewed tree: 343 / 32 / READ header arms
        raise AnchorError("variation namesake sites: %d instantiations, %d get_group_var arms" % (n, m))


RULES.append(("C09.R15", "T4-namesake", "a variation arm writes the object type of its own name; get_group_var reports the numbers in the variant's name", r15))


# narrowing integer casts outside the measurement-conversion region (which C10.R1 owns): (function, cast) -> why it cannot lose a value
R16_LISTED = {
    ("UInt::new", "u32->u8"): "chosen under `value <= u8::MAX` (the arm guard), C09.R9 checks the width selection",
    ("UInt::new", "u32->u16"): "chosen under `value <= u16::MAX`",
    ("Int::new", "i32->u8"): "`value as i8 as u8` inside the i8 range arm: the one-byte two's complement encoding (C09.R9)",
    ("Int::new", "i32->i16"): "inside the i16 range arm (C09.R9)",
    ("Int::new", "i32->i8"): "inside the i8 range arm (C09.R9)",
    ("AttrValue::parse_signed_int", "u8->i8"): "sign reinterpretation of the one-byte encoding, not a truncation (F15)",
    ("crc_increment", "u16->u8"): "the CRC table is indexed by the low byte of the accumulator by definition of the algorithm (C06.R1 checks the table and seed)",
}


def r16(ctx):
    """'what one side encodes the other decodes' fails silently where a count, length, index or value is narrowed by `as`: every
    narrowing integer cast outside the measurement conversions (C10.R1) is masked (`& c`, `% c`), dominated by an upper-bound test of
    its operand, or listed above with the reason it cannot lose a value. A new `count as u16` in a parser is none of these."""
    import c10
    prog = ctx.prog
    n = 0
    for bd in prog.bodies.values():
        if "::tests::" in bd.path or "::test::" in bd.path:
            continue
        if c10.REGION.search(bd.path) or bd.file.endswith(("app/gen/conversion.rs", "app/measurement.rs")):
            continue
        sym = None
        for b, si, st in bd.assigns():
            rv = st.rv
            if rv["k"] != "cast" or not c10.narrowing(rv["from"], rv["to"]) or is_tracing(st.macros) or is_fmt_macro(st.macros):
                continue
            if rv["a"].is_const():
                continue  # shift amounts and other literals
            sym = sym or ctx.sym(bd)
            op = sym.operand_expr(rv["a"])
            if op[0] == "const":
                continue
            n += 1
            cast = "%s->%s" % (rv["from"], rv["to"])
            fn_ = c10.nice(bd.path)
            key = "cast@%s:%s" % (fn_, cast)
            if op[0] == "bin" and op[1] in ("BitAnd", "Rem"):
                ctx.ok(key, "masked: %s" % expr_str(op)[:50], bd.where(b.idx))
                continue
            lo, hi = c10.bounds(ctx, bd, b.idx, op)
            if hi and (lo or rv["from"][0] == "u"):
                ctx.ok(key, "dominated by a range test of its operand", bd.where(b.idx))
                continue
            base = c10.nice(re.sub(r"(::\{closure#\d+\})+$", "", bd.path))  # the same arithmetic moved into a closure of the listed function
            why = R16_LISTED.get((base, cast)) or R16_LISTED.get((fn_.split("::{closure")[0], cast)) or R16_LISTED.get((re.sub(r"^.*?(\w+::\w+)$", r"\1", base), cast))
            if why:
                ctx.ok(key, "listed: " + why, bd.where(b.idx))
            else:
                ctx.bad(key, "unguarded narrowing cast %s of `%s` in %s: a count / length / value that does not fit wraps silently and encoder and decoder disagree" % (cast, expr_str(op)[:60], fn_), bd.where(b.idx))
    if n < 10:
        raise AnchorError("codec cast census: %d" % n)


RULES.append(("C09.R16", "T1-census", "narrowing integer casts outside the measurement conversions are masked, range-guarded or listed", r16))


def r17(ctx):
    """'what one side encodes the other decodes' for relative-time events: the common time of occurrence stays in effect on the master
    for all following relative-time headers, and the outstation writes it for every such header (C10.R5, shared code)."""
    import c10
    c10.r5(ctx)


RULES.append(("C09.R17", "T8", "the common time of occurrence is carried across headers on the master and written per header on the outstation (shared with C10.R5)", r17))


def r18(ctx):
    """Sibling agreement of the six master-side dead-band builders `DeadBandHeader::group34_var<V>_u<W>`: each maps an (index, value)
    pair to (Group34Var<V> { value: pair.1 }, pair.0) - where index and value have the same type (g34v1 with 16-bit indices) a swap
    type-checks and the WRITE is encoded with index and dead-band exchanged. Also: the state bits of with-flags double-bit objects
    are ASSIGNED from the value, not OR-ed into the user flags (C10.R7, shared code)."""
    prog = ctx.prog
    n = 0
    for bd in prog.bodies.values():
        m = re.search(r"request::DeadBandHeader::group34_var(\d)_u(8|16)::\{closure#0\}$", bd.path)
        if not m:
            continue
        sym = ctx.sym(bd)
        for b, si, st, e in ret_sites(bd, sym):
            n += 1
            ok = e[0] == "tuple" and len(e[1]) == 2 and e[1][0][0] == "agg" and e[1][0][1].endswith("Group34Var%s" % m.group(1))
            if ok:
                v = dict(e[1][0][3]).get("value")
                ok = v is not None and v[0] == "field" and v[2] == "1" and e[1][1][0] == "field" and e[1][1][2] == "0" and v[1] == e[1][1][1]
            ctx.check(ok, "dead-band-builder@g34v%s_u%s" % m.groups(), "(index, value) -> (Group34Var%s{value: pair.1}, pair.0): %s" % (m.group(1), expr_str(e)[:70]), bd.where(b.idx), bad_detail="group34_var%s_u%s maps its (index, value) pairs to %s: index and dead-band value are exchanged on the wire" % (m.group(1), m.group(2), expr_str(e)[:90]))
    if n != 6:
        raise AnchorError("dead-band builders: %d" % n)
    import c10
    c10.r7(ctx)


RULES.append(("C09.R18", "T-sibling/T8", "the six dead-band builders keep (index, value) in order; double-bit state bits are assigned from the value (C10.R7)", r18))
