"""C07 — endpoints act only on traffic addressed to them; broadcasts are never answered."""
from engine import *
from mir import *

EXPLANATION = (
    "Layer::process_header: every FrameInfo/Reply construction is dominated by the direction test, by `source is Endpoint`, and by a cut "
    "of the destination-accepting edges (own address equality | self address under is_enabled | broadcast under EndpointType::Outstation); "
    "replies are produced only under `broadcast is None` or behind the broadcast=>user-data guard; the FCV requirement of every function "
    "and the FCB test guard delivery and the FCB toggle. Outstation: all pop_request sites pass required_master_address(), which maps "
    "respond_to_any_master; pop_request compares the address of EVERY address-carrying TransportRequest variant; Broadcast arms of the "
    "dispatchers reach no transmit call; error responses are dominated by a non-broadcast edge; the assembler accepts a broadcast only as FIR&FIN."
)
ASSUMPTIONS = [
    "'confirmed user data delivered at most once per FCB toggle' is decided in its single-step form only (R3)",
    "behaviour for each of the 256 control octets is covered only through the decoded-field guards",
]
TRUSTED = ["rustc nightly MIR + Instance::try_resolve", "facts driver", "rules/mir.py dominance + symbolic expressions"]

DIR = g_rel("Ne", lambda x: mentions_field(x, "master"), lambda x: mentions_call(x, r"EndpointType::dir_bit$"))
SRC = g_is(lambda x: x[0] == "field" and x[2] == "source", "Endpoint")
DEST = lambda x: mentions_field(x, "destination")
ACCEPT = [
    ("Eq(destination, local_address)", g_rel("Eq", DEST, "local_address")),
    ("self address && is_enabled", g_bool(lambda x: mentions_call(x, r"Feature::is_enabled$") and mentions_field(x, "self_address"), True)),
    ("broadcast && Outstation", g_is("endpoint_type", "Outstation")),
]


def _sites(body):
    out = []
    for b in call_sites(body, r"FrameInfo::new$"):
        out.append((b, "FrameInfo"))
    for b in call_sites(body, r"layer::Reply::new$"):
        out.append((b, "Reply"))
    return out


def r1(ctx):
    prog = ctx.prog
    body = prog.body("link::layer::Layer::process_header")
    sites = _sites(body)
    if len(sites) < 6:
        raise AnchorError("process_header: expected >= 6 FrameInfo/Reply sites, found %d" % len(sites))
    gi = ctx.gi(body)
    # structure of the accepting edges themselves
    for label, pred in ACCEPT[1:]:
        for g in arm_edges(ctx, body, pred):
            want = "SelfAddress" if "self" in label else "Broadcast"
            ok = any(x.kind == "is" and x.name == want and DEST(x.a) for x in gi.dominating(g.edge[0]))
            ctx.check(ok, "accept-edge:%s" % label, "accepting edge `%s` lies in the `destination is %s` arm" % (label, want), body.where(g.edge[0]))
    for g in arm_edges(ctx, body, ACCEPT[0][1]):
        ok = any(x.kind == "is" and x.name == "Endpoint" and DEST(x.a) for x in gi.dominating(g.edge[0]))
        ctx.check(ok, "accept-edge:own-address", "own-address equality lies in the `destination is Endpoint` arm", body.where(g.edge[0]))
    n = {}
    for b, kind in sites:
        func = [g.name for g in gi.dominating(b.idx) if g.kind == "is" and g.a[0] == "field" and g.a[2] == "func"]
        k = "%s@%s" % (kind, func[0] if func else "?")
        n[k] = n.get(k, 0) + 1
        key = "%s#%d" % (k, n[k])
        ctx.require_guards(body, b.idx, [("direction: master != dir_bit()", DIR), ("source is Endpoint", SRC)], key, "%s construction" % kind)
        require_cut(ctx, body, b.idx, ACCEPT, key, "%s construction" % kind)
        # the source delivered / replied to is the validated one
        e = ctx.sym(body).call_expr(b.term)
        ctx.check(mentions(e[2][0], lambda s: s[0] == "variant" and s[2] == "Endpoint") and mentions_field(e[2][0], "source"), key + "|addr-src", "%s address = %s" % (kind, expr_str(e[2][0])), body.where(b.idx))


UD = ("PriUnconfirmedUserData", "PriConfirmedUserData")


def r2(ctx):
    prog = ctx.prog
    body = prog.body("link::layer::Layer::process_header")
    gi = ctx.gi(body)
    isbc = lambda x: x[0] == "var" and x[1] == "broadcast" or mentions_name(x, "broadcast")
    isfunc = lambda x: x[0] == "field" and x[2] == "func"
    bc_none = g_is(isbc, "None")

    def ud_only(g):
        if not (g.a is not None and isfunc(g.a)):
            return False
        if g.kind == "is":
            return g.name in UD
        if g.kind == "oneof":
            return set(g.name) <= set(UD)
        return False

    cut = [("broadcast is None", bc_none), ("func in {user data}", ud_only)]
    # 1. everything process_header can do for a function other than user data (deliver, reply, change the secondary
    #    state) is reachable only with `broadcast is None` -- in whatever order the two tests are written
    acts = [(b, kind) for b, kind in _sites(body)]
    for b, si, st in field_writes(body, "secondary_state"):
        acts.append((b, "secondary_state="))
    k = 0
    n_shielded = 0
    for b, kind in acts:
        k += 1
        doms = gi.dominating(b.idx)
        func = [g.name for g in doms if g.kind == "is" and isfunc(g.a)]
        f = func[-1] if func else "?"
        key = "%s#%d@%s" % (kind.lower().rstrip("="), k, f)
        if f in UD:
            if kind == "Reply":
                ctx.check(any(bc_none(d) for d in doms), key, "Reply in a user-data arm is dominated by `broadcast is None`", body.where(b.idx), bad_detail="link-layer reply (ACK) constructed for user data without `broadcast is None`")
            continue
        if any(bc_none(d) for d in doms):
            ctx.ok(key, "%s dominated by `broadcast is None`" % kind, body.where(b.idx))
            continue
        n_shielded += 1
        require_cut(ctx, body, b.idx, cut, key, "%s for function %s" % (kind, f))
    ctx.check(n_shielded >= 3, "broadcast-guard:covers", "%d non-user-data actions rely on the broadcast=>user-data guard" % n_shielded, body.where(line=body.line))
    # read_one transmits only what process_header returned
    ro = prog.abody("link::layer::Layer::read_one")
    for b in call_sites(ro, r"PhysLayer::write$"):
        ctx.require_guards(ro, b.idx, [("reply is Some", g_is(lambda x: mentions_call(x, r"Layer::process_header$"), "Some"))], "read_one:write", "link-layer transmit")


FCV_REQUIRED = {"PriUnconfirmedUserData": False, "PriResetLinkStates": False, "PriConfirmedUserData": True, "PriRequestLinkStatus": False}


def r3(ctx):
    prog = ctx.prog
    body = prog.body("link::layer::Layer::process_header")
    gi = ctx.gi(body)
    fcv = lambda t: g_bool(lambda x: x[0] == "field" and x[2] == "fcv", t)
    seen = set()
    for b, kind in _sites(body):
        doms = gi.dominating(b.idx)
        func = [g.name for g in doms if g.kind == "is" and g.a[0] == "field" and g.a[2] == "func"]
        f = func[0] if func else None
        if f in FCV_REQUIRED:
            seen.add(f)
            ctx.require_guards(body, b.idx, [("fcv == %s" % FCV_REQUIRED[f], fcv(FCV_REQUIRED[f]))], "fcv:%s:%s" % (f, kind), "%s in the %s arm" % (kind, f))
    for f in FCV_REQUIRED:
        if f not in seen:
            ctx.bad("fcv:%s:arm-missing" % f, "no delivery/reply site found in the %s arm" % f)
    # FCB
    st_reset = g_is(lambda x: x[0] == "field" and x[2] == "secondary_state", "Reset")
    fcb = g_rel("Eq", lambda x: mentions_field(x, "fcb"), lambda x: mentions_field(x, "secondary_state"))
    conf = g_is(lambda x: x[0] == "field" and x[2] == "func", "PriConfirmedUserData")
    n = 0
    for b, si, st in field_writes(body, "secondary_state"):
        e = ctx.sym(body).rvalue_expr(st.rv)
        if mentions(e, lambda s: s[0] == "un" and s[1] == "Not"):
            n += 1
            ctx.require_guards(body, b.idx, [("func is PriConfirmedUserData", conf), ("state is Reset", st_reset), ("fcb == expected", fcb)], "fcb-toggle", "FCB toggle")
        else:
            ok = e[0] == "agg" and e[2] == "Reset" and mentions_const(e, 1)
            ctx.check(ok, "secondary_state-write", "secondary_state <- %s" % expr_str(e), body.where(b.idx))
            ctx.require_guards(body, b.idx, [("func is PriResetLinkStates", g_is(lambda x: x[0] == "field" and x[2] == "func", "PriResetLinkStates"))], "reset-link-states", "Reset(true)")
    ctx.check(n == 1, "fcb-toggle:count", "exactly one FCB toggle site (%d)" % n, body.where(line=body.line))
    for b, kind in _sites(body):
        doms = gi.dominating(b.idx)
        if kind == "FrameInfo" and any(conf(d) for d in doms):
            ctx.require_guards(body, b.idx, [("state is Reset", st_reset), ("fcb == expected", fcb)], "confirmed-delivery", "delivery of confirmed user data")
    # secondary_state is written nowhere else except Layer::new / Layer::reset (NotReset)
    for bd in prog.bodies_matching(r"link::layer::"):
        if bd is body:
            continue
        for b, si, st in field_writes(bd, "secondary_state"):
            e = ctx.sym(bd).rvalue_expr(st.rv)
            ctx.check(bd.path.endswith("Layer::reset") and e[0] == "agg" and e[2] == "NotReset", "secondary_state-writer@%s" % short(bd.path), "writes %s" % expr_str(e), bd.where(b.idx))


POP_SITES = ["OutstationSession::handle_one_request_from_idle", "OutstationSession::wait_for_unsolicited_confirm", "OutstationSession::wait_for_sol_confirm"]


def r4(ctx):
    prog = ctx.prog
    cg = prog.callgraph
    callers = [c for c in cg.callers_of(lambda c: c.endswith("TransportReader::pop_request")) if "::tests::" not in c[0] and "::mock::" not in c[0]]
    want = {prog.abody(s).path for s in POP_SITES}
    seen = set()
    for path, blk, callee, how in callers:
        bd = prog.bodies[path]
        seen.add(path)
        e = ctx.sym(bd).call_expr(bd.blocks[blk].term)
        ctx.check(path in want, "pop_request-caller@%s" % short(path), "caller %s" % path, bd.where(blk))
        ctx.check(e[2][1][0] == "call" and e[2][1][1].endswith("OutstationSession::required_master_address"), "pop_request-arg@%s" % short(path), "pop_request(%s)" % expr_str(e[2][1]), bd.where(blk))
    for w in want - seen:
        ctx.bad("pop_request-caller-missing@%s" % short(w), "expected pop_request call site not found")
    rb = prog.body("OutstationSession::required_master_address")
    sym = ctx.sym(rb)
    rts = ret_sites(rb, sym)
    for b, si, st, e in rts:
        if e[0] == "agg" and e[2] == "None":
            ctx.require_guards(rb, b.idx, [("respond_to_any_master is Enabled", g_is("respond_to_any_master", "Enabled"))], "required_master_address:None", "None (accept any master)")
        elif e[0] == "agg" and e[2] == "Some":
            ctx.require_guards(rb, b.idx, [("respond_to_any_master is Disabled", g_is("respond_to_any_master", "Disabled"))], "required_master_address:Some", "Some(configured master)")
            ctx.check(mentions_field(e, "destination") and mentions_field(e, "link"), "required_master_address:value", "filter address = %s" % expr_str(e), rb.where(b.idx))
        else:
            ctx.bad("required_master_address:shape", "unexpected return %s" % expr_str(e), rb.where(b.idx))
    if len(rts) < 2:
        raise AnchorError("required_master_address: expected two returns")


def r5(ctx):
    """Exhaustive filter: each address-carrying variant of TransportRequest is compared in pop_request."""
    prog = ctx.prog
    adt = prog.adt("transport::types::TransportRequest")
    carrying = [v["name"] for v in adt["variants"] if any(("FragmentInfo" in ty or "FragmentAddr" in ty) for _, ty in v["fields"])]
    if not carrying:
        raise AnchorError("TransportRequest has no address-carrying variant")
    body = prog.body("transport::reader::TransportReader::pop_request")
    gi = ctx.gi(body)
    pops = call_sites(body, r"TransportReader::pop$")
    ctx.check(len(pops) >= 1, "pop_request:pops", "pop_request discards on mismatch", body.where(line=body.line))
    cmp_guards = [g for g in gi.all_guards() if g.kind == "rel" and g.op in ("Ne", "Eq") and (mentions_name(g.a, "master_address") or mentions_name(g.b, "master_address") or mentions_name(g.a, "required_master_addr") or mentions_name(g.b, "required_master_addr"))]
    for v in carrying:
        # the address of variant v flows into a comparison with the required master address
        direct = [g for g in cmp_guards if any(mentions(x, lambda s: s[0] == "variant" and s[2] == v) for x in g.exprs())]
        via_var = []
        if not direct:
            # `let info = match peek { Request(i,_) => Some(i), Error(i,_) => Some(i), .. }` : a phi local; accept when an arm for v
            # assigns the variable that the comparison reads
            for g in cmp_guards:
                names = {s[1] for x in g.exprs() for s in expr_walk(x) if s[0] == "var"}
                for nm in names:
                    for l in body.local_by_name(nm) or ([int(nm[1:])] if nm.startswith("_") and nm[1:].isdigit() else []):
                        for blk, si in body.defs.get(l, []):
                            if si == "term":
                                continue
                            e = ctx.sym(body).rvalue_expr(body.blocks[blk].stmts[si].rv)
                            if mentions(e, lambda s: s[0] == "variant" and s[2] == v):
                                via_var.append(g)
        ok = bool(direct or via_var)
        ctx.check(ok, "filter-covers:%s" % v, "TransportRequest::%s's source address is compared with the required master address" % v, body.where(line=body.line), bad_detail="TransportRequest::%s carries a source address but pop_request never compares it with the required master address: a fragment of that kind from a foreign master is acted upon" % v)
    # the pop happens on the mismatch edge
    for p in pops:
        ctx.require_guards(body, p.idx, [("required address is Some", g_is(lambda x: mentions_name(x, "master_address"), "Some")), ("address != required", lambda g: g in cmp_guards and g.op == "Ne")], "pop_request:pop", "discarding the fragment")
    # ... and nothing else decides: a request is handed out without the pop only when it carries no address, no master
    # address is required, or the addresses are equal (a further condition on the mismatch path, e.g. "directed only",
    # lets a foreign master's fragment through)
    ismaster = lambda x: mentions_name(x, "master_address") or mentions_name(x, "required_master_addr")
    legit = [
        ("required address is None", g_is(ismaster, "None")),
        ("address == required", lambda g: g.kind == "rel" and g.op == "Eq" and (ismaster(g.a) or ismaster(g.b)) and any(mentions_field(x, "link") for side_ in (g.a, g.b) for x in resolve_defs(body, ctx.sym(body), side_, depth=3))),
        ("request carries no address", lambda g: g.kind in ("is", "oneof") and not ismaster(g.a) and (
            (g.kind == "is" and g.name in ("None", "LinkLayerMessage")) or (g.kind == "oneof" and set(g.name) <= {"None", "LinkLayerMessage"})) and not mentions_field(g.a, "broadcast") and not mentions_field(g.a, "addr")),
    ]
    edges = []
    for label, pred in legit:
        edges += [g.edge for g in gi.all_guards() if not is_tracing(g.macros) and any(pred(x) for x in gi.implied(g))]
    pop_blocks = {p.idx for p in pops}
    for b in call_sites(body, r"RequestGuard::new$"):
        reach = b.idx in body.reachable(0, removed_edges=edges, removed_blocks=pop_blocks)
        ctx.check(not reach, "pop_request:no-bypass", "every hand-out passes the discard, or an edge in {%s}" % " | ".join(l for l, _ in legit), body.where(b.idx), bad_detail="a request whose source address differs from the required master address is handed out on a path that skips the discard (a further condition was added to the mismatch test)")


TX = r"TransportWriter::write$|OutstationSession::(write_solicited|repeat_solicited|write_error_response|write_unsolicited|repeat_unsolicited)$"


def r6(ctx):
    prog = ctx.prog
    cl = lambda x: mentions_call(x, r"OutstationSession::classify$")
    for d in ("OutstationSession::process_request_from_idle", "OutstationSession::wait_for_unsolicited_confirm", "OutstationSession::expect_sol_confirm"):
        body = prog.abody(d)
        name = d.split("::")[-1]
        arms = arm_edges(ctx, body, g_is(cl, "Broadcast"))
        if len(arms) != 1:
            raise AnchorError("%s: Broadcast arm" % d)
        region = region_of(body, arms[0])
        hits = calls_in_blocks(prog, body, region, TX)
        ctx.check(not hits, "broadcast-arm-silent@%s" % name, "Broadcast arm (%d blocks) reaches no transmit call" % len(region), body.where(arms[0].edge[1]), bad_detail="Broadcast arm transmits via %s" % sorted({short(c) for _, _, c in hits}))
    # positive control: the query matches a sibling arm
    body = prog.abody("OutstationSession::wait_for_unsolicited_confirm")
    arms = arm_edges(ctx, body, g_is(cl, "NewNonRead"))
    ok = bool(arms) and bool(calls_in_blocks(prog, body, region_of(body, arms[0]), TX))
    ctx.check(ok, "control:tx-in-NewNonRead", "positive control: transmit query matches the NewNonRead arm", body.where(arms[0].edge[1]) if arms else "")
    # process_request_from_idle returns None for Broadcast, and the caller transmits only under Some
    body = prog.abody("OutstationSession::process_request_from_idle")
    sym = ctx.sym(body)
    arms = arm_edges(ctx, body, g_is(cl, "Broadcast"))
    region = region_of(body, arms[0])
    rets = [(b, e) for b, si, st, e in ret_sites(body, sym) if b.idx in region]
    ctx.check(bool(rets) and all(e[0] == "agg" and e[2] == "None" for b, e in rets), "broadcast-arm-returns-None", "Broadcast arm of process_request_from_idle yields None", body.where(arms[0].edge[1]))
    top = prog.abody("OutstationSession::handle_one_request_from_idle")
    for b in call_sites(top, r"OutstationSession::write_solicited$"):
        ctx.require_guards(top, b.idx, [("process_request_from_idle(..) is Some", g_is(lambda x: mentions_call(x, r"process_request_from_idle$") and not mentions_field(x, "response"), "Some"))], "idle:tx-only-with-result", "write_solicited from idle")
    # classify: Broadcast is decided before anything that can produce a response-bearing variant
    cb = prog.body("OutstationSession::classify")
    for var in ("MalformedRequest", "RepeatRead", "RepeatNonRead", "NewRead", "NewNonRead"):
        for b, si, st in agg_sites(cb, r"session::FragmentType$", var):
            ctx.require_guards(cb, b.idx, [("info.broadcast is None", g_is(lambda x: mentions_field(x, "broadcast"), "None"))], "classify:%s" % var, "FragmentType::%s" % var)


def r7(ctx):
    """Error responses are never produced for a broadcast."""
    prog = ctx.prog
    wb = prog.abody("OutstationSession::write_error_response")
    tx = call_sites(wb, r"OutstationSession::write_solicited$")
    if not tx:
        raise AnchorError("write_error_response: no write_solicited")
    for b in tx:
        gs = ctx.guards_at(wb, b.idx)
        ok = any((g.kind == "is" and g.name == "None" and mentions_field(g.a, "broadcast")) or (g.kind == "bool" and g.truth is False and mentions_call(g.a, r"Option::is_some$") and mentions_field(g.a, "broadcast")) for g in gs)
        ctx.check(ok, "error-response:not-broadcast", "error response dominated by `broadcast is None`", wb.where(b.idx), bad_detail="write_error_response transmits without any test of the broadcast flag: a malformed fragment sent to a broadcast address is answered (TransportRequest::Error carries no broadcast information)")
    # every other write_solicited on a request path sits in a non-Broadcast arm of classify or on the deferred-read path
    cl = lambda x: mentions_call(x, r"OutstationSession::classify$")
    body = prog.abody("OutstationSession::wait_for_unsolicited_confirm")
    for b in call_sites(body, r"OutstationSession::(write_solicited|repeat_solicited)$"):
        gs = ctx.guards_at(body, b.idx)
        ok = any(g.kind == "is" and cl(g.a) and g.name not in ("Broadcast",) for g in gs)
        ctx.check(ok, "unsol-wait:tx-arm", "transmit sits in a non-Broadcast arm of classify", body.where(b.idx))
    ex = prog.body("OutstationSession::expect_sol_confirm")
    for var in ("Confirmed", "EchoLastResponse"):
        for b, si, st in agg_sites(ex, r"session::ConfirmAction$", var):
            gs = ctx.guards_at(ex, b.idx)
            ok = any(g.kind == "is" and cl(g.a) and g.name != "Broadcast" for g in gs)
            ctx.check(ok, "sol-wait:%s-arm" % var, "ConfirmAction::%s built in a non-Broadcast arm" % var, ex.where(b.idx))
    # deferred read: what is stored comes from NewRead/RepeatRead arms
    for b in call_sites(body, r"DeferredRead::set$"):
        gs = ctx.guards_at(body, b.idx)
        ok = any(g_oneof(cl, ("NewRead", "RepeatRead"))(g) for g in gs) or only_via_arms(ctx, body, b.idx, g_oneof(cl, ("NewRead", "RepeatRead")))
        ctx.check(ok, "deferred-read:set-arm", "DeferredRead::set only in read arms", body.where(b.idx))


def r8(ctx):
    prog = ctx.prog
    body = prog.body("transport::real::assembler::Assembler::assemble")
    gi = ctx.gi(body)
    bc = arm_edges(ctx, body, g_is(lambda x: mentions_field(x, "broadcast"), "Some"))
    if len(bc) != 1:
        raise AnchorError("assemble: broadcast arm")
    region = region_of(body, bc[0])
    apps = [b for b in call_sites(body, r"Assembler::append$") if b.idx in region]
    ctx.check(len(apps) == 1, "assemble:broadcast-append-count", "one append in the broadcast arm (%d)" % len(apps), body.where(bc[0].edge[1]))
    for b in apps:
        ctx.require_guards(body, b.idx, [("fir", g_bool(lambda x: x[0] == "field" and x[2] == "fir", True)), ("fin", g_bool(lambda x: x[0] == "field" and x[2] == "fin", True))], "assemble:broadcast", "append of a broadcast segment")
    # the broadcast arm never falls into the multi-segment state machine
    others = [b for b in call_sites(body, r"Assembler::append$") if b.idx not in region]
    for b in others:
        ctx.require_guards(body, b.idx, [("broadcast is None", g_is(lambda x: mentions_field(x, "broadcast"), "None"))], "assemble:non-broadcast-append", "append in the state machine")


def r9(ctx):
    """'from a non-reserved source': the address classifier AnyAddress::from is part of this property's acceptance test; its
    table is rule C06.R5 (shared code)."""
    import c06
    c06.r5(ctx)

def r10(ctx):
    """'acts on ... a link frame only when it is addressed to its own address': the FramePayload is reused across frames, so a frame
    delivered with the stale body of a previous frame (possibly one addressed to another station and correctly ignored) makes the
    endpoint act on traffic that was not addressed to it. Payload hygiene is rule C06.R3 (shared)."""
    import c06
    c06.r3(ctx)

RULES = [
    ("C07.R1", "T2+cut", "FrameInfo/Reply only after direction, source and destination validation", r1),
    ("C07.R2", "T2", "no link reply for broadcast; broadcast accepts user data only", r2),
    ("C07.R3", "T2+T4", "FCV per function; FCB test guards delivery and toggle", r3),
    ("C07.R4", "T8/T4", "all pop_request sites pass required_master_address(); its mapping", r4),
    ("C07.R5", "T4-exhaustive", "pop_request filters every address-carrying TransportRequest variant", r5),
    ("C07.R6", "T2-region", "Broadcast arms transmit nothing", r6),
    ("C07.R7", "T2", "error / echo / confirm responses only on non-broadcast edges", r7),
    ("C07.R8", "T2", "assembler accepts a broadcast only as a single FIR&FIN segment", r8),
    ("C07.R9", "T4", "link address classes (reserved / broadcast / self) equal the standard on both roles (shared with C06.R5)", r9),
    ("C07.R10", "T2/T8", "a frame's payload is its own: cleared before the body is read, every block behind its CRC test (shared with C06.R3)", r10),
]


def r11(ctx):
    """'acts only on traffic addressed to it': which addresses an endpoint answers to (own address, self address feature, broadcast
    feature) reaches the link layer through constructor arguments - each is the parameter's namesake (shared helper)."""
    arg_namesakes(ctx, ctx.prog)


RULES.append(("C07.R11", "T8-namesake", "constructor arguments read from configuration are the parameter's namesake (no same-typed sibling swapped in)", r11))


def r12(ctx):
    """'broadcasts unanswered' and reported as broadcasts: in Layer::process_header the broadcast mode derived from the destination
    address is a value that is only READ until the FrameInfo is built - no Option::take / replace / insert on it, no second
    assignment: a frame that loses it is handed to the session as unicast (answered, never flagged in IIN1.0)."""
    prog = ctx.prog
    bd = prog.body("link::layer::Layer::process_header")
    sym = ctx.sym(bd)
    bl = set(bd.local_by_name("broadcast"))
    if not bl:
        raise AnchorError("process_header: no `broadcast` local")
    muts = []
    for c in bd.calls():
        cal = c.term.callee or c.term.declared or ""
        if not re.search(r"option::Option(<.*>)?::(take|replace|take_if|insert|get_or_insert|get_or_insert_with|as_mut)$", cal) or not c.term.args or c.term.args[0].is_const():
            continue
        # receiver: &mut <local>
        cur = c.term.args[0].place.local
        for _ in range(4):
            if cur in bl:
                muts.append(c)
                break
            ds = bd.defs.get(cur, [])
            if len(ds) != 1 or ds[0][1] == "term":
                break
            rv = bd.blocks[ds[0][0]].stmts[ds[0][1]].rv
            if rv["k"] in ("ref", "rawptr"):
                cur = rv["p"].local
            elif rv["k"] == "use" and not rv["a"].is_const():
                cur = rv["a"].place.local
            else:
                break
    ctx.check(not muts, "process_header:broadcast-read-only", "the broadcast mode is never consumed or rewritten in process_header", bd.where(muts[0].idx) if muts else bd.where(line=bd.line), bad_detail="process_header calls %s on `broadcast`: the FrameInfo built afterwards no longer says the frame was a broadcast" % short((muts[0].term.callee or "")) if muts else "")
    fi = [b for b, si, st in agg_sites(bd, r"link::layer::FrameInfo$|FrameInfo$")] + [c for c in call_sites(bd, r"FrameInfo::new$")]
    ctx.check(bool(fi), "process_header:frameinfo-sites", "FrameInfo construction sites found (%d)" % len(fi), bd.where(line=bd.line))


RULES.append(("C07.R12", "T5", "the broadcast mode derived from the destination address reaches the FrameInfo unchanged", r12))
