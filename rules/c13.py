"""C13 — internal indication bits tell the truth."""
import json
import os

from engine import *
from mir import *

EXPLANATION = (
    "Bit positions of every Iin1/Iin2 constant and getter equal the standard's (tables/ieee1815.json). In get_response_iin each bit is "
    "OR-ed under its namesake source (class k <- unwritten_classes.class_k, overflow <- is_overflown, restart <- restart_iin_asserted, "
    "broadcast <- last_broadcast_type, plus get_application_iin()). The sticky flags have frozen writer sets with their guards "
    "(restart cleared only by a write of 0 to index 7, not by reset; broadcast cleared only on report / matching confirms). "
    "write_solicited / write_unsolicited OR get_response_iin into the header before the only transmit calls. EventsInfo is filled from "
    "the namesake buffer queries; unwritten = total - written; is_overflown is cleared only by clear_written when no type is full, and "
    "is_any_full covers every Insertable type."
)
ASSUMPTIONS = [
    "'exactly when ... not part of a response awaiting confirmation' over buffer histories is not decided; the counter discipline it rests on is C03.R7",
    "application-mirrored bits are whatever the application returns at that moment",
]
TRUSTED = ["rustc nightly MIR + Instance::try_resolve", "facts driver", "tables/ieee1815.json (hand-entered from IEEE 1815)", "rules/mir.py"]

REF = json.load(open(os.path.join(VERIF, "tables", "ieee1815.json")))


def r1(ctx):
    prog = ctx.prog
    for ty, tab in (("Iin1", REF["iin1"]), ("Iin2", REF["iin2"])):
        for name, val in tab.items():
            c = prog.const("app::header::%s::%s" % (ty, name))
            ctx.check(c.get("v") == val, "%s::%s" % (ty, name), "%s::%s = %s (standard %s)" % (ty, name, c.get("v"), val))
    getters = {
        "Iin1": {"get_broadcast": 0, "get_class_1_events": 1, "get_class_2_events": 2, "get_class_3_events": 3, "get_need_time": 4, "get_local_control": 5, "get_device_trouble": 6, "get_device_restart": 7},
        "Iin2": {"get_no_func_code_support": 0, "get_object_unknown": 1, "get_parameter_error": 2, "get_event_buffer_overflow": 3, "get_already_executing": 4, "get_config_corrupt": 5},
    }
    for ty, tab in getters.items():
        for g, bit in tab.items():
            bd = prog.body("app::header::%s::%s" % (ty, g))
            cs = [b for b in bd.calls() if re.search(r"::bit_\d$", b.term.callee or b.term.declared or "")]
            ok = len(cs) == 1 and (cs[0].term.callee or cs[0].term.declared).endswith("bit_%d" % bit)
            ctx.check(ok, "%s::%s" % (ty, g), "%s::%s tests bit %d" % (ty, g, bit), bd.where(line=bd.line))
    for i in range(8):
        c = prog.const("util::bit::bits::BIT_%d" % i)
        ctx.check(c.get("v") == (1 << i), "BIT_%d" % i, "BIT_%d = %s" % (i, c.get("v")))
        m = [b for b in prog.bodies.values() if b.path.endswith("::bit_%d" % i) and "Bitfield" in b.path]
        for bd in m:
            e = [x for _, _, _, x in ret_sites(bd, ctx.sym(bd))]
            ok = bool(e) and mentions_constdef(e[0], r"BIT_%d$" % i) and mentions(e[0], lambda s: s[0] == "bin" and s[1] == "BitAnd") and mentions(e[0], lambda s: s[0] == "bin" and s[1] == "Ne")
            ctx.check(ok, "Bitfield::bit_%d" % i, "bit_%d = %s" % (i, expr_str(e[0]) if e else None), bd.where(line=bd.line))


SOURCES = [
    (r"Iin1::RESTART$", lambda g: g.kind == "bool" and g.truth is True and mentions_field(g.a, "restart_iin_asserted"), "restart_iin_asserted"),
    (r"Iin1::CLASS_1_EVENTS$", lambda g: g.kind == "bool" and g.truth is True and g.a[0] == "field" and g.a[2] == "class1" and mentions_field(g.a, "unwritten_classes"), "unwritten_classes.class1"),
    (r"Iin1::CLASS_2_EVENTS$", lambda g: g.kind == "bool" and g.truth is True and g.a[0] == "field" and g.a[2] == "class2" and mentions_field(g.a, "unwritten_classes"), "unwritten_classes.class2"),
    (r"Iin1::CLASS_3_EVENTS$", lambda g: g.kind == "bool" and g.truth is True and g.a[0] == "field" and g.a[2] == "class3" and mentions_field(g.a, "unwritten_classes"), "unwritten_classes.class3"),
    (r"Iin2::EVENT_BUFFER_OVERFLOW$", lambda g: g.kind == "bool" and g.truth is True and g.a[0] == "field" and g.a[2] == "is_overflown", "is_overflown"),
    (r"Iin1::BROADCAST$", lambda g: g.kind == "is" and g.name == "Some" and mentions_field(g.a, "last_broadcast_type"), "last_broadcast_type is Some"),
]


def r2(ctx):
    prog = ctx.prog
    bd = prog.body("OutstationSession::get_response_iin")
    sym = ctx.sym(bd)
    # `iin |= X` and `acc | X`: with helpers that build part of the IIN (inlined here when new) both forms occur
    ors = call_sites(bd, r"BitOrAssign.*::bitor_assign$|BitOr.*::bitor$")
    seen = set()

    def is_acc(x):
        """An accumulator handed on: Iin::default(), possibly OR-ed into already (each of those ORs is a site of its own)."""
        if x[0] == "mutated":
            x = x[1]
        if x[0] == "phi":
            return all(is_acc(a) for a in x[1])
        if x[0] == "call" and re.search(r"Default.*::default$", x[1] or ""):
            return True
        if x[0] == "call" and re.search(r"BitOr.*::bitor$", x[1] or "") and len(x[2]) == 2:
            return is_acc(x[2][0]) and (is_acc(x[2][1]) or any(mentions_constdef(x[2][1], rx) for rx, _, _ in SOURCES))
        return False
    for b in ors:
        e = sym.call_expr(b.term)
        arg = e[2][1]
        matched = False
        if is_acc(arg):
            ctx.check(not ctx.guards_at(bd, b.idx), "iin:partial", "a partial IIN built by a helper is merged unconditionally", bd.where(b.idx))
            continue
        for rx, pred, label in SOURCES:
            if mentions_constdef(arg, rx):
                matched = True
                seen.add(rx)
                ctx.require_guards(bd, b.idx, [(label, pred)], "iin:%s" % rx.rstrip("$"), "OR of %s" % rx.rstrip("$"))
                extra = [g for g in ctx.guards_at(bd, b.idx) if not pred(g)]
                ctx.check(not extra, "iin:%s:only-that" % rx.rstrip("$"), "no other condition gates the bit", bd.where(b.idx), bad_detail="additional gating conditions: %s" % fmt_guards(extra))
        if not matched:
            ok = mentions_call(arg, r"OutstationApplication::get_application_iin$")
            if ok:
                seen.add("app")
                ctx.check(not ctx.guards_at(bd, b.idx), "iin:application", "application IIN is OR-ed unconditionally", bd.where(b.idx))
            else:
                ctx.bad("iin:unknown-or", "unexpected OR into the response IIN: %s" % expr_str(arg), bd.where(b.idx))
    for rx, pred, label in SOURCES:
        if rx not in seen:
            ctx.bad("iin:%s:missing" % rx.rstrip("$"), "%s is never OR-ed in get_response_iin" % rx.rstrip("$"), bd.where(line=bd.line))
    if "app" not in seen:
        ctx.bad("iin:application:missing", "get_application_iin() is not OR-ed", bd.where(line=bd.line))
    # EventsInfo is filled from the namesake queries
    gb = prog.body("DatabaseHandle::get_events_info")
    gs = ctx.sym(gb)
    found = False
    for b, si, st in agg_sites(gb, r"EventsInfo$"):
        e = gs.rvalue_expr(st.rv)
        found = True
        ctx.check(mentions_call(agg_field(e, "unwritten_classes"), r"Database::unwritten_classes$"), "EventsInfo:unwritten_classes", "unwritten_classes <- %s" % short(expr_str(agg_field(e, "unwritten_classes")))[:80], gb.where(b.idx))
        ctx.check(mentions_call(agg_field(e, "is_overflown"), r"Database::is_overflown$"), "EventsInfo:is_overflown", "is_overflown <- %s" % short(expr_str(agg_field(e, "is_overflown")))[:80], gb.where(b.idx))
    if not found:
        raise AnchorError("EventsInfo not built in get_events_info")
    for fn_, callee in (("details::database::Database::unwritten_classes", r"EventBuffer::unwritten_classes$"), ("details::database::Database::is_overflown", r"EventBuffer::is_overflown$")):
        fb = prog.body(fn_)
        ctx.check(bool(call_sites(fb, callee)), "forward:%s" % fn_.split("::")[-1], "%s forwards to the event buffer" % fn_, fb.where(line=fb.line))
    ub = prog.body("EventBuffer::unwritten_classes")
    us = ctx.sym(ub)
    for b in call_sites(ub, r"ClassCounter::subtract$"):
        e = us.call_expr(b.term)
        ctx.check(mentions_field(e[2][0], "total") and mentions_field(e[2][1], "written"), "unwritten=total-written", "subtract(%s, %s)" % (expr_str(e[2][0]), expr_str(e[2][1])), ub.where(b.idx))
    for b in call_sites(ub, r"EventClasses::new$"):
        e = us.call_expr(b.term)
        ok = all(mentions_field(e[2][i], "num_class_%d" % (i + 1)) and mentions(e[2][i], lambda s: s[0] == "bin" and s[1] == "Gt") for i in range(3))
        ctx.check(ok, "unwritten:classes-namesake", "EventClasses::new(%s)" % ", ".join(expr_str(x)[-40:] for x in e[2]), ub.where(b.idx))
    ob = prog.body("EventBuffer::is_overflown")
    e = [x for _, _, _, x in ret_sites(ob, ctx.sym(ob))]
    ctx.check(bool(e) and e[0] == ("field", ("param", "self"), "is_overflown"), "is_overflown:getter", "is_overflown() returns the field", ob.where(line=ob.line))


def r3(ctx):
    prog = ctx.prog
    # restart_iin_asserted
    ws = []
    for bd in prog.bodies.values():
        if "::tests::" in bd.path:
            continue
        for b, si, st in field_writes(bd, "restart_iin_asserted"):
            ws.append((bd, b, st))
    if not ws:
        raise AnchorError("no writer of restart_iin_asserted")
    for bd, b, st in ws:
        ok = bd.path.endswith("OutstationSession::handle_write_iin")
        ctx.check(ok, "restart-writer@%s" % short(bd.path), "restart_iin_asserted written in %s" % bd.path, bd.where(b.idx))
        if ok:
            v = st.rv["a"].value() if st.rv["k"] == "use" else None
            ctx.check(v == 0, "restart-writer:value", "written value = %s" % v, bd.where(b.idx))
            ctx.require_guards(bd, b.idx, [("index == 7", g_rel("Eq", lambda x: True, lambda x: mentions_const(x, 7))), ("value == false", g_bool(lambda x: True, False))], "restart-clear", "clearing the restart IIN")
    nb = prog.body("SessionState::new")
    for b, si, st in agg_sites(nb, r"session::SessionState$"):
        e = ctx.sym(nb).rvalue_expr(st.rv)
        f = agg_field(e, "restart_iin_asserted")
        ctx.check(f is not None and f[0] == "const" and f[1] == 1, "restart-init", "SessionState::new restart_iin_asserted = %s" % expr_str(f), nb.where(b.idx))
        f = agg_field(e, "last_broadcast_type")
        ctx.check(f is not None and f[0] == "agg" and f[2] == "None", "broadcast-init", "last_broadcast_type = %s" % expr_str(f), nb.where(b.idx))
    rb = prog.body("SessionState::reset")
    ctx.check(not field_writes(rb, "restart_iin_asserted"), "restart-not-in-reset", "SessionState::reset leaves the restart IIN alone", rb.where(line=rb.line))
    # last_broadcast_type
    cl = lambda x: mentions_call(x, r"OutstationSession::classify$")
    allowed = {
        "OutstationSession::process_broadcast": ("Some", []),
        "OutstationSession::get_response_iin": ("None", [("not confirm-mandatory", g_not_variant("last_broadcast_type", "Mandatory"))]),
        "OutstationSession::sol_confirm_wait": ("None", [("solicited confirm matched", g_is(lambda x: mentions_call(x, r"wait_for_sol_confirm$"), "Yes"))]),
        "OutstationSession::wait_for_unsolicited_confirm": ("None", None),
    }
    paths = {prog.abody(k).path: (k, v) for k, v in allowed.items()}
    n = 0
    for bd in prog.bodies.values():
        if "::tests::" in bd.path:
            continue
        for b, si, st in field_writes(bd, "last_broadcast_type"):
            n += 1
            e = ctx.sym(bd).rvalue_expr(st.rv)
            if bd.path not in paths:
                ctx.bad("broadcast-writer@%s" % short(bd.path), "unexpected writer of last_broadcast_type: %s" % expr_str(e), bd.where(b.idx))
                continue
            k, (want, reqs) = paths[bd.path]
            name = k.split("::")[-1]
            ctx.check(e[0] == "agg" and e[2] == want, "broadcast-writer@%s" % name, "writes %s" % expr_str(e), bd.where(b.idx))
            if reqs:
                ctx.require_guards(bd, b.idx, reqs, "broadcast-clear@%s" % name, "clearing last_broadcast_type")
            if reqs is None:
                gs = ctx.guards_at(bd, b.idx)
                uns = any(g.kind == "is" and g.name == "UnsolicitedConfirm" and cl(g.a) for g in gs) and any(g.kind == "rel" and g.op == "Eq" and (mentions_name(g.a, "uns_ecsn") or mentions_name(g.b, "uns_ecsn")) for g in gs)
                sol = any(g.kind == "is" and g.name == "SolicitedConfirm" and cl(g.a) for g in gs) and any(g.kind == "is" and g.name == "Mandatory" and mentions_field(g.a, "last_broadcast_type") for g in gs)
                ctx.check(uns or sol, "broadcast-clear@%s" % name, "cleared under a matched unsolicited confirm, or a solicited confirm while confirm-mandatory", bd.where(b.idx), bad_detail="cleared under %s" % fmt_guards(gs))
    if n < 5:
        raise AnchorError("expected >= 5 writes of last_broadcast_type, found %d" % n)
    pb = prog.abody("OutstationSession::process_broadcast")
    for b, si, st in field_writes(pb, "last_broadcast_type"):
        e = ctx.sym(pb).rvalue_expr(st.rv)
        ctx.check(mentions_name(e, "mode"), "broadcast-set:mode", "last_broadcast_type = %s" % expr_str(e), pb.where(b.idx))


def r4(ctx):
    prog = ctx.prog
    for fn_, rep in (("OutstationSession::write_solicited", r"OutstationSession::repeat_solicited$"), ("OutstationSession::write_unsolicited", r"OutstationSession::repeat_unsolicited$")):
        bd = prog.abody(fn_)
        name = fn_.split("::")[-1]
        ors = [b for b in call_sites(bd, r"BitOrAssign.*::bitor_assign$") if mentions_call(ctx.sym(bd).call_expr(b.term), r"OutstationSession::get_response_iin$")]
        tx = call_sites(bd, rep)
        if not tx:
            raise AnchorError("%s: no transmit" % fn_)
        ctx.check(bool(ors) and all(any(bd.block_dominates(o.idx, t.idx) for o in ors) for t in tx), "%s:iin-before-tx" % name, "get_response_iin() is OR-ed into the header before transmitting", bd.where(tx[0].idx), bad_detail="%s transmits without OR-ing get_response_iin() into the header" % name)
        for o in ors:
            e = ctx.sym(bd).call_expr(o.term)
            ctx.check(mentions_field(e[2][0], "iin") and mentions_name(e[2][0], "response"), "%s:into-header" % name, "OR target = %s" % expr_str(e[2][0]), bd.where(o.idx))
        # the response transmitted is the one whose IIN was updated
        for t in tx:
            e = ctx.sym(bd).call_expr(t.term)
            ctx.check(any(x in (("capture", "response"), ("param", "response"), ("var", "response")) or mentions_name(x, "response") for x in e[2]), "%s:same-response" % name, "transmits `response`", bd.where(t.idx))
    # only the echo functions call TransportWriter::write
    cg = prog.callgraph
    callers = [c for c in cg.callers_of(lambda c: c.endswith("TransportWriter::write")) if c[0].startswith("dnp3::outstation::") and "::tests::" not in c[0]]
    want = {prog.abody("OutstationSession::repeat_solicited").path, prog.abody("OutstationSession::repeat_unsolicited").path}
    for path, blk, callee, how in callers:
        ctx.check(path in want, "tx-site@%s" % short(path), "TransportWriter::write called from %s" % path, prog.bodies[path].where(blk))
    # who calls the repeat functions directly (echo paths): frozen set
    allowed = {
        "repeat_solicited": {"OutstationSession::write_solicited", "OutstationSession::wait_for_unsolicited_confirm", "OutstationSession::wait_for_sol_confirm"},
        "repeat_unsolicited": {"OutstationSession::write_unsolicited", "OutstationSession::perform_unsolicited_response_series"},
    }
    for fn_, al in allowed.items():
        alp = {prog.abody(a).path for a in al}
        for path, blk, callee, how in cg.callers_of(lambda c: c.endswith("OutstationSession::" + fn_)):
            ctx.check(path in alp, "%s-caller@%s" % (fn_, short(path)), "%s called from %s" % (fn_, path), prog.bodies[path].where(blk))


def r5(ctx):
    prog = ctx.prog
    n = 0
    for bd in prog.bodies_matching(r"event::buffer::EventBuffer"):
        if "::tests::" in bd.path:
            continue
        for b, si, st in field_writes(bd, "is_overflown"):
            n += 1
            v = st.rv["a"].value() if st.rv["k"] == "use" else None
            if v == 0:
                ok = bd.path.endswith("EventBuffer::clear_written")
                ctx.check(ok, "overflow-clear@%s" % short(bd.path), "is_overflown = false in %s" % bd.path, bd.where(b.idx))
                if ok:
                    ctx.require_guards(bd, b.idx, [("!is_any_full()", g_bool(lambda x: mentions_call(x, r"EventBuffer::is_any_full$"), False))], "overflow-clear", "clearing is_overflown")
            elif v == 1:
                ctx.check(bd.path.endswith("EventBuffer::insert"), "overflow-set@%s" % short(bd.path), "is_overflown = true in %s" % bd.path, bd.where(b.idx))
            else:
                ctx.bad("overflow-write@%s" % short(bd.path), "is_overflown written with a non-constant", bd.where(b.idx))
    nb = prog.body("EventBuffer::new")
    for b, si, st in agg_sites(nb, r"buffer::EventBuffer$"):
        f = agg_field(ctx.sym(nb).rvalue_expr(st.rv), "is_overflown")
        ctx.check(f is not None and f[0] == "const" and f[1] == 0, "overflow-init", "EventBuffer::new is_overflown = %s" % expr_str(f), nb.where(b.idx))
    if n < 2:
        raise AnchorError("expected >= 2 writes of is_overflown, found %d" % n)
    # is_any_full covers every Insertable impl
    impls = sorted({im["self"] for im in prog.impls if (im.get("trait") or "").endswith("event::buffer::Insertable")})
    if len(impls) < 8:
        raise AnchorError("expected >= 8 Insertable impls, found %d" % len(impls))
    ab = prog.body("EventBuffer::is_any_full")
    covered = set()
    for b in call_sites(ab, r"EventBuffer::is_full$"):
        for t in b.term.d.get("targs") or []:
            covered.add(t)
    for im in impls:
        ctx.check(any(t.endswith(im.split("::")[-1]) or t == im for t in covered), "is_any_full:%s" % im.split("::")[-1], "is_any_full tests %s" % im, ab.where(line=ab.line), bad_detail="is_any_full never tests %s: the overflow bit is cleared while that type is still at capacity" % im)
    # is_full: false when max == 0, else count >= max
    fb = prog.body("EventBuffer::is_full")
    fs = ctx.sym(fb)
    rs = ret_sites(fb, fs)
    ok = any(mentions(e, lambda s: s[0] == "bin" and s[1] == "Ge") and mentions_call(e, r"get_type_count$") and mentions_field(e, "total") and mentions_call(e, r"get_max$") for _, _, _, e in rs)
    ctx.check(ok, "is_full:count>=max", "is_full = type count(total) >= max", fb.where(line=fb.line))


def r6(ctx):
    """The IIN octets are only ever ACCUMULATED when bits from different sources are merged: no `|` / `|=` implementation on
    Iin / Iin1 / Iin2 (including the merge of the application's ApplicationIin) overwrites a field of the accumulator, and the
    primitive Iin1/Iin2 `|` is a bitwise OR of both operands. An overwrite drops what was merged before (e.g. EVENT_BUFFER_OVERFLOW
    lost while the application reports CONFIG_CORRUPT)."""
    prog = ctx.prog
    impls = [b for b in prog.bodies.values() if re.search(r"^<dnp3::app::header::Iin[12]? as std::ops::BitOr(Assign)?(<.*>)?>::bitor(_assign)?$", b.path)]
    if len(impls) < 10:
        raise AnchorError("BitOr impls on Iin types: %d" % len(impls))
    for bd in impls:
        sym = ctx.sym(bd)
        name = bd.path.replace("dnp3::app::header::", "").replace("std::ops::", "").replace("dnp3::outstation::traits::", "")
        bad = []
        for b, si, st in bd.assigns():
            if st.dest.proj and st.dest.proj[-1] in (".iin1", ".iin2", ".value"):
                e = sym.rvalue_expr(st.rv)
                own = ("field", ("param", "self"), st.dest.proj[-1][1:])
                if not mentions(e, lambda x: x == own):
                    bad.append((b.idx, st.dest.proj[-1], expr_str(e)[:60]))
        ctx.check(not bad, "iin-merge:%s" % name, "no field of the accumulator is overwritten", bd.where(bad[0][0]) if bad else bd.where(line=bd.line), bad_detail="%s assigns %s = %s: bits merged earlier are dropped" % (name, bad[0][1] if bad else "", bad[0][2] if bad else ""))
        if re.search(r"^<Iin as BitOr(<.*>)?>::bitor$", name):
            # the value-returning forms build a new Iin: both octets of the left operand survive in it
            rets = [e for _, _, _, e in ret_sites(bd, sym)]
            for f_ in ("iin1", "iin2"):
                own = ("field", ("param", "self"), f_)
                whole = lambda x: x in (("param", "self"), ("var", "self"))  # `mut self` accumulated in place and returned
                ok = bool(rets) and all(mentions(e, lambda x: x == own) or e[0] in ("param", "var", "mutated") and mentions(e, whole) for e in rets)
                ctx.check(ok, "iin-merge:%s:keeps-%s" % (name, f_), "the result carries self.%s" % f_, bd.where(line=bd.line), bad_detail="%s returns %s: the left operand's %s octet is dropped (bits merged earlier are lost)" % (name, expr_str(rets[0])[:80] if rets else "?", f_))
        if re.search(r"^<Iin[12] as BitOr>::bitor$", name):
            rets = [e for _, _, _, e in ret_sites(bd, sym)]
            ok = len(rets) == 1 and mentions(rets[0], lambda x: x[0] == "bin" and x[1] == "BitOr" and mentions_name(x, "self") and mentions_name(x, "rhs"))
            ctx.check(ok, "iin-merge:%s:or" % name, "%s = %s" % (name, expr_str(rets[0])[:60] if rets else "?"), bd.where(line=bd.line))
        if "ApplicationIin" in name and name.endswith("::bitor"):
            # each application flag ORs its namesake constant in, under its own test
            want = {"need_time": "NEED_TIME", "local_control": "LOCAL_CONTROL", "device_trouble": "DEVICE_TROUBLE", "config_corrupt": "CONFIG_CORRUPT"}
            seen = {}
            for c in bd.calls():
                cal = c.term.callee or c.term.declared or ""
                if not cal.endswith("bitor_assign") and not cal.endswith("::bitor"):
                    continue
                gs = [g for g in ctx.guards_at(bd, c.idx) if g.kind == "bool" and g.truth is True and g.a[0] == "field" and g.a[2] in want]
                e = sym.call_expr(c.term)
                cn = [x[2] for x in expr_walk(e) if x[0] == "const" and isinstance(x[2], str) and "Iin" in x[2]]
                if gs:
                    seen[gs[-1].a[2]] = (cn[0].split("::")[-1] if cn else "?")
            for f, k in want.items():
                ctx.check(seen.get(f) == k, "app-iin:%s" % f, "ApplicationIin.%s ORs in %s" % (f, seen.get(f)), bd.where(line=bd.line), bad_detail="ApplicationIin.%s merges %s (expected an OR of %s)" % (f, seen.get(f), k))


def r7(ctx):
    """'the class events-available bits are set exactly when the buffer holds events of that class that are not part of a response
    still awaiting confirmation': when a series ends without confirmation (timeout, cancelled by DISABLE_UNSOLICITED, new request,
    session end) its events stop being 'part of a response awaiting confirmation' only if they are un-written again. That pairing is
    rule C03.R3 (shared code)."""
    import c03
    c03.r3(ctx)

def r8(ctx):
    """'the broadcast bit follows a received broadcast until reported (or, for confirm-mandatory broadcasts, confirmed)': which
    address is confirm-mandatory is the link address table, rule C06.R5. 'the class bits are set exactly when the buffer holds events
    of that class': the per-class totals are maintained under their namesake class and with the class of the record that is
    removed, rules C03.R13 / C03.R7. Shared code."""
    import c06, c03
    c06.r5(ctx)
    c03.r13(ctx)
    c03.r7(ctx)

RULES = [
    ("C13.R1", "T11/T4", "IIN bit positions and getters equal the standard", r1),
    ("C13.R2", "T8", "each response IIN bit is OR-ed under its namesake source", r2),
    ("C13.R3", "T5+T2", "writers of the sticky flags (restart, broadcast) and their guards", r3),
    ("C13.R4", "T3/T5", "every fresh response recomputes IIN before the only transmit sites", r4),
    ("C13.R5", "T2+T4", "overflow flag: set on displacement, cleared only when no type is full", r5),
    ("C13.R6", "T7", "IIN octets are merged by OR only: no accumulator field is overwritten; application flags OR in their namesake bit", r6),
    ("C13.R7", "T3", "events of a response series that ends unconfirmed return to the pool, so the class bits see them again (shared with C03.R3)", r7),
    ("C13.R8", "T4/T11", "the three broadcast addresses map to their confirm modes as in the standard (shared with C06.R5); counter namesakes (C03.R13)", r8),
]


def r9(ctx):
    """(a) 'the overflow bit is set ... until a confirmation leaves every type below capacity': a type with capacity 0 holds no events
    and is never 'full' - EventBuffer::is_full::<T> answers false for max == 0 and count >= max otherwise (else the bit could never
    clear once set, whenever some type is configured with zero capacity). (b) 'the broadcast bit follows a received broadcast': the
    link layer hands the broadcast mode it derived from the destination address to the session unchanged - nothing in
    Layer::process_header consumes or rewrites it before the FrameInfo is built (C07.R12, shared code)."""
    prog = ctx.prog
    fb = prog.body("event::buffer::EventBuffer::is_full")
    fs = ctx.sym(fb)
    zero = g_rel("Eq", lambda x: mentions_call(x, r"get_max$"), lambda x: const_value(prog, x) == 0)
    kinds = set()
    for b, si, st, e in ret_sites(fb, fs):
        if const_value(prog, e) == 0:
            kinds.add("zero")
            ctx.require_guards(fb, b.idx, [("max == 0", zero)], "is_full:zero-capacity", "false for a type with no capacity")
        else:
            kinds.add("cmp")
            ok = mentions(e, lambda s: s[0] == "bin" and s[1] in ("Ge", "Eq")) and mentions_call(e, r"get_type_count$") and mentions_call(e, r"get_max$")
            ctx.check(ok, "is_full:count>=max", "is_full = %s" % expr_str(e)[:80], fb.where(b.idx))
            ctx.require_guards(fb, b.idx, [("max != 0", g_rel("Ne", lambda x: mentions_call(x, r"get_max$"), lambda x: const_value(prog, x) == 0))], "is_full:count>=max", "the comparison applies to types with capacity")
    ctx.check(kinds == {"zero", "cmp"}, "is_full:arms", "is_full has the zero-capacity and the comparison arm (%s)" % sorted(kinds), fb.where(line=fb.line))
    import c07
    c07.r12(ctx)


RULES.append(("C13.R9", "T2", "a zero-capacity type is never full; the link layer passes the broadcast mode on unchanged (C07.R12)", r9))


def r10(ctx):
    """'the class bits are set exactly when the buffer holds events of that class': the list that holds the events has room for every
    configured type - EventBufferConfig::max_events sums each max_* once (C03.R10, shared code), else an insert is counted but not
    stored and the class bit never clears. 'need-time, local-control, device-trouble and configuration-corrupt mirror the
    application's answer': through the bindings each foreign flag reaches its namesake (C20.R2, shared code)."""
    import c03, c20
    c03.r10(ctx)
    if not getattr(ctx, "sweep", False):  # the binding crate is built in the default configuration only
        c20.r2(ctx)


RULES.append(("C13.R10", "T8-namesake", "event capacity sums every type once (C03.R10); foreign application IIN flags reach their namesake (C20.R2)", r10))
