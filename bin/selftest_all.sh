#!/bin/bash
# Run every seeded variant of selftest/cases.json against its property's quick check (checker sensitivity).
cd "$(dirname "$0")/.."
python3 - <<'PY'
import json,subprocess,os,sys
cases=json.load(open('selftest/cases.json'))
bad=0
for c in cases:
    r=subprocess.run(['bin/mutant.py','--quiet','--props',c['property'],'--py',c['file'],c['old'],c['new']],text=True,capture_output=True)
    fired=('== %s exit=1 FIRED'%c['property']) in r.stdout
    rules=sorted({l.split('rule=')[1].split()[0] for l in r.stdout.splitlines() if 'rule=' in l})
    ok = fired and (c.get('expect') in rules)
    print('%-4s %-36s %s %s'%(c['property'],c['name'],'ok  ' if ok else ('FIRED-OTHER' if fired else 'MISSED'),rules), flush=True)
    if not ok:
        bad+=1
        if not fired: print(r.stdout[-600:], r.stderr[-600:])
print('not detected as expected:',bad)
PY
