#!/bin/bash
# Build the facts driver and warm the dependency build (offline). Run once after a fresh restore.
set -euo pipefail
cd "$(dirname "$0")/.."
(cd driver && CARGO_NET_OFFLINE=true cargo build --offline)
# warm: one extraction of the unchanged tree (compiles the dependencies once)
./check C04 --tier quick >/dev/null 2>&1 || true
echo setup done
