#!/usr/bin/env python3
"""Regenerate seeded/INDEX.md from the meta.json of every seeded change."""
import json, os
V = os.path.dirname(os.path.dirname(os.path.abspath(__file__)))
rows = []
for d in sorted(os.listdir(os.path.join(V, "seeded"))):
    m = os.path.join(V, "seeded", d, "meta.json")
    if not os.path.exists(m):
        continue
    j = json.load(open(m))
    fired = "; ".join("%s: %s" % (p, ", ".join(sorted({x["rule"] + " `" + x["key"] + "`" for x in v}))) for p, v in sorted(j.get("fired", {}).items()))
    rows.append((d, j["breaks_property"], "yes" if j.get("confirmed_by_me") else "NO", "yes" if j.get("detected") else ("other property only" if j.get("fired") else "**missed**"), fired or "-", j.get("summary", ""), j.get("needs_to_manifest", ""), j.get("resolution", "")))
with open(os.path.join(V, "seeded", "INDEX.md"), "w") as f:
    f.write("# Independently seeded breaking changes\n\nEach directory holds `patch.diff` (the change, never committed to /repo), `demo.diff` (tests that pass on HEAD and fail with the patch) and `meta.json` (what was run). Produced by sub-agents that saw only the property text; confirmed by `bin/confirm_seed.py`; evaluated by `bin/mutant.py --patch` (every claimed check against a scratch worktree with the patch applied).\n\n")
    f.write("| seed | property | confirmed | detected by its property's check | rules that fired | change | needs | resolution / note |\n|---|---|---|---|---|---|---|---|\n")
    for r in rows:
        f.write("| " + " | ".join(x.replace("|", "\\|").replace("\n", " ") for x in r) + " |\n")
    n = len(rows); det = sum(1 for r in rows if r[3] == "yes")
    f.write("\n%d seeds, %d detected by the claimed property's own check.\n" % (n, det))
print("wrote INDEX.md:", len(rows), "seeds")
