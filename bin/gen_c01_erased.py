#!/usr/bin/env python3
"""Fill column 7 (name-erased signature) of tables/c01_reviewed.tsv from the tree under analysis. Run on the reviewed tree only
(after reviewing a change to the table): the column lets C01.R1 recognise a reviewed site after a local / parameter was renamed."""
import json, os, subprocess, sys, tempfile
V = os.path.dirname(os.path.dirname(os.path.abspath(__file__)))
tmp = tempfile.mktemp(suffix=".json")
env = dict(os.environ, VERIF_C01_DUMP=tmp, VERIF_NO_EVIDENCE="1")
for cfg in ("default", "nodefault", "serialization"):
    fd = subprocess.run([os.path.join(V, "check"), "facts:" + cfg], text=True, capture_output=True).stdout.strip().splitlines()[-1]
    subprocess.run([os.path.join(V, "check"), "C01", "--facts", fd], env=env, stdout=subprocess.DEVNULL, stderr=subprocess.DEVNULL)
dump = json.load(open(tmp)); os.unlink(tmp)
er = {}
for fn_, kind, sig, esig in dump:
    er.setdefault((fn_, kind, sig), set()).add(esig)
p = os.path.join(V, "tables", "c01_reviewed.tsv")
out, n, miss = [], 0, []
for line in open(p):
    if line.startswith("#") or not line.strip():
        out.append(line); continue
    parts = line.rstrip("\n").split("\t")
    while len(parts) < 7: parts.append("")
    k = (parts[0], parts[1], parts[2])
    if k in er and len(er[k]) == 1:
        parts[6] = sorted(er[k])[0]; n += 1
    else:
        miss.append(k)
    out.append("\t".join(parts) + "\n")
open(p, "w").writelines(out)
print("filled %d entries; %d without a unique erased signature: %s" % (n, len(miss), miss))
