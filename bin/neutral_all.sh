#!/bin/bash
# Behaviour-preserving edits: every check must stay silent on each of them (guards against brittle proxies).
cd "$(dirname "$0")/.."
python3 - "$@" <<'PY'
import json,subprocess,sys
cases=json.load(open('selftest/neutral.json'))
only=set(sys.argv[1:])
bad=0
for c in cases:
    if only and c['name'] not in only: continue
    import os
    cmd=['bin/mutant.py','--quiet']+(['--props',os.environ['NEUTRAL_PROPS']] if os.environ.get('NEUTRAL_PROPS') else [])
    for e in c['edits']: cmd+=['--py',c['file'],e['old'],e['new']]
    r=subprocess.run(cmd,text=True,capture_output=True)
    fired=[l for l in r.stdout.splitlines() if 'FIRED' in l or 'ERROR' in l or 'rule=' in l]
    print('%-32s %s'%(c['name'],'silent' if not fired else 'ALARM'),flush=True)
    for l in fired: print('    ',l[:260])
    if 'changed nothing' in r.stdout or 'not found' in r.stdout: print('     (variant did not apply)', r.stdout[-200:])
    bad+=bool(fired)
print('false alarms:',bad)
PY
