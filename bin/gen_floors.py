#!/usr/bin/env python3
"""Regenerate tables/floors.json from the evidence of the last run on the (reviewed) current tree.
floor = n for n <= 5, else int(0.85 n).  Run only after the per-rule counts were looked at: a floor is a number that was counted."""
import json, glob, os
V = os.path.dirname(os.path.dirname(os.path.abspath(__file__)))
p = os.path.join(V, "tables", "floors.json")
old = json.load(open(p))
new = dict(old)
for f in sorted(glob.glob(os.path.join(V, "evidence", "C*.json"))):
    ev = json.load(open(f))
    def walk(o):
        if isinstance(o, dict):
            if "rule" in o and "instances" in o and "template" in o:
                n = o["instances"]
                new[o["rule"]] = n if n <= 5 else int(0.85 * n)
            for v in o.values(): walk(v)
        elif isinstance(o, list):
            for v in o: walk(v)
    walk(ev)
for k in sorted(new):
    if old.get(k) != new[k]:
        print("%-8s %s -> %s" % (k, old.get(k), new[k]))
json.dump(dict(sorted(new.items())), open(p, "w"), indent=0)
