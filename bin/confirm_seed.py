#!/usr/bin/env python3
"""confirm_seed.py <patch.diff> <demo.diff> : confirm a seeded change myself in a scratch worktree (outside /repo and /verif):
 (1) demo alone on HEAD: whole suite passes (incl. the demo tests);
 (2) patch + demo: the workspace builds, the ORIGINAL tests all pass, and at least one demo test fails.
Prints a JSON summary. The worktree /tmp/seedconfirm and its target dir are reused between calls and can be removed with --clean."""
import json, os, re, subprocess, sys
WT = os.environ.get("SEEDCONFIRM_DIR", "/tmp/seedconfirm")
TGT = WT + "-target"
def sh(cmd, **kw):
    return subprocess.run(cmd, text=True, capture_output=True, **kw)
def tests(extra_env=None):
    r = sh(["cargo", "test", "--offline", "--workspace", "--no-fail-fast"], cwd=WT, env=dict(os.environ, CARGO_TARGET_DIR=TGT, CARGO_NET_OFFLINE="true"))
    out = r.stdout + r.stderr
    passed = set(re.findall(r"^test (\S+) \.\.\. ok", out, re.M))
    failed = set(re.findall(r"^test (\S+) \.\.\. FAILED", out, re.M))
    compiled = "could not compile" not in out
    return compiled, passed, failed, out
def main():
    if sys.argv[1] == "--clean":
        sh(["git", "-C", "/repo", "worktree", "remove", "--force", WT]); sh(["rm", "-rf", WT, TGT]); return
    patch, demo = os.path.abspath(sys.argv[1]), os.path.abspath(sys.argv[2])
    if not os.path.exists(WT):
        sh(["git", "-C", "/repo", "worktree", "add", "--detach", WT])
    sh(["git", "-C", WT, "checkout", "--detach", "-q", sh(["git", "-C", "/repo", "rev-parse", "HEAD"]).stdout.strip()])
    sh(["git", "-C", WT, "reset", "--hard", "-q"]); sh(["git", "-C", WT, "clean", "-fdq"])
    res = {"patch": patch, "demo": demo}
    r = sh(["git", "-C", WT, "apply", demo])
    res["demo_applies"] = r.returncode == 0
    c, p0, f0, out0 = tests()
    res["baseline_with_demo"] = {"compiled": c, "passed": len(p0), "failed": sorted(f0)}
    r = sh(["git", "-C", WT, "apply", patch])
    res["patch_applies"] = r.returncode == 0
    b = sh(["cargo", "build", "--offline", "--workspace"], cwd=WT, env=dict(os.environ, CARGO_TARGET_DIR=TGT))
    res["builds_with_patch"] = b.returncode == 0
    c, p1, f1, out1 = tests()
    # which tests are the demo's: present in this run but not in a plain HEAD run = those the demo diff added
    added = set(re.findall(r"^\+\s*(?:async\s+)?fn (\w+)\s*\(", open(demo).read(), re.M))
    demo_failed = sorted(t for t in f1 if t.split("::")[-1] in added)
    other_failed = sorted(t for t in f1 if t.split("::")[-1] not in added)
    res["with_patch"] = {"compiled": c, "passed": len(p1), "demo_tests_failed": demo_failed, "existing_tests_failed": other_failed}
    res["confirmed"] = bool(res["demo_applies"] and res["patch_applies"] and res["builds_with_patch"] and not f0 and demo_failed and not other_failed)
    sh(["git", "-C", WT, "reset", "--hard", "-q"]); sh(["git", "-C", WT, "clean", "-fdq"])
    print(json.dumps(res, indent=1))
main()
