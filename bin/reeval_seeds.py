#!/usr/bin/env python3
"""Re-run every claimed check against every seeded change (scratch worktrees) and refresh detected/fired in each meta.json.
usage: reeval_seeds.py [-j N] [name-prefix ...]"""
import json, os, re, subprocess, sys
from concurrent.futures import ThreadPoolExecutor
V = os.path.dirname(os.path.dirname(os.path.abspath(__file__)))
args = sys.argv[1:]
j = 4
if args and args[0] == "-j":
    j = int(args[1]); args = args[2:]
names = [d for d in sorted(os.listdir(os.path.join(V, "seeded"))) if os.path.exists(os.path.join(V, "seeded", d, "meta.json")) and (not args or any(d.startswith(a) for a in args))]
def one(name):
    d = os.path.join(V, "seeded", name)
    m = subprocess.run([os.path.join(V, "bin/mutant.py"), "--quiet", "--patch", os.path.join(d, "patch.diff")], text=True, capture_output=True)
    fired, cur, errors = {}, None, []
    for l in m.stdout.splitlines():
        mm = re.match(r"== (C\d\d) exit=(\d+) (\w+)", l)
        if mm:
            cur = mm.group(1)
            if mm.group(3) == "FIRED": fired[cur] = []
            if mm.group(3) == "ERROR": errors.append(cur)
        mm = re.match(r"\s+rule=(\S+) key=(.*?) at (\S*)", l)
        if mm and cur in fired:
            fired[cur].append({"rule": mm.group(1), "key": mm.group(2), "at": mm.group(3)})
    meta = json.load(open(os.path.join(d, "meta.json")))
    meta["fired"] = fired; meta["check_errors"] = errors; meta["detected"] = meta["breaks_property"] in fired
    if "patch failed" in m.stdout or m.returncode == 2:
        meta["check_errors"] = ["mutant tool: " + m.stdout[-300:]]
    json.dump(meta, open(os.path.join(d, "meta.json"), "w"), indent=1)
    return name, meta["detected"], {k: sorted({x["rule"] for x in v}) for k, v in fired.items()}, meta["check_errors"]
with ThreadPoolExecutor(j) as ex:
    for r in ex.map(one, names):
        print(*r, flush=True)
