#!/usr/bin/env python3
"""import_seed.py <name> <property> <patch.diff> <demo.diff> --summary ".." --needs ".."
Confirm a seeded change in a scratch worktree (bin/confirm_seed.py), run every check against it (bin/mutant.py),
and store it as /verif/seeded/<name>/{patch.diff,demo.diff,meta.json}. Nothing is applied to /repo."""
import argparse, json, os, re, shutil, subprocess, sys
V = os.path.dirname(os.path.dirname(os.path.abspath(__file__)))
ap = argparse.ArgumentParser()
ap.add_argument("name"); ap.add_argument("prop"); ap.add_argument("patch"); ap.add_argument("demo")
ap.add_argument("--summary", default=""); ap.add_argument("--needs", default=""); ap.add_argument("--origin", default="independent sub-agent given only the property text and a scratch worktree")
ap.add_argument("--props", default="")
a = ap.parse_args()
d = os.path.join(V, "seeded", a.name)
os.makedirs(d, exist_ok=True)
shutil.copy(a.patch, os.path.join(d, "patch.diff")); shutil.copy(a.demo, os.path.join(d, "demo.diff"))
c = subprocess.run([os.path.join(V, "bin/confirm_seed.py"), a.patch, a.demo], text=True, capture_output=True)
try:
    conf = json.loads(c.stdout)
except Exception:
    conf = {"confirmed": False, "error": (c.stdout + c.stderr)[-2000:]}
cmd = [os.path.join(V, "bin/mutant.py"), "--quiet", "--patch", a.patch] + (["--props", a.props] if a.props else [])
m = subprocess.run(cmd, text=True, capture_output=True)
fired = {}
cur = None
errors = []
for l in m.stdout.splitlines():
    mm = re.match(r"== (C\d\d) exit=(\d+) (\w+)", l)
    if mm:
        cur = mm.group(1)
        if mm.group(3) == "FIRED": fired[cur] = []
        if mm.group(3) == "ERROR": errors.append(cur)
    mm = re.match(r"\s+rule=(\S+) key=(.*?) at (\S*)", l)
    if mm and cur in fired:
        fired[cur].append({"rule": mm.group(1), "key": mm.group(2), "at": mm.group(3)})
meta = {
    "name": a.name, "breaks_property": a.prop, "origin": a.origin, "summary": a.summary, "needs_to_manifest": a.needs,
    "confirmed_by_me": conf.get("confirmed", False),
    "confirmation": {k: conf.get(k) for k in ("demo_applies", "patch_applies", "builds_with_patch", "baseline_with_demo", "with_patch", "error") if k in conf},
    "what_i_ran": [
        "bin/confirm_seed.py patch.diff demo.diff   # scratch worktree /tmp/seedconfirm: cargo test --offline --workspace --no-fail-fast with demo only (all pass), then with patch+demo (cargo build --offline --workspace; only the demo tests fail)",
        "bin/mutant.py --quiet --patch patch.diff   # scratch worktree: ./check <every claimed property> with VERIF_REPO pointing at it",
    ],
    "detected": a.prop in fired, "fired": fired, "check_errors": errors,
}
json.dump(meta, open(os.path.join(d, "meta.json"), "w"), indent=1)
print(a.name, "confirmed=%s" % meta["confirmed_by_me"], "detected=%s" % meta["detected"], {k: sorted({x["rule"] for x in v}) for k, v in fired.items()}, "errors=%s" % errors)
