#!/usr/bin/env python3
"""Freeze, per function of the reviewed tree, its user-chosen names (debug names of locals / parameters, captured-variable names) and a
hash of its MIR with those names erased, into tables/known_names.json. A later tree in which a function differs from the reviewed one
by names only is analysed under the reviewed names (rules/mir.py Body._unrename): a rename is not a change of behaviour.
Regenerate only on a reviewed tree (together with bin/gen_known_fns.py)."""
import json, os, subprocess, sys
V = os.path.dirname(os.path.dirname(os.path.abspath(__file__)))
sys.path.insert(0, os.path.join(V, "rules"))
os.environ["VERIF_NO_INLINE"] = "1"
os.environ["VERIF_NO_RENAME"] = "1"
from mir import Program
out = {}
n = 0
for cfg, crates in (("default", ("dnp3", "dnp3_ffi")), ("nodefault", ("dnp3",)), ("serialization", ("dnp3",))):
    fd = subprocess.run([os.path.join(V, "check"), "facts:" + cfg], text=True, capture_output=True).stdout.strip().splitlines()[-1]
    for crate in crates:
        p = Program(os.path.join(fd, crate + ".json"))
        tbl = out.setdefault(p.crate, {})
        for path, b in p.bodies.items():
            if "::tests::" in path or "::test::" in path:
                continue
            b.blocks
            names = [nm for nm, _ in b.dbg]
            if not names:
                continue
            h, caps = b.struct_hash()
            params = [None] * b.argc
            for nm, pl in b.dbg:
                if pl.is_local() and 1 <= pl.local <= b.argc:
                    params[pl.local - 1] = nm
            ent = {"h": h, "dbg": names, "caps": caps, "params": params}
            lst = tbl.setdefault(path, [])
            if ent not in lst:
                lst.append(ent)
                n += 1
with open(os.path.join(V, "tables", "known_names.json"), "w") as f:
    json.dump(out, f, separators=(",", ":"), sort_keys=True)
print(n, "name records;", os.path.getsize(os.path.join(V, "tables", "known_names.json")) // 1024, "KiB")
