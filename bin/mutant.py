#!/usr/bin/env python3
"""Apply a variant to a scratch worktree of the repo and run checks against it.

usage: mutant.py [--props C04,C05] [--keep] <patch.diff | --sed FILE 's/a/b/'>...
Prints, per property, whether the check fired and which rule keys.
The scratch worktree lives under $TMPDIR (outside /repo and /verif) and is removed afterwards.
"""
import argparse, os, re, shutil, subprocess, sys, tempfile

VERIF = os.path.dirname(os.path.dirname(os.path.abspath(__file__)))
REPO = os.environ.get("VERIF_REPO_BASE", "/repo")

def run(cmd, **kw):
    return subprocess.run(cmd, text=True, capture_output=True, **kw)

def main():
    ap = argparse.ArgumentParser()
    ap.add_argument("--props", default="")
    ap.add_argument("--keep", action="store_true")
    ap.add_argument("--patch", action="append", default=[])
    ap.add_argument("--sed", nargs=2, action="append", default=[], metavar=("FILE", "EXPR"))
    ap.add_argument("--py", nargs=3, action="append", default=[], metavar=("FILE", "OLD", "NEW"), help="exact string replace (first occurrence)")
    ap.add_argument("--quiet", action="store_true")
    a = ap.parse_args()
    wt = tempfile.mkdtemp(prefix="dnp3-mutant-")
    os.rmdir(wt)
    r = run(["git", "-C", REPO, "worktree", "add", "--detach", wt])
    if r.returncode != 0:
        print(r.stderr); return 2
    rc = 0
    try:
        # bring over uncommitted state of REPO (hooks/fixes in progress) -- normally none
        for p in a.patch:
            r = run(["git", "-C", wt, "apply", os.path.abspath(p)])
            if r.returncode != 0:
                print("patch failed:", r.stderr); return 2
        for f, expr in a.sed:
            r = run(["sed", "-i", "-E", expr, os.path.join(wt, f)])
            if r.returncode != 0:
                print("sed failed:", r.stderr); return 2
        for f, old, new in a.py:
            p = os.path.join(wt, f)
            t = open(p).read()
            if old not in t:
                print("py-replace: old text not found in", f); return 2
            open(p, "w").write(t.replace(old, new, 1))
        d = run(["git", "-C", wt, "diff", "--stat"]).stdout
        if not d.strip():
            print("variant changed nothing"); return 2
        if not a.quiet:
            print(run(["git", "-C", wt, "diff"]).stdout[:3000])
        props = [p for p in a.props.split(",") if p] or sorted(f[:-3].upper() for f in os.listdir(os.path.join(VERIF, "rules")) if re.match(r"c\d\d\.py$", f))
        env = dict(os.environ, VERIF_REPO=wt, VERIF_NO_EVIDENCE="1")
        for p in props:
            r = run([os.path.join(VERIF, "check"), p], env=env)
            fired = [l for l in r.stdout.splitlines() if l.startswith("VIOLATION") or l.strip().startswith("rule=")]
            print("== %s exit=%d %s" % (p, r.returncode, "FIRED" if r.returncode == 1 else ("silent" if r.returncode == 0 else "ERROR")))
            for l in fired:
                if l.strip().startswith("rule="):
                    print("   ", l.strip()[:300])
            if r.returncode not in (0, 1):
                print(r.stdout[-1500:], r.stderr[-3000:])
    finally:
        if not a.keep:
            run(["git", "-C", REPO, "worktree", "remove", "--force", wt])
            shutil.rmtree(wt, ignore_errors=True)
        else:
            print("kept", wt)
    return rc

sys.exit(main())
