#!/bin/bash
# import_wt.sh <PROP> <k> <name> : import the k-th change a sub-agent left in /tmp/wt-<PROP>/out/<k>/ as seeded/<name>
set -u
P=$1; K=$2; NAME=$3
D=${SEED_WT_PREFIX:-/tmp/wt}-$P/out/$K
S=$(python3 -c "import json,sys; print(json.load(open('$D/notes.json'))['summary'])")
N=$(python3 -c "import json,sys; print(json.load(open('$D/notes.json'))['needs_to_manifest'])")
mkdir -p /tmp/seedin/$NAME; cp $D/patch.diff $D/demo.diff /tmp/seedin/$NAME/
SEEDCONFIRM_DIR=/tmp/seedconfirm-$P-$K "$(dirname "$0")/import_seed.py" "$NAME" "$P" /tmp/seedin/$NAME/patch.diff /tmp/seedin/$NAME/demo.diff --summary "$S" --needs "$N"
SEEDCONFIRM_DIR=/tmp/seedconfirm-$P-$K "$(dirname "$0")/confirm_seed.py" --clean
rm -rf /tmp/seedin/$NAME
