#!/usr/bin/env python3
"""Regenerate MANIFEST.json from rules/*.py (claimed properties) and tables/not_applicable.json."""
import importlib, json, os, re, sys
VERIF = os.path.dirname(os.path.dirname(os.path.abspath(__file__)))
sys.path.insert(0, os.path.join(VERIF, "rules"))
props = [json.loads(l) for l in open(os.path.join(VERIF, "properties.jsonl"))]
na = json.load(open(os.path.join(VERIF, "tables", "not_applicable.json")))
checks = []
not_app = []
for p in props:
    pid = p["id"]
    modpath = os.path.join(VERIF, "rules", pid.lower() + ".py")
    if os.path.exists(modpath) and pid not in na:
        m = importlib.import_module(pid.lower())
        rules = "; ".join("%s(%s) %s" % (r[0], r[1], r[2]) for r in m.RULES)
        checks.append({
            "property_id": pid,
            "quick_cmd": "./check %s --tier quick" % pid,
            "thorough_cmd": "./check %s --tier thorough" % pid,
            "evidence_file": "/verif/evidence/%s.json" % pid,
            "replay_cmd_template": "./check %s --replay {path}" % pid,
            "engine": "mir-rules",
            "level_claimed": {
                "category": "other",
                "text": "Repository-specific static rules over the type-checked, callee-resolved MIR (pre-coroutine-transform) of the current tree. " + m.EXPLANATION + " Rules evaluated on every run: " + rules + ". Decides the structural clauses listed; the value/history/timing clauses of the property are not decided (see DESIGN.md).",
                "design_ref": "DESIGN.md §5 " + pid,
            },
            "level_note": "Trusted: " + "; ".join(getattr(m, "TRUSTED", [])) + ". Assumptions: " + "; ".join(getattr(m, "ASSUMPTIONS", [])),
            "technique": getattr(m, "TECHNIQUE", "static analysis: dominance / must-pass-through / census / table rules over rustc MIR facts (custom rustc_private driver)"),
        })
    else:
        not_app.append({"property_id": pid, "reason": na.get(pid, "rules not yet implemented in this round; no check is registered rather than a stub")})
man = {
    "version": 1,
    "setup_cmd": "bin/setup.sh",
    "hooks": {
        "guard": "stepfunc_dnp3_verif",
        "enable": "none needed: static analysis reads the production (non-test) cfg directly; no hook code exists in /repo",
        "baseline_off_cmd": "cd /repo && cargo test --workspace --no-fail-fast --offline",
        "source_commits": [],
        "add_only": True,
    },
    "engines": [
        {"name": "facts-driver", "path": "driver/", "serves_properties": [c["property_id"] for c in checks], "kind_free_text": "rustc_private driver (nightly) dumping pre-StateTransform MIR, ADT/const/impl tables as JSON facts"},
        {"name": "mir-rules", "path": "rules/", "serves_properties": [c["property_id"] for c in checks], "kind_free_text": "python rule engine: CFG dominance, must-pass-through, symbolic guard normalisation, census, table/codec agreement"},
    ],
    "checks": checks,
    "not_applicable": not_app,
    "notes": "All checks are static: they read /repo's current working tree (facts cached by content hash under /verif/.cache), never run the library. VERIF_REPO overrides the analysed tree (used by the selftest variants).",
}
json.dump(man, open(os.path.join(VERIF, "MANIFEST.json"), "w"), indent=1)
print("claimed:", [c["property_id"] for c in checks])
print("not applicable:", [n["property_id"] for n in not_app])
