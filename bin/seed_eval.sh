#!/bin/bash
# usage: seed_eval.sh <patch.diff> [props]   -- apply a seeded change to a scratch worktree and run the checks against it
cd "$(dirname "$0")/.."
P="$1"; shift
if [ -n "$1" ]; then exec bin/mutant.py --quiet --props "$1" --patch "$P"; else exec bin/mutant.py --quiet --patch "$P"; fi
