#!/bin/bash
# usage: extract.sh <repo_dir> <facts_out_dir> <target_dir> [extra cargo args...]
# Runs the facts driver over dnp3 + dnp3-ffi of <repo_dir> (non-test build, real flags).
set -euo pipefail
REPO="$1"; OUT="$2"; TGT="$3"; shift 3
HERE="$(cd "$(dirname "$0")/.." && pwd)"
DRV="$HERE/driver/target/debug/dnp3-facts-driver"
if [ ! -x "$DRV" ]; then
  (cd "$HERE/driver" && CARGO_NET_OFFLINE=true cargo build --offline >&2)
fi
SYSROOT="$(rustc +nightly --print sysroot)"
mkdir -p "$OUT" "$TGT"
# members' fingerprints must go: a fresh member build is the only way the driver runs
rm -rf "$TGT"/debug/.fingerprint/dnp3-* "$TGT"/debug/.fingerprint/dnp3_ffi-* "$TGT"/debug/.fingerprint/dnp3-ffi-* 2>/dev/null || true
rm -f "$OUT"/*.json
if [ $# -eq 0 ]; then set -- -p dnp3 -p dnp3-ffi; fi
cd "$REPO"
env CARGO_INCREMENTAL=0 CARGO_NET_OFFLINE=true DNP3_FACTS_DIR="$OUT" \
    LD_LIBRARY_PATH="$SYSROOT/lib" RUSTFLAGS="--cap-lints=allow" \
    RUSTC_WORKSPACE_WRAPPER="$DRV" CARGO_TARGET_DIR="$TGT" \
    cargo +nightly check --offline "$@" >&2
