#!/usr/bin/env python3
"""Freeze the set of function paths of the reviewed tree into tables/known_fns.txt (functions absent from it are treated as
helpers introduced by a later edit and are inlined into their callers before the rules run)."""
import json, os, subprocess, sys
V = os.path.dirname(os.path.dirname(os.path.abspath(__file__)))
sys.path.insert(0, os.path.join(V, "rules"))
os.environ["VERIF_NO_INLINE"] = "1"
from mir import Program
out = set()
for cfg, crates in (("default", ("dnp3", "dnp3_ffi")), ("nodefault", ("dnp3",)), ("serialization", ("dnp3",))):
    fd = subprocess.run([os.path.join(V, "check"), "facts:" + cfg], text=True, capture_output=True).stdout.strip().splitlines()[-1]
    for crate in crates:
        p = Program(os.path.join(fd, crate + ".json"))
        out |= {pp for pp, b in p.bodies.items() if b.kind in ("Fn", "AssocFn") and "{closure" not in pp}
out = sorted(out)
with open(os.path.join(V, "tables", "known_fns.txt"), "w") as f:
    f.write("# function paths of the reviewed tree (%s); regenerate with bin/gen_known_fns.py after reviewing a change that adds functions\n" % subprocess.run(["git", "-C", "/repo", "rev-parse", "--short", "HEAD"], text=True, capture_output=True).stdout.strip())
    f.write("\n".join(out) + "\n")
print(len(out), "functions")
