#!/bin/bash
# usage: import_neutral.sh <worktree-prefix> <P>...   copies <prefix>-<P>/out/<k>/{patch.diff,notes.json} to neutral/<P>-<n> and removes the worktree
PFX=$1; shift
for P in "$@"; do
  W=$PFX-$P
  [ -d $W/out ] || { echo "no $W/out"; continue; }
  n=$(ls -d /verif/neutral/$P-* 2>/dev/null | sed 's/.*-//' | sort -n | tail -1); n=${n:-0}
  for d in $(ls -d $W/out/*/ | sort -V); do
    [ -f $d/patch.diff ] || continue
    n=$((n+1)); mkdir -p /verif/neutral/$P-$n
    cp $d/patch.diff /verif/neutral/$P-$n/patch.diff
    [ -f $d/notes.json ] && cp $d/notes.json /verif/neutral/$P-$n/notes.json
    echo "imported $d -> neutral/$P-$n"
  done
  git -C /repo worktree remove --force $W && echo "removed $W"
done
