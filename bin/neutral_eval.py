#!/usr/bin/env python3
"""Run every claimed check against each behaviour-preserving refactoring in neutral/<name>/patch.diff (scratch worktrees).
Every check must stay silent. Writes neutral/<name>/result.json. usage: neutral_eval.py [-j N] [name-prefix ...]"""
import json, os, re, subprocess, sys
from concurrent.futures import ThreadPoolExecutor
V = os.path.dirname(os.path.dirname(os.path.abspath(__file__)))
args = sys.argv[1:]
j = 4
if args and args[0] == "-j":
    j = int(args[1]); args = args[2:]
names = [d for d in sorted(os.listdir(os.path.join(V, "neutral"))) if os.path.exists(os.path.join(V, "neutral", d, "patch.diff")) and (not args or any(d.startswith(a) for a in args))]
def one(name):
    d = os.path.join(V, "neutral", name)
    m = subprocess.run([os.path.join(V, "bin/mutant.py"), "--quiet", "--patch", os.path.join(d, "patch.diff")], text=True, capture_output=True)
    fired, cur, errors = {}, None, []
    for l in m.stdout.splitlines():
        mm = re.match(r"== (C\d\d) exit=(\d+) (\w+)", l)
        if mm:
            cur = mm.group(1)
            if mm.group(3) == "FIRED": fired[cur] = []
            if mm.group(3) == "ERROR": errors.append(cur)
        mm = re.match(r"\s+rule=(\S+) key=(.*?) at (\S*)", l)
        if mm and cur in fired:
            fired[cur].append({"rule": mm.group(1), "key": mm.group(2), "at": mm.group(3)})
    if m.returncode == 2:
        errors.append("mutant tool: " + m.stdout[-300:])
    res = {"name": name, "silent": not fired and not errors, "false_alarms": fired, "errors": errors}
    json.dump(res, open(os.path.join(d, "result.json"), "w"), indent=1)
    return name, res["silent"], {k: sorted({x["rule"] + ":" + x["key"] for x in v}) for k, v in fired.items()}, errors
with ThreadPoolExecutor(j) as ex:
    for r in ex.map(one, names):
        print(*r, flush=True)
